"""C18 — with db_path, committed state survives exit, exceptions and kills.

E4 (mc/crash.py): histories are the nodes of a trie over a statement alphabet (BFS, enabledness from a tiny model).
For every history: (1) a dry run with a clean `with` exit in a fresh interpreter records the engine calls of the last
statement and what an independent raw connection sees as committed just before exit; after reopening the directory
with a new patch() the observation must equal it; the same for exit by exception, sys.exit and os._exit.
(2) for every engine call k of the last statement the process is SIGKILLed before call k, and once right after the
statement returned; after reopening, the observation must be the clean-exit observation of the history without the last
statement (absent) or with it (fully present) — and exactly "present" when the kill came after the statement returned
outside a transaction. (3) in-memory control: no file appears in an empty cwd/HOME/TMPDIR, and two in-memory instances
do not see each other's objects.

Not demanded: durability against power loss; torn writes inside one DuckDB call (DuckDB's WAL is the trusted base).
"""
from __future__ import annotations

import os
import shutil

from mc import core, crash
from mc.util import WORK

PID = "C18"
LEVEL = "fault_enumeration"

MERGE = (
    "merge into t1 using (select 1 as a, 'm1' as b union all select 2, 'm2') s on t1.a = s.a when matched then update set t1.b = s.b "
    "when not matched then insert (a, b) values (s.a, s.b)"
)
# id -> (sql, needs(set of facts), adds, removes)
ALPHA = {
    "create_t1": ("create table t1 (a int, b varchar(5)) comment = 'c1'", {"!t1"}, {"t1"}, set()),
    "create_plain": ("create table plain (x int)", {"!plain"}, {"plain"}, set()),
    "insert_t1": ("insert into t1 (a, b) values (1, 'x')", {"t1"}, {"rows"}, set()),
    "update_t1": ("update t1 set b = 'y' where a = 1", {"t1", "rows"}, set(), set()),
    "merge_t1": (MERGE, {"t1"}, {"rows"}, set()),
    "view_v1": ("create view v1 comment = 'cv' as select a, b::varchar(4) as sb from t1", {"t1", "!v1"}, {"v1"}, set()),
    "add_col_t1": ("alter table t1 add column note varchar(20)", {"t1", "!v1", "!note"}, {"note"}, set()),
    "comment_t1": ("comment on table t1 is 'c2'", {"t1"}, set(), set()),
    "rename_t1": ("alter table t1 rename to t9", {"t1", "!v1"}, set(), {"t1"}),
    "create_schema": ("create schema s5", {"!s5"}, {"s5"}, set()),
    "create_db2": ("create database db2", {"!db2", "!tx"}, {"db2"}, set()),
    "create_db2_schema": ("create schema db2.s2", {"db2", "!s2", "!tx"}, {"s2"}, set()),
    "create_db2_table": ("create table db2.s2.u (z int, w varchar(3)) comment = 'cu'", {"s2", "!u", "!tx"}, {"u"}, set()),
    "insert_db2": ("insert into db2.s2.u values (7, 'q')", {"u", "!tx"}, set(), set()),
    # statements that FAIL (caught by the caller) - nothing changes, and what follows must still be committed
    "failing_select": ("select * from table_that_is_missing", set(), set(), set()),
    "executemany_fail": ("EM:insert into table_that_is_missing values (%s)|[[1],[2]]", set(), set(), set()),
    # ... also a failing statement of the kind the library carries out in several steps inside a transaction of its own
    "fail_create_multi": ("create table schema_that_is_missing.tt (v varchar(10)) comment = 'c'", set(), set(), set()),
    "fail_comment": ("comment on table table_that_is_missing is 'x'", set(), set(), set()),
    "executemany_ok": ("EM:insert into t1 (a, b) values (%s, %s)|[[5,\"e\"],[6,\"f\"]]", {"t1"}, {"rows"}, set()),
    "begin": ("begin", {"!tx"}, {"tx"}, set()),
    "commit": ("commit", {"tx"}, set(), {"tx"}),
    "rollback": ("rollback", {"tx"}, set(), {"tx"}),
    # the same through the connection's methods (the session's one long-lived cursor does not see these statements)
    "commit()": ("CALL:commit", {"tx"}, set(), {"tx"}),
    "rollback()": ("CALL:rollback", {"tx"}, set(), {"tx"}),
    # leaving a `with connection:` block (normally / by an exception) while a transaction is open: neither commits
    "with_exit": ("WITH:ok", {"tx"}, set(), set()),
    "with_exit_exc": ("WITH:exc", {"tx"}, set(), set()),
}
# deeper histories run in both tiers: a transaction ended by a connection method, then statements the library carries out
# in several steps on the cursor that began it (every kill point inside them)
EXPLICIT = [
    ["create_t1", "begin", "commit()", "merge_t1"],
    ["create_t1", "begin", "insert_t1", "rollback()", "comment_t1"],
    ["begin", "rollback()", "create_t1"],
    ["create_t1", "begin", "insert_t1", "commit()", "rename_t1"],
    # work that is never committed: a transaction still open when the program ends, with a block left in between
    ["create_t1", "begin", "insert_t1", "with_exit"],
    ["create_t1", "begin", "insert_t1", "with_exit_exc"],
    ["begin", "create_plain", "with_exit"],
    ["create_t1", "begin", "insert_t1", "failing_select"],
]
QUICK_FIRST = ["create_t1", "create_plain", "create_db2", "begin", "create_schema", "executemany_fail", "failing_select", "fail_create_multi"]
EXPECT_ERROR = {"failing_select", "executemany_fail", "fail_create_multi", "fail_comment"}


def enabled(facts, sid):
    for n in ALPHA[sid][1]:
        if n.startswith("!"):
            if n[1:] in facts:
                return False
        elif n not in facts:
            return False
    return True


def apply(facts, sid):
    f = set(facts) | ALPHA[sid][2]
    return f - ALPHA[sid][3]


def histories(depth, tier):
    out = [[]]
    level = [([], frozenset())]
    for d in range(depth):
        nxt = []
        for h, facts in level:
            for sid in ALPHA:
                if enabled(facts, sid):
                    if tier == "quick" and d == 0 and sid not in QUICK_FIRST:
                        continue
                    if tier == "quick" and d == 1 and sid in ("create_plain", "create_schema") and h[0] != "begin":
                        continue
                    if tier == "quick" and d == 1 and sid in ("rollback()", "with_exit", "with_exit_exc"):
                        continue
                    if tier == "quick" and d == 1 and (sid == "fail_comment" or (sid == "fail_create_multi" and h[0] not in ("begin", "create_t1"))):
                        continue
                    nh = h + [sid]
                    nxt.append((nh, frozenset(apply(facts, sid))))
                    out.append(nh)
        level = nxt
    return out


def in_tx_before_last(h):
    tx = False
    for sid in h[:-1]:
        if sid == "begin":
            tx = True
        elif sid in ("commit", "rollback", "commit()", "rollback()"):
            tx = False
    return tx


def open_begin(h):
    """index of the BEGIN of the transaction that is still open at the end of h, or None"""
    b = None
    for i, sid in enumerate(h):
        if sid == "begin":
            b = i
        elif sid in ("commit", "rollback", "commit()", "rollback()"):
            b = None
    return b


def _dir(tag):
    d = os.path.join(WORK, f"c18-{os.getpid()}-{tag}")
    shutil.rmtree(d, ignore_errors=True)
    os.makedirs(d)
    return d


def sqls(h):
    return [ALPHA[s][0] for s in h]


def strip(obs):
    return None if obs is None else {k: v for k, v in obs.items() if k != "reported"}


# connect options of the first program: what connect() is told not to create, the session creates itself and makes current
CONNECT_OPTS = {
    "no_schema_on_connect": ({"create_schema_on_connect": False}, ["create schema db1.s1", "use schema db1.s1"]),
    "nothing_on_connect": (
        {"create_database_on_connect": False, "create_schema_on_connect": False},
        ["create database db1", "use database db1", "create schema s1", "use schema s1"],
    ),
}
OPT_HISTORIES = [[], ["create_t1"], ["create_t1", "insert_t1"], ["create_t1", "begin", "insert_t1", "commit"], ["create_db2"]]


def clean_node(item, acc: core.Acc, tier):
    """(1) one history, one exit mode, in a fresh interpreter: committed state before exit == state after reopening.
    The clean-exit run is also the dry run that records the engine calls of the last statement."""
    h, mode, *rest = item
    opt = rest[0] if rest else None
    out = {"history": h, "mode": mode, "opt": opt}
    rp = {"history": h, "sql": sqls(h), "exit": mode}
    if opt:
        rp["connect"] = opt
    last = h[-1] if h else "connect"
    d = _dir("n")
    try:
        spec = {"dir": d, "history": sqls(h), "exit": mode, "out": os.path.join(d, "out.json")}
        if opt:
            spec["patch_opts"], spec["prologue"] = CONNECT_OPTS[opt]
        rc, res, err = crash.run_child(spec)
        acc.count("evaluations")
        broken = None
        if res is None or res.get("pre_exit") is None:
            # never happens on a tree where every statement of the alphabet works (a harness bug would show up on the
            # unchanged tree at once); on a changed tree it is a statement of the history failing unexpectedly
            broken = {"child_rc": rc, "stderr": err[-300:], "errors": (res or {}).get("errors")}
        else:
            unexpected = [e for e in res["errors"] if h[e[0]] not in EXPECT_ERROR]
            if unexpected or len(res["errors"]) != sum(1 for x in h if x in EXPECT_ERROR):
                broken = {"errors": res["errors"]}
        if broken is None:
            os.remove(spec["out"])
            obs, problems = crash.observe_dir(d)
    finally:
        shutil.rmtree(d, ignore_errors=True)
    if broken is not None:
        acc.violation("C18.history_runs", f"last={last},after={'+'.join(x for x in h[:-1] if x in EXPECT_ERROR) or 'plain'}", broken, rp)
        acc.obs((h, mode, "broken"))
        return {"history": h, "mode": mode, "calls": 0, "log": [], "obs": None, "broken": True}
    acc.obs((h, mode, rc, res["calls_last"], repr(strip(obs))))
    acc.outcome((mode, rc, core.h(repr(strip(obs)))))
    intx = (in_tx_before_last(h) and last not in ("commit", "rollback", "commit()", "rollback()")) or last == "begin"
    cls = f"exit={mode},last={last},in_tx={'y' if intx else 'n'}" + (f",connect={opt}" if opt else "")
    if problems:
        acc.violation("C18.reopen_works", cls, {"problems": problems}, rp)
    elif strip(obs) != res["pre_exit"]:
        acc.violation("C18.committed_survives_exit", cls, {"diff": _diff(res["pre_exit"], strip(obs))}, rp)
    # outside a transaction every acknowledged statement is committed at once: an independent connection must see
    # exactly what the session itself sees (otherwise the work sits in a transaction nobody asked for and is lost)
    open_tx = (in_tx_before_last(h) and last not in ("commit", "rollback", "commit()", "rollback()")) or last == "begin"
    if mode == "clean" and not open_tx and res.get("own_view") is not None and res["own_view"] != res["pre_exit"]:
        acc.violation(
            "C18.autocommit_is_committed", f"history_has={'+'.join(sorted(set(x for x in h if x in EXPECT_ERROR or x.startswith('executemany')))) or 'plain'},last={last}" + (f",connect={opt}" if opt else ""),
            {"diff_own_vs_committed": _diff(res["pre_exit"], res["own_view"])}, rp,
        )
    out["reopened"] = strip(obs)
    if mode == "clean":
        out.update(calls=res["calls_last"], log=res.get("log"), obs=strip(obs), reported=(obs or {}).get("reported"))
    acc.nontrivial(("node", tuple(h), mode))
    return out


def parts_state(absent, present, got):
    """Explain a torn state from ground truth: for every object the statement touches, is it as before (old), as after
    the complete statement (new), or neither (other)?"""
    out = []
    for key in ("tables", "views", "data", "schemas", "dbs"):
        a = {repr(x[:-1]) if key in ("tables", "views") else repr(x[0]) if key == "data" else repr(x): x for x in (absent or {}).get(key, [])}
        p = {repr(x[:-1]) if key in ("tables", "views") else repr(x[0]) if key == "data" else repr(x): x for x in (present or {}).get(key, [])}
        g = {repr(x[:-1]) if key in ("tables", "views") else repr(x[0]) if key == "data" else repr(x): x for x in (got or {}).get(key, [])}
        for name in sorted(set(a) | set(p)):
            if a.get(name) == p.get(name):
                if g.get(name) != p.get(name):
                    out.append(f"{key}:{_short(name)}=other")
                continue
            st = "new" if g.get(name) == p.get(name) else ("old" if g.get(name) == a.get(name) else "other")
            out.append(f"{key}:{_short(name)}={st}")
        for name in sorted(set(g) - set(a) - set(p)):
            out.append(f"{key}:{_short(name)}=unexpected")
    return ",".join(out)


def _short(name):
    return name.strip("'[]\"").replace("', '", ".").replace("information_schema.", "")


def _diff(a, b):
    if a is None or b is None:
        return {"before_exit": a is not None, "after_reopen": b is not None}
    out = {}
    for k in a:
        if a[k] != b.get(k):
            out[k] = {"only_before_exit": [x for x in a[k] if x not in b.get(k, [])][:6], "only_after_reopen": [x for x in b.get(k, []) if x not in a[k]][:6]}
    return out


def crash_point(item, acc: core.Acc, tier):
    h, k, absent, present, log = item  # k: 1..n = kill before engine call k of the last statement; 0 = right after it returned
    d = _dir("k")
    try:
        spec = {"dir": d, "history": sqls(h), "out": os.path.join(d, "out.json")}
        if k == 0:
            spec["exit"] = "kill_after"
        else:
            spec["kill_at"] = k
        rc, res, err = crash.run_child(spec)
        if rc != -9:
            raise core.HarnessError(f"child for {h} k={k} was not killed: rc={rc} {err}")
        obs, problems = crash.observe_dir(d)
    finally:
        shutil.rmtree(d, ignore_errors=True)
    acc.count("evaluations")
    acc.count("crash_points")
    got = strip(obs)
    last = h[-1] if h else "connect"
    where = "after_return" if k == 0 else f"before_call_{k}_of_{len(log or [])}"
    acc.obs((h, k, repr(got)))
    state = "absent" if got == absent else ("present" if got == present else "torn")
    acc.outcome((last, where, state))
    acc.nontrivial((tuple(h), k))
    rp = {"history": h, "sql": sqls(h), "kill": where, "k": k, "engine_calls_of_last_statement": log}
    intx = in_tx_before_last(h)
    if problems:
        acc.violation("C18.reopen_works", f"last={last},kill={where}", {"problems": problems}, rp)
        return
    if k == 0 and not intx and last != "begin":
        if got != present:
            acc.violation("C18.acknowledged_survives_kill", f"last={last}", {"diff_to_expected": _diff(present, got)}, rp)
    elif state == "torn":
        # explain: which part of the statement is there
        acc.violation(
            "C18.interrupted_all_or_nothing", f"last={last}:{parts_state(absent, present, got)}",
            {"kill": where, "missing_vs_complete": _diff(present, got), "extra_vs_absent": _diff(absent, got)}, rp,
        )
    acc.sample({"history": sqls(h), "kill": where, "state_after_reopen": state}, cap=3)


def memory_control(item, acc: core.Acc, tier):
    d = _dir("m")
    try:
        spec = {"dir": None, "history": sqls(["create_t1", "insert_t1", "create_db2"]), "exit": "clean", "out": os.path.join(WORK, f"c18-mem-{os.getpid()}.json"), "cwd": d}
        env_backup = {k: os.environ.get(k) for k in ("HOME", "TMPDIR")}
        os.environ["HOME"] = d
        os.environ["TMPDIR"] = d
        try:
            rc, res, err = crash.run_child(spec)
        finally:
            for k, v in env_backup.items():
                if v is None:
                    os.environ.pop(k, None)
                else:
                    os.environ[k] = v
        files = sorted(os.listdir(d))
        if os.path.exists(spec["out"]):
            os.remove(spec["out"])
    finally:
        shutil.rmtree(d, ignore_errors=True)
    acc.count("evaluations")
    acc.obs(("memory", rc, files))
    acc.nontrivial("memory_control")
    if rc != 0 or res is None:
        raise core.HarnessError(f"in-memory control run failed rc={rc} {err}")
    if files:
        acc.violation("C18.in_memory_no_files", "cwd_home_tmpdir", {"files": files}, {"memory_control": True})
    # two in-memory instances in one process do not see each other's objects
    import fakesnow.instance as inst

    a, b = inst.FakeSnow(), inst.FakeSnow()
    try:
        ca = a.connect(database="db1", schema="s1")
        cb = b.connect(database="db1", schema="s1")
        ca.cursor().execute("create table only_in_a (x int)")
        try:
            cb.cursor().execute("select * from only_in_a")
            acc.violation("C18.in_memory_isolated", "two_instances", {}, {"memory_control": True})
        except Exception:  # noqa: BLE001
            pass
    finally:
        a.duck_conn.close()
        b.duck_conn.close()


def run(ctx: core.Ctx):
    depth = 2 if ctx.quick else 3
    hs = histories(depth, ctx.tier)
    have = {tuple(h) for h in hs}
    for e in EXPLICIT:
        for h in [e[:i] for i in range(1, len(e) + 1)]:
            if tuple(h) not in have:
                have.add(tuple(h))
                hs.append(h)
    ctx.rule = (
        "trie of statement histories (BFS over the alphabet in the module, enabledness from a fact model) up to the depth "
        "bound; per history 4 exit modes (clean with, exception, sys.exit, os._exit) in fresh interpreters compared "
        "before-exit vs after-reopen, and one SIGKILL per engine call of the last statement (+ one right after it returned) "
        "compared with the clean-exit observations of the history without / with that statement; non-trivial = distinct "
        "(history, kill point)"
    )
    ctx.assumptions = ["SIGKILL keeps the page cache (no power-loss model)", "DuckDB's WAL makes one engine call atomic"]
    modes = ("clean", "exception", "sysexit", "os_exit")
    res = ctx.pmap(clean_node, [(h, m) for h in hs for m in modes], chunk=1, recheck=False)
    # the same with non-default connect options (everything the session then creates itself must be committed as well)
    ores = ctx.pmap(clean_node, [(h, m, o) for o in CONNECT_OPTS for h in OPT_HISTORIES for m in ("clean", "os_exit")], chunk=1, recheck=False)
    for (_h, _m, o), r in ores:
        base = next((x for _, x in res if x["history"] == r["history"] and x["mode"] == "clean"), None)
        if base is None or base.get("broken") or r.get("broken"):
            continue
        # ... and a later program finds what it finds after the same history under default options
        if r.get("reopened") != base["obs"]:
            ctx.acc.violation(
                "C18.committed_survives_exit", f"exit={r['mode']},last={r['history'][-1] if r['history'] else 'connect'},connect={o},differs_from_default_options",
                {"diff_to_default_options": _diff(base["obs"], r.get("reopened"))}, {"history": r["history"], "sql": sqls(r["history"]), "exit": r["mode"], "connect": o},
            )
    ctx.extra["connect_options"] = {"options": sorted(CONNECT_OPTS), "histories": OPT_HISTORIES, "exits": ["clean", "os_exit"]}
    nodes = {tuple(r["history"]): r for _, r in res if r["mode"] == "clean"}
    # Work that was never committed is absent: a history that ends with a transaction still open leaves, after any kind
    # of exit, exactly what the history cut before that transaction's BEGIN leaves after a clean exit (differential: the
    # before-exit comparison above cannot see work that was published by something other than a commit).
    for _, r in res:
        h = r["history"]
        b = open_begin(h)
        base = nodes.get(tuple(h[:b])) if b is not None else None
        if base is None or r.get("broken") or base.get("broken"):
            continue
        want = nodes[tuple(h[:b])]["obs"]
        cls = f"exit={r['mode']},last={h[-1]}"
        bad = r.get("reopened") != want
        ctx.acc.member("C18.uncommitted_is_absent", cls, bad)
        ctx.acc.count("evaluations")
        if bad:
            ctx.acc.violation(
                "C18.uncommitted_is_absent", cls, {"diff_to_history_without_the_open_transaction": _diff(want, r.get("reopened")), "open_transaction": h[b:]},
                {"history": h, "sql": sqls(h), "exit": r["mode"], "uncommitted_from": b},
            )
    items = []
    for h in hs:
        n = nodes[tuple(h)]
        present = n["obs"]
        absent = nodes[tuple(h[:-1])]["obs"] if h else None
        if in_tx_before_last(h) and h[-1] not in ("commit", "commit()"):
            # uncommitted work: present == absent == committed state; both come from clean exits (implicit rollback)
            pass
        if n.get("broken") or (h and nodes[tuple(h[:-1])].get("broken")):
            continue
        ks = list(range(1, (n["calls"] or 0) + 1)) + [0]
        if h and h[-1].startswith("executemany"):
            ks = [0]  # executemany is a sequence of statements, each atomic on its own: only "after it returned" is demanded
        for k in ks:
            items.append((h, k, absent, present, n["log"]))
    ctx.pmap(crash_point, items, chunk=1, recheck=False)
    ctx.pmap(memory_control, [0], parallel=False, recheck=False)
    # determinism: the same crash point twice
    if items:
        it = items[(ctx.seed * 7 + 3) % len(items)]
        a1, a2 = core.Acc(), core.Acc()
        crash_point(it, a1, ctx.tier)
        crash_point(it, a2, ctx.tier)
        same = a1.fingerprint() == a2.fingerprint()
        ctx.determinism.append({"item": {"history": it[0], "k": it[1]}, "identical": same})
        if not same:
            raise core.HarnessError(f"crash point {it[0]} k={it[1]} is not deterministic")
    ctx.extra["histories"] = len(hs)
    ctx.extra["bound"] = f"history depth <= {depth}; every engine call of the last statement + after-return; 4 exit modes"
    ctx.exhaustive = True


def replay(payload):
    """Re-execute one stored counterexample without the explorer: clean runs of the history without / with the last
    statement give the two acceptable observations, then the kill (or exit mode) is repeated."""
    r = payload["replay"]
    if r.get("memory_control"):
        acc = core.Acc()
        memory_control(0, acc, "quick")
        print(acc.viol or "ok")
        return bool(acc.viol)
    h = r["history"]
    acc = core.Acc()
    if "uncommitted_from" in r:
        got = clean_node((h, r["exit"]), core.Acc(), "quick").get("reopened")
        want = clean_node((h[: r["uncommitted_from"]], "clean"), core.Acc(), "quick")["obs"]
        if got != want:
            acc.violation("C18.uncommitted_is_absent", f"exit={r['exit']},last={h[-1]}", {"diff": _diff(want, got)}, r)
    elif "exit" in r:
        clean_node((h, r["exit"], r.get("connect")), acc, "quick")
    else:
        present = clean_node((h, "clean"), core.Acc(), "quick")
        absent = clean_node((h[:-1], "clean"), core.Acc(), "quick")["obs"] if h else None
        k = r["k"] if "k" in r else (0 if r["kill"] == "after_return" else int(r["kill"].split("_")[2]))
        crash_point((h, k, absent, present["obs"], present["log"]), acc, "quick")
    print("history:", sqls(h))
    print("event:", r.get("exit") or r.get("kill"))
    for k, v in acc.viol.items():
        print(k, core.json.dumps(v["detail"])[:1500])
    if not acc.viol:
        print("ok: state after reopening is one of the acceptable ones")
    return bool(acc.viol)
