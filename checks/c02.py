"""C02 — unquoted identifiers fold to upper case; quoted ones are kept verbatim.

Engine E2 (exhaustive enumeration, metamorphic) + a reporting sweep.

Space   TEMPLATES (written out below) x case re-spellings of their foldable tokens x quoted/unquoted re-spellings of
        their marked names. Every element is executed after the fixed PRELUDE and is followed by the fixed POSTLUDE
        (probes, always in the same spelling, that make session variables and a still-open transaction observable
        from their effects). State-changing statement kinds get a fresh in-memory instance per spelling. Read-only
        kinds (SHARED_KINDS) reuse one instance per work item, but only while the ground truth proves it pristine:
        after every execution the raw-DuckDB digest, the session context, the postlude outcome and the probe table
        must equal those of the untouched instance, otherwise the instance is thrown away (DESIGN 2.2 (i)).

        Session flavours (SESSIONS): besides the connection with current database db1 and schema s1, the
        context-sensitive statement kinds (CTEs, aliases, MERGE, DESCRIBE, SHOW, DML/DDL on fully qualified names)
        also run on a second connection with NO current database (connect() without arguments) and with a current
        database but NO current schema (after USE DATABASE); and a family of templates works on objects whose quoted
        names are NOT upper case ("lower_s", "MixedDb", "mt", "cc", "vV", ...: created, USEd, described, shown,
        commented, altered, dropped), from db1.s1 (q), from inside the quoted lower-case schema (qs) and from inside
        the quoted mixed-case database (qd). Every occurrence of an identifier is a token of its own, so definition
        and reference of a CTE / alias / MERGE source are re-spelled independently.

        Statement families fakesnow answers from the statement TEXT (TEXT_FAMILIES: tags, users, roles, warehouses,
        ALTER SESSION, GRANT/REVOKE, stages, CALL, nop_regexes, the spellings of BEGIN/START/COMMIT/ROLLBACK,
        DESCRIBE/DESC, TRUNCATE [TABLE], SHOW variants, SET/UNSET, CREATE [OR REPLACE] DATABASE, IDENTIFIER(),
        CURRENT_DATABASE()/CURRENT_SCHEMA()) have templates whose flip tokens are their keywords; the families
        fakesnow answers itself also exist laid out with two blanks and with a newline between the tokens — each
        layout a template of its own, with its own all-lower reference, so that only letter case varies inside it.

        quick    per template: all-lower, ALL-UPPER, Capitalised, aLtErNaTiNg, every single token in UPPER;
                 every single marked name written as "UPPER", and all of them.
                 Where a whole-statement Capitalised / aLtErNaTiNg spelling disagrees, the tokens whose UPPER flip
                 disagrees are also flipped alone in that form (attribution pass), so that classes carry the same
                 names in both tiers.
        thorough additionally every single token Capitalised / aLtErNaTiNg, all 2^t lower/UPPER assignments for
                 t <= 10 foldable tokens, single + pair flips above; every subset of quoted names (<= 6 names; pairs
                 above), also with the rest in upper case.

Clauses
  C02.respell.<facet>   the complete observable outcome of a statement is the same for every case spelling
                        (reference: the all-lower spelling, differential). Facets, in this order of precedence:
                        status (success / exception class, errno, sqlstate), names (DictCursor keys and
                        description names), rows, rowcount, context (conn.database / conn.schema and the engine's
                        own current database/schema), state (raw-DuckDB catalogue + data digest), post (outcome of
                        the postlude probes, rows of the probe table and the context after them).
  C02.quoted.<facet>    writing an unquoted name as its double-quoted upper-case spelling denotes the same object:
                        same outcome as the same statement without the quotes (the all-lower reference; for the
                        thorough variants whose other tokens are in upper case, the ALL-UPPER spelling).
  C02.report.<surface>  absolute: on each surface the names are the ones the identifier rules predict
                        (mc/ref/sf_ident.py: unquoted -> upper case, quoted -> verbatim). Surfaces: description,
                        dictkeys, status, result (names a DESCRIBE / SHOW template must list in its own result) —
                        of the template's own result, where the template states an expectation — and conn
                        (conn.database / conn.schema), all five judged after every execution; is.tables, is.columns, is.views, is.databases, describe,
                        select (description + DictCursor keys of SELECT * per object), show.schemas, show.objects,
                        show.tables, show.pk — swept after session prelude + template + postlude in whole-statement
                        spellings (see sweep_labels).

  C02.verbatim.<surface> absolute, histories in ONE session: a statement reports its double-quoted identifiers exactly
                        as IT writes them, whatever the session executed before. VERBATIM_TEMPLATES (queries whose
                        quoted column aliases are slots for the letter case) x slot spellings (quick: every slot
                        lower / UPPER / Capitalised / aLtErNaTiNg, one slot UPPER; thorough: all 4^slots) x every
                        ordered pair of two different spellings (thorough: + A B A and A B C over the whole-statement
                        spellings) x ARRANGEMENTS (the same cursor, another cursor of the connection, another
                        connection of the instance; tuple cursor and DictCursor, also mixed) [thorough: x another
                        query / a SET between the statements, x everything else in the statements in UPPER]. After
                        EVERY statement of the history each surface is compared with the spelling written in that
                        statement (mc/ref/sf_ident.vreported): description (read before and after fetching),
                        dictkeys, pandas (fetch_pandas_all columns), describe (cursor.describe of the same text).
                        Each history runs on connections of its own; the histories of a work item share the instance.

Not demanded
  * in C02.verbatim: only names the statement defines itself are slots (a quoted reference to an existing object in
    another case is the distinctness of "t" and T, below); a surface that raises or lists other columns altogether is
    counted (`verbatim_surfaces_not_judged`), not judged: that is not a matter of letter case;
  * that "t" and T are distinct objects (DuckDB is case-insensitive; the statement does not claim distinctness);
  * error message text (it echoes user text); only class, errno, sqlstate are compared;
  * the names of result columns that are expressions without alias (Snowflake derives them from the expression text);
  * row order of statements without ORDER BY (compared as multisets);
  * in the sweep: that an expected name is present on a surface at all (completeness of metadata is C09's subject):
    an absent name is counted in evidence (`sweep_names_absent`), a name in the wrong case is the violation. Only a
    DESCRIBE / SHOW template that itself names an object the prelude created must list it (`kind=missing`): resolving
    the name it was given is what the statement is for;
  * names of fakesnow's internal helper objects (`_fs_*`, `_fs_global`, DuckDB's `main`, `memory`, `system`, `temp`):
    the user never wrote them. DuckDB's lower-case `information_schema` and the views in it are demanded, because the
    user does write INFORMATION_SCHEMA.TABLES unquoted;
  * the current schema after USE DATABASE / CREATE DATABASE (Snowflake: PUBLIC; a C03 matter);
  * case of path element names after ':' , of string constants and of quoted identifiers: never re-spelled.

Classes   C02.respell / C02.quoted: `stmt=<kind>,tok=<token>,form=<upper|capitalised|alternating>` — the first token
          (left to right) whose single flip already changes the outcome and which is flipped in the failing spelling;
          `tok=<combination>` when no single flip explains it. C02.report: `kind=<case|lower|missing>,name=<...>[,stmt=<kind>]
          [,attr=<database|schema>][,session=<flavour>][,via=identifier()]` (via: a name the statement passes as a string).
          C02.verbatim: `stmt=<template>,cursor=<same|other|conn>,step=<first|later>[,spelling=seen-before]
          [,between=<query|set>]` (seen-before: the history executed this very spelling earlier).
"""
from __future__ import annotations

import ast
import logging

from mc import core, observe
from mc.ref import sf_ident as R

PID = "C02"
LEVEL = "exploration"

# sqlglot warns on stderr about syntax it parses as a plain Command (CREATE TRANSIENT ..., ALTER DATABASE ...): noise here
logging.getLogger("sqlglot").setLevel(logging.ERROR)

DB, SCHEMA = "db1", "s1"

# ---- fixed prelude: (statement, effects on the names model) ---------------------------------------------------------
PRELUDE = [
    ("create table t (k int, v varchar(5))", [("table", "t", ["k", "v"])]),
    ("insert into t values (1,'a'),(2,'b')", []),
    ("create table s (k int, v varchar)", [("table", "s", ["k", "v"])]),
    ("insert into s values (1,'A'),(2,'B2'),(3,'C')", []),
    ("create schema s2", [("schema", "s2")]),
    ("create table s2.u (id int, note varchar(8))", [("table", "s2.u", ["id", "note"])]),
    ("insert into s2.u values (10, 'x')", []),
    ("create view vw as select k, v from t", [("view", "vw", ["k", "v"])]),
    ('create table "qT" ("cA" int, b varchar, "C" int)', [("table", '"qT"', ['"cA"', "b", '"C"'])]),
    ("insert into \"qT\" values (1, 'q', 3)", []),
    ("create table j (id int, doc variant)", [("table", "j", ["id", "doc"])]),
    ("insert into j select 1, parse_json('{\"a\": {\"bB\": 5}, \"K\": \"vV\"}')", []),
    ("create table pk (id int primary key, x int)", [("table", "pk", ["id", "x"])]),
    ("create database db2", [("database", "db2")]),
    ("use schema db1.s1", [("use_schema", "db1.s1")]),
    ("set pv = 7", []),
]

# fixed postlude: makes session variables and a still-open transaction observable (always spelled like this)
POSTLUDE = [
    "select $pv as x",
    "select $nv as x",
    "insert into db1.s1.pk values (99, 0)",
    "rollback",
]


class T:
    """One statement template. `sql` marks nameable unquoted identifiers with ~ (mc.ref.sf_ident.MARK).

    cols    spelled result column names the statement itself fixes (aliases / plain columns), or None
    status  (format, spelled name) of the status row Snowflake documents for the statement, or None
    via     (how, [spelled names]): names of fx the statement passes as a string (IDENTIFIER('t8')) — the sweep
            files them in a class of their own
    has     (result column, [spelled names]): names the statement's own result must list in that column
            (DESCRIBE: column names; SHOW: object names), or None
    fx      effects on the names model (mc.ref.sf_ident.Catalog.apply)
    ctx     False: the current database/schema after the statement is not fixed by this property
    session the session flavour the statement runs in (SESSIONS)
    """

    def __init__(self, tid, kind, sql, cols=None, ordered=False, status=None, fx=(), ctx=True, has=None,
                 session="full", layout="1", via=None):
        self.id, self.kind, self.sql, self.cols, self.ordered = tid, kind, sql, cols, ordered
        self.via = via  # (how, [spelled names]): names the statement gives otherwise than as an identifier token
        self.status, self.fx, self.ctx, self.has, self.session = status, list(fx), ctx, has, session
        self.layout = layout  # "1" as written, "2sp" / "nl": every single blank between two tokens doubled / a newline

    def relaid(self, layout: str) -> "T":
        """The same template in another layout. It is a template of its own (own all-lower reference), so that only
        letter case varies inside it: nothing is demanded about the layout itself."""
        sep = {"2sp": "  ", "nl": "\n"}[layout]
        sql = "".join(
            sep if (tk.kind == "gap" and tk.text == " ") else (R.MARK + tk.text if tk.name else tk.text)
            for tk in R.lex(self.sql)
        )
        return T(f"{self.id}~{layout}", self.kind, sql, self.cols, self.ordered, self.status, self.fx, self.ctx,
                 self.has, self.session, layout, self.via)


# ---- session flavours -------------------------------------------------------------------------------------------------
# Every flavour starts with PRELUDE on a connection with database db1 and schema s1. Then:
#   full      the statement runs on that connection;
#   nodb      the statement runs on a second connection of the same instance made by connect() without arguments:
#             no current database, no current schema;
#   noschema  the same second connection after USE DATABASE db1: a current database, but no current schema;
#   q         PRELUDE_Q (objects whose quoted names are NOT upper case) is added, context still db1.s1;
#   qs        q, then USE SCHEMA "lower_s": the current schema has a quoted lower-case name;
#   qd        q, then USE SCHEMA "MixedDb"."sX": current database and schema have quoted mixed-case names;
#   nop       full, on an instance created with nop_regexes (NOP_REGEXES).
# (statement, effects on the names model)
PRELUDE_Q = [
    ('create schema "lower_s"', [("schema", '"lower_s"')]),
    ('create table "lower_s".t5 (id int, "mIx" varchar(7))', [("table", '"lower_s".t5', ["id", '"mIx"'])]),
    ("insert into \"lower_s\".t5 values (1, 'a')", []),
    ('create table "lower_s"."mt" ("cc" int, "Dd" varchar(4))', [("table", '"lower_s"."mt"', ['"cc"', '"Dd"'])]),
    ("insert into \"lower_s\".\"mt\" values (1, 'dD')", []),
    ('create view "lower_s"."vV" as select "cc" from "lower_s"."mt"', [("view", '"lower_s"."vV"', ['"cc"'])]),
    ('create database "MixedDb"', [("database", '"MixedDb"')]),
    ('create schema "MixedDb"."sX"', [("schema", '"MixedDb"."sX"')]),
    ('create table "MixedDb"."sX"."tQ" ("a" int, b int)', [("table", '"MixedDb"."sX"."tQ"', ['"a"', "b"])]),
    ('insert into "MixedDb"."sX"."tQ" values (1, 2)', []),
    ("use schema db1.s1", [("use_schema", "db1.s1")]),
]
SESSIONS = {
    # flavour: (second connection?, [(statement, effects)] after PRELUDE, on the connection the template uses)
    "full": (False, []),
    "nodb": (True, [("set pv = 7", [("session", None, None)])]),
    "noschema": (True, [("set pv = 7", [("session", None, None)]), ("use database db1", [("use_database", "db1")])]),
    "q": (False, PRELUDE_Q),
    "qs": (False, PRELUDE_Q + [('use schema "lower_s"', [("use_schema", '"lower_s"')])]),
    "qd": (False, PRELUDE_Q + [('use schema "MixedDb"."sX"', [("use_schema", '"MixedDb"."sX"')])]),
    # the instance is created with nop_regexes=NOP_REGEXES: statements matching one of them are answered by fakesnow
    # from their text alone
    "nop": (False, []),
}
NOP_REGEXES = [r"^call\s+\w+", r"^GRANT\s", r"^Alter\s+Session\b", r"^copy\s+into\s"]


CREATED = "{kind} {name} successfully created."
DROPPED = "{name} successfully dropped."

TEMPLATES = [
    # ---- queries ----
    T("sel_alias", "SELECT", "select ~k, ~v as ~alias1 from ~t where ~k > 0 order by ~k", ["k", "alias1"], True),
    T("sel_qalias", "SELECT", "select ~k as \"camelCase\", ~v \"v\", 'MiXed' as ~lit from ~t order by 1",
      ['"camelCase"', '"v"', "lit"], True),
    T("sel_join", "SELECT", "select ~a.~k, ~b.~v as ~bv from ~t as ~a join ~s ~b on ~a.~k = ~b.~k order by ~a.~k",
      ["k", "bv"], True),
    T("sel_leftjoin", "SELECT",
      "select ~t.~k, ~s.~v as ~sv from ~t left outer join ~s on ~t.~k = ~s.~k and ~s.~v <> 'A' order by ~t.~k",
      ["k", "sv"], True),
    T("sel_group", "SELECT",
      "select ~v, count(*) as ~n from ~t group by ~v having count(*) > 0 order by ~v desc nulls last limit 5",
      ["v", "n"], True),
    T("sel_cte", "SELECT", "with ~c as (select ~k from ~t) select ~k from ~c order by ~k", ["k"], True),
    T("sel_case", "SELECT",
      "select case when ~k in (select ~k from ~s where ~v = 'A') then 'Y' else 'n' end as ~flag from ~t order by ~k",
      ["flag"], True),
    T("sel_qualified", "SELECT", "select ~k from ~db1.~s1.~t union all select ~id from ~s2.~u order by 1", ["k"], True),
    T("sel_qtable", "SELECT", 'select "cA", ~b, "C" from "qT"', ['"cA"', "b", '"C"']),
    T("sel_star_qtable", "SELECT", 'select * from "qT"', ['"cA"', "b", '"C"']),
    T("sel_star", "SELECT", "select * from ~t order by ~k", ["k", "v"], True),
    T("sel_like", "SELECT", "select ~v from ~s where ~v like 'a%' or ~v ilike 'b%' or ~v = 'c' order by ~v", ["v"], True),
    T("sel_values", "SELECT", "select ~column1, ~column2 from values (1, 'aB'), (2, 'Cd') order by 1",
      ["column1", "column2"], True),
    T("sel_window", "SELECT",
      "select ~k, row_number() over (partition by ~v order by ~k) as ~rn from ~t order by ~k", ["k", "rn"], True),
    T("sel_pred", "SELECT",
      "select ~k from ~t where ~k between 1 and 2 and ~v is not null and not (~k <> 1) order by ~k", ["k"], True),
    T("sel_casts", "SELECT",
      "select 1::number(10,2) as ~n, '2020-01-02'::date as ~d, 'xY'::varchar as ~c, 1.5::float as ~f, "
      "true::boolean as ~b, try_cast('1' as integer) as ~i, cast('2020-01-01 00:00:00' as timestamp_ntz) as ~ts",
      ["n", "d", "c", "f", "b", "i", "ts"]),
    T("sel_view", "SELECT", "select ~k, ~v from ~vw order by ~k", ["k", "v"], True),
    T("sel_var", "SELECT", "select $pv as ~x", ["x"]),
    # ---- DML ----
    T("ins_values", "INSERT", "insert into ~t (~k, ~v) values (3, 'cC')"),
    T("ins_select", "INSERT", "insert into ~t select ~k + 10, ~v from ~s"),
    T("ins_quoted", "INSERT", "insert into \"qT\" (\"cA\", ~b) values (2, 'Zz')"),
    T("upd", "UPDATE", "update ~t set ~v = 'Zz' where ~k = 1"),
    T("upd_from", "UPDATE", "update ~t set ~v = ~s.~v from ~s where ~t.~k = ~s.~k"),
    T("upd_none", "UPDATE", "update ~t set ~v = 'n' where ~k = 99"),
    T("del", "DELETE", "delete from ~t where ~k = 2"),
    T("del_using", "DELETE", "delete from ~t using ~s where ~t.~k = ~s.~k and ~s.~v = 'A'"),
    T("truncate", "TRUNCATE", "truncate table ~t"),
    # ---- MERGE: every clause kind ----
    T("merge_upd_ins", "MERGE",
      "merge into ~t using ~s on ~t.~k = ~s.~k when matched then update set ~v = ~s.~v "
      "when not matched then insert (~k, ~v) values (~s.~k, ~s.~v)"),
    T("merge_del", "MERGE", "merge into ~t using ~s on ~t.~k = ~s.~k when matched then delete"),
    T("merge_all", "MERGE",
      "merge into ~t using ~s on ~t.~k = ~s.~k when matched and ~s.~v = 'A' then update set ~v = ~s.~v "
      "when matched then delete when not matched and ~s.~k > 0 then insert (~k, ~v) values (~s.~k, ~s.~v)"),
    T("merge_upd_const", "MERGE",
      "merge into ~t using ~s on ~t.~k = ~s.~k when matched then update set ~v = 'mM'"),
    T("merge_ins", "MERGE",
      "merge into ~t using ~s on ~t.~k = ~s.~k when not matched then insert (~k, ~v) values (~s.~k, 'nN')"),
    # ---- DDL ----
    T("create_table", "CREATE TABLE",
      "create table ~t2 (~a int, ~b varchar(3), \"mC\" number(10,2) not null, ~d timestamp_ntz, ~e variant, "
      "~f float, ~g boolean, ~h date) comment = 'Hello'",
      status=(CREATED, "Table", "t2"),
      fx=[("table", "t2", ["a", "b", '"mC"', "d", "e", "f", "g", "h"])]),
    T("create_table_q", "CREATE TABLE", 'create table "Mixed" (~x int)', status=(CREATED, "Table", '"Mixed"'),
      fx=[("table", '"Mixed"', ["x"])]),
    T("create_table_fq", "CREATE TABLE", "create table ~db1.~s2.~t3 (~a int)", status=(CREATED, "Table", "t3"),
      fx=[("table", "db1.s2.t3", ["a"])]),
    T("create_table_ine", "CREATE TABLE", "create table if not exists ~t (~z int)"),
    T("create_or_replace_table", "CREATE TABLE", "create or replace table ~t (~k2 int)",
      status=(CREATED, "Table", "t"), fx=[("table", "t", ["k2"])]),
    T("create_transient", "CREATE TABLE", "create transient table ~tt (~a int)", status=(CREATED, "Table", "tt"),
      fx=[("table", "tt", ["a"])]),
    T("ctas", "CREATE TABLE", "create table ~c1 as select ~k, ~v as ~w from ~t", status=(CREATED, "Table", "c1"),
      fx=[("table", "c1", ["k", "w"])]),
    T("clone", "CREATE TABLE", "create table ~c2 clone ~t", status=(CREATED, "Table", "c2"),
      fx=[("table", "c2", ["k", "v"])]),
    T("create_view", "CREATE VIEW", "create view ~v2 as select ~k as ~kk from ~t", status=(CREATED, "View", "v2"),
      fx=[("view", "v2", ["kk"])]),
    T("create_or_replace_view", "CREATE VIEW", "create or replace view ~vw as select ~k from ~t",
      status=(CREATED, "View", "vw"), fx=[("view", "vw", ["k"])]),
    T("create_schema", "CREATE SCHEMA", "create schema ~s3", status=(CREATED, "Schema", "s3"), fx=[("schema", "s3")]),
    T("create_schema_fq", "CREATE SCHEMA", "create schema ~db2.~s4", status=(CREATED, "Schema", "s4"),
      fx=[("schema", "db2.s4")]),
    T("create_schema_ine", "CREATE SCHEMA", "create schema if not exists ~s2"),
    T("create_database", "CREATE DATABASE", "create database ~db3", status=(CREATED, "Database", "db3"),
      fx=[("database", "db3")], ctx=False),
    T("drop_table", "DROP", "drop table ~t", status=(DROPPED, None, "t"), fx=[("drop", "t")]),
    T("drop_table_ie", "DROP", "drop table if exists ~nope"),
    T("drop_view", "DROP", "drop view ~vw", status=(DROPPED, None, "vw"), fx=[("drop", "vw")]),
    T("drop_schema", "DROP", "drop schema ~s2", status=(DROPPED, None, "s2"), fx=[("dropschema", "s2")]),
    T("drop_schema_current", "DROP", "drop schema ~db1.~s1", status=(DROPPED, None, "s1"), fx=[("dropschema", "db1.s1")]),
    T("drop_database", "DROP", "drop database ~db2", status=(DROPPED, None, "db2"), fx=[("dropdatabase", "db2")]),
    T("alter_add", "ALTER", "alter table ~t add column ~c int", fx=[("addcol", "t", "c")]),
    T("alter_add_q", "ALTER", 'alter table ~t add column "mX" varchar(4)', fx=[("addcol", "t", '"mX"')]),
    T("alter_rename", "ALTER", "alter table ~t rename to ~t9", fx=[("rename", "t", "t9")]),
    T("alter_drop_col", "ALTER", "alter table ~t drop column ~v", fx=[("dropcol", "t", "v")]),
    T("alter_rename_col", "ALTER", "alter table ~t rename column ~v to ~v9", fx=[("renamecol", "t", "v", "v9")]),
    T("alter_set_comment", "ALTER", "alter table ~t set comment = 'cM'"),
    T("alter_cluster", "ALTER", "alter table ~t cluster by (~k)"),
    T("alter_view_rename", "ALTER", "alter view ~vw rename to ~vw2", fx=[("rename", "vw", "vw2")]),
    T("alter_schema_rename", "ALTER", "alter schema ~s2 rename to ~s5", fx=[]),  # unsupported today: fails in every spelling
    T("alter_database_rename", "ALTER", "alter database ~db2 rename to ~db5", fx=[]),  # ditto
    T("comment_on", "COMMENT", "comment on table ~t is 'cM'"),
    T("comment_on_column", "COMMENT", "comment on column ~t.~k is 'cK'"),
    # ---- context ----
    T("use_schema", "USE", "use schema ~s2", fx=[("use_schema", "s2")]),
    T("use_schema_fq", "USE", "use schema ~db1.~s2", fx=[("use_schema", "db1.s2")]),
    T("use_database", "USE", "use database ~db2", fx=[("use_database", "db2")]),
    T("use_schema_missing", "USE", "use schema ~nope"),
    # ---- SHOW / DESCRIBE ----
    T("show_tables", "SHOW", "show tables"),
    T("show_tables_schema", "SHOW", "show tables in schema ~s1"),
    T("show_tables_db", "SHOW", "show terse tables in database ~db1"),
    T("show_objects", "SHOW", "show objects"),
    T("show_objects_db", "SHOW", "show terse objects in database ~db1"),
    T("show_objects_schema", "SHOW", "show objects in schema ~db1.~s2"),
    T("show_schemas", "SHOW", "show schemas"),
    T("show_schemas_db", "SHOW", "show schemas in database ~db1"),
    T("show_pk", "SHOW", "show primary keys"),
    T("show_pk_schema", "SHOW", "show primary keys in schema ~db1.~s1"),
    T("show_pk_table", "SHOW", "show primary keys in table ~pk"),
    T("describe_table", "DESCRIBE", "describe table ~t"),
    T("desc_table_fq", "DESCRIBE", "desc table ~db1.~s1.~t"),
    T("describe_view", "DESCRIBE", "describe view ~vw"),
    T("describe_qtable", "DESCRIBE", 'describe table "qT"'),
    # ---- SET / UNSET ----
    T("set_new", "SET", "set nv = 'MiX'"),
    T("set_existing", "SET", "set pv = 8"),
    T("set_expr", "SET", "set nv = (select max(~k) from ~t)"),
    T("unset", "UNSET", "unset pv"),
    # ---- transactions ----
    T("begin", "TRANSACTION", "begin"),
    T("begin_transaction", "TRANSACTION", "begin transaction"),
    T("commit", "TRANSACTION", "commit"),
    T("rollback", "TRANSACTION", "rollback"),
    # ---- information_schema ----
    T("is_tables", "IS_QUERY",
      "select ~table_name, ~table_type from ~information_schema.~tables where ~table_schema = 'S1' "
      "order by ~table_name", ["table_name", "table_type"], True),
    T("is_columns", "IS_QUERY",
      "select ~column_name, ~data_type from ~information_schema.~columns where ~table_name = 'T' "
      "and ~table_schema = 'S1' order by ~ordinal_position", ["column_name", "data_type"], True),
    T("is_views", "IS_QUERY",
      "select ~table_name from ~db1.~information_schema.~views where ~table_schema = 'S1'", ["table_name"]),
    T("is_databases", "IS_QUERY",
      "select ~database_name from ~information_schema.~databases order by ~database_name", ["database_name"], True),
    T("is_star", "IS_QUERY",
      "select * from ~information_schema.~tables where ~table_name = 'qT'"),
    # ---- rewritten functions ----
    T("fn_convert", "FUNCTION",
      "select to_decimal('1.5', 10, 1) as ~a, to_number('2') as ~b, try_to_number('x') as ~c, "
      "to_date('2020-01-02') as ~d, to_timestamp_ntz('2020-01-02 03:04:05') as ~e, to_timestamp(0) as ~f",
      ["a", "b", "c", "d", "e", "f"]),
    T("fn_date", "FUNCTION",
      "select dateadd(day, 1, '2020-01-01'::date) as ~a, dateadd(quarter, 1, '2020-01-31'::date) as ~b, "
      "datediff(hour, '2020-01-01', '2020-01-02') as ~c, dateadd(month, 1, '2020-01-01') as ~d",
      ["a", "b", "c", "d"]),
    T("fn_regex", "FUNCTION",
      "select regexp_substr('abcABC', 'B', 1, 1, 'i') as ~a, regexp_replace('abcABC', 'b', 'X') as ~b, "
      "regexp_substr('abcABC', '(B)(C)', 1, 1, 'e') as ~c", ["a", "b", "c"]),
    T("fn_json", "FUNCTION",
      "select parse_json('{\"aB\":{\"cD\":1}}'):aB.cD::int as ~a, ~doc:a.bB::varchar as ~b, ~doc['K'] as ~c, "
      "object_construct('kK', 1) as ~d, array_size(parse_json('[1,2]')) as ~e, try_parse_json('{') as ~f, "
      "upper(~doc:K) as ~g from ~j", ["a", "b", "c", "d", "e", "f", "g"]),
    T("fn_misc", "FUNCTION",
      "select sha2('aB') as ~a, sha2_hex('aB', 256) as ~b, trim(' aB ') as ~c, ltrim('xxaB', 'x') as ~d, "
      "equal_null(1, null) as ~e, upper(~v) as ~f, lower('MiX') as ~g, split('a,B', ',') as ~h, "
      "to_binary('4142') as ~i, to_binary('QUI=', 'base64') as ~l from ~t where ~k = 1",
      ["a", "b", "c", "d", "e", "f", "g", "h", "i", "l"]),
    T("fn_agg", "FUNCTION",
      "select array_agg(~k) within group (order by ~k desc) as ~a, listagg(~v, ',') within group (order by ~v) as ~b "
      "from ~t", ["a", "b"]),
    T("fn_flatten", "FUNCTION", "select ~value from lateral flatten(input => [1, 2])", ["value"]),
    T("fn_flatten_alias", "FUNCTION",
      "select ~f.~value::varchar as ~x from ~j, lateral flatten(input => parse_json('[\"aB\"]')) ~f", ["x"]),
    T("fn_identifier", "FUNCTION", "select ~k from identifier('t') order by ~k", ["k"], True),
    T("fn_identifier_col", "FUNCTION", "select identifier('t').~k from identifier('T') order by 1", None, True),
    T("fn_sample", "FUNCTION", "select count(*) as ~n from ~t sample (50) seed (1)", ["n"]),
    T("fn_tablesample", "FUNCTION", "select ~k from ~t tablesample bernoulli (100) order by ~k", ["k"], True),
    T("fn_random", "FUNCTION", "select random(3) as ~r", ["r"]),
    # ---- the same kinds of statement in sessions WITHOUT a current database / schema: names are fully qualified so
    #      that the statements can succeed; CTE names, aliases and MERGE sources are defined and referenced in
    #      different places, and every occurrence is re-spelled on its own ----
    *[
        T(f"{tid}@{sess}", kind, sql, cols, ordered, status=status, fx=fx, ctx=ctx, has=has, session=sess)
        for sess in ("nodb", "noschema")
        for tid, kind, sql, cols, ordered, status, fx, ctx, has in [
            ("cte_const", "SELECT", "with ~totals as (select 1 as ~a, 'x' as ~b) select ~a, ~b from ~totals",
             ["a", "b"], False, None, (), True, None),
            ("cte_alias", "SELECT",
             "with ~totals as (select 1 as ~a) select ~x.~a from ~totals ~x", ["a"], False, None, (), True, None),
            ("cte_fq", "SELECT",
             "with ~src as (select ~k, ~v from ~db1.~s1.~t) select ~src.~k from ~src order by 1",
             ["k"], True, None, (), True, None),
            ("cte_two", "SELECT",
             "with ~c1 as (select ~k from ~db1.~s1.~t), ~c2 as (select ~k from ~c1) "
             "select ~z.~k from ~c2 as ~z order by 1", ["k"], True, None, (), True, None),
            ("join_fq", "SELECT",
             "select ~a.~k, ~b.~v from ~db1.~s1.~t ~a join ~db1.~s1.~s as ~b on ~a.~k = ~b.~k order by 1",
             ["k", "v"], True, None, (), True, None),
            ("subq_fq", "SELECT",
             "select ~q.~k from (select ~k from ~db1.~s1.~t) as ~q where ~q.~k in (select ~k from ~db1.~s1.~s) order by 1",
             ["k"], True, None, (), True, None),
            ("unqualified", "ERROR", "select ~k from ~t", None, False, None, (), True, None),
            ("schema_qualified", "SELECT", "select ~k from ~s1.~t order by ~k", None, True, None, (), True, None),
            ("var", "SELECT", "select $pv as ~x", ["x"], False, None, (), True, None),
            ("is_fq", "IS_QUERY",
             "select ~table_name from ~db1.~information_schema.~tables where ~table_schema = 'S2'",
             ["table_name"], False, None, (), True, None),
            ("describe_fq", "DESCRIBE", "describe table ~db1.~s1.~t", None, False, None, (), True, ("name", ["k", "v"])),
            ("show_tables_fq", "SHOW", "show tables in schema ~db1.~s2", None, False, None, (), True, ("name", ["u"])),
            ("show_schemas_fq", "SHOW", "show schemas in database ~db1", None, False, None, (), True,
             ("name", ["s1", "s2"])),
            ("show_tables", "SHOW", "show terse tables", None, False, None, (), True, None),
            ("ins_fq", "INSERT", "insert into ~db1.~s1.~t (~k, ~v) values (3, 'cC')", None, False, None, (), True, None),
            ("upd_fq", "UPDATE", "update ~db1.~s1.~t set ~v = 'Zz' where ~k = 1", None, False, None, (), True, None),
            ("del_fq", "DELETE", "delete from ~db1.~s1.~t where ~k = 2", None, False, None, (), True, None),
            ("merge_fq", "MERGE",
             "merge into ~db1.~s1.~t as ~tt using ~db1.~s1.~s as ~ss on ~tt.~k = ~ss.~k "
             "when matched then update set ~v = ~ss.~v when not matched then insert (~k, ~v) values (~ss.~k, ~ss.~v)",
             None, False, None, (), True, None),
            ("merge_cte_src", "MERGE",
             "merge into ~db1.~s1.~t using (select ~k, ~v from ~db1.~s1.~s) ~src on ~t.~k = ~src.~k "
             "when matched then delete", None, False, None, (), True, None),
            ("create_table_fq", "CREATE TABLE", "create table ~db1.~s2.~n1 (~a int, \"bB\" varchar(3))",
             None, False, (CREATED, "Table", "n1"), [("table", "db1.s2.n1", ["a", '"bB"'])], True, None),
            ("create_view_fq", "CREATE VIEW", "create view ~db1.~s1.~v3 as select ~k as ~kk from ~db1.~s1.~t",
             None, False, (CREATED, "View", "v3"), [("view", "db1.s1.v3", ["kk"])], True, None),
            ("drop_table_fq", "DROP", "drop table ~db1.~s1.~s", None, False, (DROPPED, None, "s"),
             [("drop", "db1.s1.s")], True, None),
            ("create_schema_fq", "CREATE SCHEMA", "create schema ~db1.~s6", None, False, (CREATED, "Schema", "s6"),
             [("schema", "db1.s6")], True, None),
            ("use_schema_fq", "USE", "use schema ~db1.~s2", None, False, None, [("use_schema", "db1.s2")], True, None),
            ("use_schema_rel", "USE", "use schema ~s2", None, False, None, (), False, None),
            ("use_database", "USE", "use database ~db2", None, False, None, [("use_database", "db2")], True, None),
        ]
    ],
    # ---- quoted names that are NOT upper case ("kept verbatim" says something only for these): created, used,
    #      described, shown, commented, altered, dropped; session flavours q / qs / qd ----
    T("q_use_schema", "USE", 'use schema "lower_s"', fx=[("use_schema", '"lower_s"')], session="q"),
    T("q_use_schema_fq", "USE", 'use schema ~db1."lower_s"', fx=[("use_schema", 'db1."lower_s"')], session="q"),
    T("q_use_database", "USE", 'use database "MixedDb"', fx=[("use_database", '"MixedDb"')], session="q"),
    T("q_use_schema_db", "USE", 'use schema "MixedDb"."sX"', fx=[("use_schema", '"MixedDb"."sX"')], session="q"),
    T("q_create_schema", "CREATE SCHEMA", 'create schema "Low2"', status=(CREATED, "Schema", '"Low2"'),
      fx=[("schema", '"Low2"')], session="q"),
    T("q_create_database", "CREATE DATABASE", 'create database "Db_q"', status=(CREATED, "Database", '"Db_q"'),
      fx=[("database", '"Db_q"')], ctx=False, session="q"),
    T("q_create_table", "CREATE TABLE", 'create table "lower_s"."nT" ("x" int, ~y varchar(3), "Zz" date)',
      status=(CREATED, "Table", '"nT"'), fx=[("table", '"lower_s"."nT"', ['"x"', "y", '"Zz"'])], session="q"),
    T("q_create_view", "CREATE VIEW", 'create view "lower_s"."v2" as select "Dd" as "dD", "cc" as ~e from "lower_s"."mt"',
      status=(CREATED, "View", '"v2"'), fx=[("view", '"lower_s"."v2"', ['"dD"', "e"])], session="q"),
    T("q_ctas", "CREATE TABLE", 'create table "MixedDb"."sX"."cT" as select "cc", "Dd" as "d2" from ~db1."lower_s"."mt"',
      status=(CREATED, "Table", '"cT"'), fx=[("table", '"MixedDb"."sX"."cT"', ['"cc"', '"d2"'])], session="q"),
    T("q_alter_add", "ALTER", 'alter table "lower_s"."mt" add column "eE" int',
      fx=[("addcol", '"lower_s"."mt"', '"eE"')], session="q"),
    T("q_alter_rename_col", "ALTER", 'alter table "lower_s"."mt" rename column "cc" to "Cc2"',
      fx=[("renamecol", '"lower_s"."mt"', '"cc"', '"Cc2"')], session="q"),
    T("q_alter_rename", "ALTER", 'alter table "lower_s"."mt" rename to "lower_s"."Mt2"',
      fx=[("rename", '"lower_s"."mt"', '"lower_s"."Mt2"')], session="q"),
    T("q_comment", "COMMENT", "comment on table \"lower_s\".\"mt\" is 'cM'", session="q"),
    T("q_drop_view", "DROP", 'drop view "lower_s"."vV"', status=(DROPPED, None, '"vV"'),
      fx=[("drop", '"lower_s"."vV"')], session="q"),
    T("q_drop_table", "DROP", 'drop table "MixedDb"."sX"."tQ"', status=(DROPPED, None, '"tQ"'),
      fx=[("drop", '"MixedDb"."sX"."tQ"')], session="q"),
    T("q_drop_schema", "DROP", 'drop schema "lower_s"', status=(DROPPED, None, '"lower_s"'),
      fx=[("dropschema", '"lower_s"')], session="q"),
    T("q_insert", "INSERT", 'insert into "lower_s"."mt" ("cc", "Dd") values (2, \'eE\')', session="q"),
    T("q_select", "SELECT", 'select "cc", "Dd", ~m."cc" as ~c3 from "lower_s"."mt" as ~m', ['"cc"', '"Dd"', "c3"], session="q"),
    T("q_select_view", "SELECT", 'select * from ~db1."lower_s"."vV"', ['"cc"'], session="q"),
    T("q_describe", "DESCRIBE", 'describe table "lower_s"."mt"', has=("name", ['"cc"', '"Dd"']), session="q"),
    T("q_describe_view", "DESCRIBE", 'describe view ~db1."lower_s"."vV"', has=("name", ['"cc"']), session="q"),
    T("q_describe_db", "DESCRIBE", 'describe table "MixedDb"."sX"."tQ"', has=("name", ['"a"', "b"]), session="q"),
    T("q_show_tables", "SHOW", 'show tables in schema "lower_s"', has=("name", ['"mt"', "t5"]), session="q"),
    T("q_show_objects", "SHOW", 'show terse objects in schema ~db1."lower_s"', has=("name", ['"mt"', "t5", '"vV"']),
      session="q"),
    T("q_show_schemas", "SHOW", 'show schemas in database "MixedDb"', has=("name", ['"sX"']), session="q"),
    T("q_show_tables_db", "SHOW", 'show tables in database "MixedDb"', has=("name", ['"tQ"']), session="q"),
    # inside a schema with a quoted lower-case name: unqualified names resolve against it
    T("qs_describe", "DESCRIBE", "describe table ~t5", has=("name", ["id", '"mIx"']), session="qs"),
    T("qs_describe_q", "DESCRIBE", 'describe table "mt"', has=("name", ['"cc"', '"Dd"']), session="qs"),
    T("qs_select", "SELECT", 'select ~id, "mIx" from ~t5', ["id", '"mIx"'], session="qs"),
    T("qs_show_tables", "SHOW", "show tables in schema", has=("name", ['"mt"', "t5"]), session="qs"),
    T("qs_create_table", "CREATE TABLE", "create table ~t6 (~a varchar(3)) comment = 'cC'",
      status=(CREATED, "Table", "t6"), fx=[("table", "t6", ["a"])], session="qs"),
    T("qs_create_view", "CREATE VIEW", 'create view ~v5 as select ~id as "iD" from ~t5',
      status=(CREATED, "View", "v5"), fx=[("view", "v5", ['"iD"'])], session="qs"),
    T("qs_alter_add", "ALTER", "alter table ~t5 add column ~c2 varchar(2)", fx=[("addcol", "t5", "c2")], session="qs"),
    T("qs_comment", "COMMENT", "comment on table ~t5 is 'cM'", session="qs"),
    T("qs_insert", "INSERT", "insert into ~t5 values (2, 'b')", session="qs"),
    T("qs_drop_table", "DROP", "drop table ~t5", status=(DROPPED, None, "t5"), fx=[("drop", "t5")], session="qs"),
    T("qs_drop_current", "DROP", 'drop schema "lower_s"', status=(DROPPED, None, '"lower_s"'),
      fx=[("dropschema", '"lower_s"')], session="qs"),
    T("qs_use_back", "USE", "use schema ~s1", fx=[("use_schema", "s1")], session="qs"),
    # inside a database and schema with quoted mixed-case names
    T("qd_describe", "DESCRIBE", 'describe table "tQ"', has=("name", ['"a"', "b"]), session="qd"),
    T("qd_select", "SELECT", 'select "a", ~b from "tQ"', ['"a"', "b"], session="qd"),
    T("qd_show_schemas", "SHOW", "show schemas", has=("name", ['"sX"']), session="qd"),
    T("qd_show_tables_db", "SHOW", "show tables in database", has=("name", ['"tQ"']), session="qd"),
    T("qd_show_objects_schema", "SHOW", "show objects in schema", has=("name", ['"tQ"']), session="qd"),
    T("qd_create_table", "CREATE TABLE", "create table ~t7 (~id int)", status=(CREATED, "Table", "t7"),
      fx=[("table", "t7", ["id"])], session="qd"),
    T("qd_create_schema", "CREATE SCHEMA", "create schema ~sy", status=(CREATED, "Schema", "sy"),
      fx=[("schema", "sy")], session="qd"),
    T("qd_use_schema", "USE", "use schema ~information_schema", ctx=False, session="qd"),
    T("qd_drop_table", "DROP", 'drop table "tQ"', status=(DROPPED, None, '"tQ"'), fx=[("drop", '"tQ"')], session="qd"),
    # ---- statement families fakesnow answers from the statement TEXT (sqlglot parses them only as exp.Command, or
    #      fakesnow matches keywords / function names itself with .upper(), == or a regex) and the families it hands
    #      to DuckDB untouched: the keywords are the flip tokens here. TEXT_FAMILIES lists what must be present. ----
    # tags (transforms.tag: exp.Alter, exp.Command text, exp.Create kind)
    T("tag_table_set", "TAG", "alter table ~t set tag cost_center = 'sales'"),
    T("tag_table_unset", "TAG", "alter table ~t unset tag cost_center"),
    T("tag_column_modify_set", "TAG", "alter table ~t modify column ~k set tag cost_center = 'sales'"),
    T("tag_column_alter_unset", "TAG", "alter table ~t alter column ~k unset tag cost_center"),
    T("tag_schema_set", "TAG", "alter schema ~s1 set tag cost_center = 'sales'"),
    T("tag_view_set", "TAG", "alter view ~vw set tag cost_center = 'x'"),
    T("tag_database_set", "TAG", "alter database ~db1 set tag cost_center = 'x'"),
    T("tag_create", "TAG", "create tag cost_center comment = 'cC'"),
    T("tag_create_or_replace", "TAG", "create or replace tag cost_center"),
    T("tag_create_ine", "TAG", "create tag if not exists cost_center"),
    T("tag_drop", "TAG", "drop tag cost_center"),
    # users (transforms.create_user: Command keyword and text; show_users)
    T("user_create", "USER", "create user u1"),
    T("user_show", "SHOW", "show users"),
    T("user_alter", "COMMAND", "alter user u1 set password = 'pW'"),
    T("user_drop", "COMMAND", "drop user u1"),
    # roles, warehouses, session parameters, grants, stages, procedures: not implemented, handed on as written
    T("role_create", "COMMAND", "create role r1"),
    T("role_use", "COMMAND", "use role r1"),
    T("role_use_secondary", "COMMAND", "use secondary roles all"),
    T("role_drop", "COMMAND", "drop role r1"),
    T("warehouse_create", "COMMAND", "create warehouse w1"),
    T("warehouse_use", "COMMAND", "use warehouse w1"),
    T("warehouse_alter", "COMMAND", "alter warehouse w1 suspend"),
    T("session_set", "COMMAND", "alter session set timezone = 'UTC'"),
    T("session_set_tag", "COMMAND", "alter session set query_tag = 'qT'"),
    T("session_unset", "COMMAND", "alter session unset query_tag"),
    T("grant_table", "COMMAND", "grant select on table ~t to role r1"),
    T("grant_schema", "COMMAND", "grant usage on schema ~s1 to role r1"),
    T("revoke_table", "COMMAND", "revoke select on table ~t from role r1"),
    T("stage_create", "COMMAND", "create stage stage1"),
    T("stage_copy_into", "COMMAND", "copy into ~t from @stage1"),
    T("stage_put", "COMMAND", "put 'file:///tmp/xY' @stage1"),
    T("stage_list", "COMMAND", "list @stage1"),
    T("stage_remove", "COMMAND", "remove @stage1"),
    T("call", "COMMAND", "call my_proc(1)"),
    T("execute_immediate", "COMMAND", "execute immediate 'select 1'"),
    T("explain", "COMMAND", "explain select 1"),
    T("undrop", "COMMAND", "undrop table ~t"),
    T("comment_on_schema", "COMMAND", "comment on schema ~s1 is 'cM'"),
    T("alter_drop_cluster_key", "COMMAND", "alter table ~t drop cluster key"),
    T("alter_swap", "COMMAND", "alter table ~t swap with ~s"),
    T("sequence_create", "COMMAND_DDL", "create sequence seq1"),  # may leave objects the digest does not list:
    T("function_create", "COMMAND_DDL", "create function f1() returns int as '1'"),  # fresh instance per spelling
    # statements matched by the instance's nop_regexes (cursor.execute: re.match on the text)
    T("nop_call", "NOP", "call my_proc(1)", session="nop"),
    T("nop_grant", "NOP", "grant select on table ~t to role r1", session="nop"),
    T("nop_alter_session", "NOP", "alter session set query_tag = 'qT'", session="nop"),
    T("nop_copy_into", "NOP", "copy into ~t from @stage1", session="nop"),
    T("nop_unmatched", "NOP", "revoke select on table ~t from role r1", session="nop"),
    # more spellings of transactions, DESCRIBE, TRUNCATE, SHOW, SET, CREATE DATABASE / SCHEMA
    T("tx_start", "TRANSACTION", "start transaction"),
    T("tx_begin_work", "TRANSACTION", "begin work"),
    T("tx_begin_name", "TRANSACTION", "begin transaction name tx1"),
    T("tx_commit_work", "TRANSACTION", "commit work"),
    T("tx_rollback_work", "TRANSACTION", "rollback work"),
    T("desc_view", "DESCRIBE", "desc view ~vw", has=("name", ["k", "v"])),
    T("describe_bare", "DESCRIBE", "describe ~t"),
    T("desc_bare", "DESCRIBE", "desc ~t"),
    T("describe_is_view", "DESCRIBE", "describe view ~information_schema.~tables"),
    T("describe_schema", "DESCRIBE", "describe schema ~s1"),
    T("describe_database", "DESCRIBE", "describe database ~db1"),
    T("truncate_bare", "TRUNCATE", "truncate ~t"),
    T("truncate_if_exists", "TRUNCATE", "truncate table if exists ~t"),
    T("show_unique_keys", "SHOW", "show unique keys"),
    T("show_imported_keys", "SHOW", "show imported keys"),
    T("show_tables_like", "SHOW", "show tables like 'T%'"),
    T("show_columns", "SHOW", "show columns in table ~t"),
    T("show_terse_schemas", "SHOW", "show terse schemas"),
    T("show_databases", "SHOW", "show databases"),
    T("show_views", "SHOW", "show views"),
    T("show_warehouses", "SHOW", "show warehouses"),
    T("show_tables_account", "SHOW", "show tables in account"),
    T("show_objects_account", "SHOW", "show objects in account"),
    T("show_parameters", "SHOW", "show parameters"),
    T("show_variables", "SHOW", "show variables"),
    T("show_grants", "SHOW", "show grants"),
    T("show_roles", "SHOW", "show roles"),
    T("set_multi", "SET", "set (na, nb) = (1, 2)"),
    T("unset_multi", "UNSET", "unset (pv)"),
    T("create_database_ine", "CREATE DATABASE", "create database if not exists ~db3", fx=[("database", "db3")], ctx=False),
    T("create_or_replace_database", "CREATE DATABASE", "create or replace database ~db3",
      status=(CREATED, "Database", "db3"), fx=[("database", "db3")], ctx=False),
    T("create_or_replace_schema", "CREATE SCHEMA", "create or replace schema ~s3", status=(CREATED, "Schema", "s3"),
      fx=[("schema", "s3")]),
    T("create_table_like", "CREATE TABLE", "create table ~t9 like ~t", status=(CREATED, "Table", "t9"),
      fx=[("table", "t9", ["k", "v"])]),
    T("create_temporary", "CREATE TABLE", "create temporary table ~tmp1 (~a int)"),
    # functions fakesnow recognises by their name as written
    T("fn_identifier_create", "CREATE TABLE", "create table identifier('t8') (~a int)", status=(CREATED, "Table", "t8"),
      fx=[("table", "t8", ["a"])], via=("identifier()", ["t8"])),
    *[
        T(f"fn_current{suffix}", "FUNCTION", "select current_database(), current_schema()", session=sess)
        for suffix, sess in (("", "full"), ("@nodb", "nodb"), ("@noschema", "noschema"))
    ],
    *[
        T(f"fn_current_alias{suffix}", "FUNCTION", "select current_database() as ~d, current_schema() as ~x", ["d", "x"],
          session=sess)
        for suffix, sess in (("", "full"), ("@noschema", "noschema"))
    ],
    # ---- connect(database=, schema=): the two arguments behave like unquoted identifiers (no statement: the pair is
    #      re-spelled, then CONNECT_PROBE is executed) ----
    T("connect_args", "CONNECT", "db1 s1", ["k"], True),
    # ---- failing statements: error or success must not depend on the spelling either ----
    T("err_no_table", "ERROR", "select ~k from ~nope"),
    T("err_no_column", "ERROR", "select ~nocol from ~t"),
    T("err_exists", "ERROR", "create table ~t (~a int)"),
    T("err_drop_missing", "ERROR", "drop table ~nope"),
    T("err_conversion", "ERROR", "insert into ~t (~k) values ('notanint')"),
]
# the text families once more with two blanks and with a newline between their tokens: a text matcher may look for
# "SET TAG" with one blank. Each layout is a template of its own, so only letter case varies inside it.
LAYOUT_KINDS = {"TAG", "USER", "NOP", "COMMAND"}
TEMPLATES += [t.relaid(lay) for t in list(TEMPLATES) if t.kind in LAYOUT_KINDS for lay in ("2sp", "nl")]

# statement families answered from the statement text (see the TEMPLATES section of that name): family -> the
# keyword sequence some template of the family must contain (selftest/test_c02.py asserts presence and that each
# keyword is flipped on its own)
TEXT_FAMILIES = {
    "ALTER TABLE SET TAG": ("alter", "table", "set", "tag"),
    "ALTER TABLE UNSET TAG": ("alter", "table", "unset", "tag"),
    "ALTER TABLE MODIFY COLUMN SET TAG": ("alter", "table", "modify", "column", "set", "tag"),
    "ALTER TABLE ALTER COLUMN UNSET TAG": ("alter", "table", "alter", "column", "unset", "tag"),
    "ALTER SCHEMA SET TAG": ("alter", "schema", "set", "tag"),
    "ALTER VIEW SET TAG": ("alter", "view", "set", "tag"),
    "ALTER DATABASE SET TAG": ("alter", "database", "set", "tag"),
    "CREATE TAG": ("create", "tag"),
    "DROP TAG": ("drop", "tag"),
    "CREATE USER": ("create", "user"),
    "ALTER USER": ("alter", "user"),
    "DROP USER": ("drop", "user"),
    "SHOW USERS": ("show", "users"),
    "CREATE ROLE": ("create", "role"),
    "USE ROLE": ("use", "role"),
    "USE SECONDARY ROLES": ("use", "secondary", "roles"),
    "CREATE WAREHOUSE": ("create", "warehouse"),
    "USE WAREHOUSE": ("use", "warehouse"),
    "ALTER WAREHOUSE": ("alter", "warehouse"),
    "ALTER SESSION SET": ("alter", "session", "set"),
    "ALTER SESSION UNSET": ("alter", "session", "unset"),
    "GRANT": ("grant", "on", "to", "role"),
    "REVOKE": ("revoke", "on", "from", "role"),
    "CREATE STAGE": ("create", "stage"),
    "COPY INTO": ("copy", "into", "from"),
    "PUT": ("put",),
    "LIST": ("list",),
    "REMOVE": ("remove",),
    "CALL": ("call",),
    "EXECUTE IMMEDIATE": ("execute", "immediate"),
    "EXPLAIN": ("explain", "select"),
    "UNDROP": ("undrop", "table"),
    "CREATE SEQUENCE": ("create", "sequence"),
    "CREATE FUNCTION": ("create", "function", "returns", "as"),
    "USE DATABASE": ("use", "database"),
    "USE SCHEMA": ("use", "schema"),
    "SET": ("set",),
    "UNSET": ("unset",),
    "BEGIN": ("begin",),
    "BEGIN TRANSACTION": ("begin", "transaction"),
    "BEGIN WORK": ("begin", "work"),
    "START TRANSACTION": ("start", "transaction"),
    "COMMIT": ("commit",),
    "COMMIT WORK": ("commit", "work"),
    "ROLLBACK": ("rollback",),
    "ROLLBACK WORK": ("rollback", "work"),
    "DESCRIBE TABLE": ("describe", "table"),
    "DESCRIBE VIEW": ("describe", "view"),
    "DESC TABLE": ("desc", "table"),
    "DESC VIEW": ("desc", "view"),
    "DESCRIBE <name>": ("describe",),
    "DESC <name>": ("desc",),
    "TRUNCATE TABLE": ("truncate", "table"),
    "TRUNCATE <name>": ("truncate",),
    "TRUNCATE TABLE IF EXISTS": ("truncate", "table", "if", "exists"),
    "SHOW TABLES": ("show", "tables"),
    "SHOW TERSE": ("show", "terse"),
    "SHOW OBJECTS": ("show", "objects"),
    "SHOW SCHEMAS": ("show", "schemas"),
    "SHOW PRIMARY KEYS": ("show", "primary", "keys"),
    "SHOW UNIQUE KEYS": ("show", "unique", "keys"),
    "SHOW IMPORTED KEYS": ("show", "imported", "keys"),
    "SHOW TABLES LIKE": ("show", "tables", "like"),
    "SHOW COLUMNS": ("show", "columns", "in", "table"),
    "SHOW DATABASES": ("show", "databases"),
    "SHOW VIEWS": ("show", "views"),
    "SHOW WAREHOUSES": ("show", "warehouses"),
    "SHOW ... IN ACCOUNT": ("show", "in", "account"),
    "SHOW PARAMETERS": ("show", "parameters"),
    "SHOW VARIABLES": ("show", "variables"),
    "SHOW GRANTS": ("show", "grants"),
    "SHOW ROLES": ("show", "roles"),
    "CREATE DATABASE": ("create", "database"),
    "CREATE DATABASE IF NOT EXISTS": ("create", "database", "if", "not", "exists"),
    "CREATE OR REPLACE DATABASE": ("create", "or", "replace", "database"),
    "CREATE TABLE CLONE": ("create", "table", "clone"),
    "ALTER TABLE CLUSTER BY": ("alter", "table", "cluster", "by"),
    "COMMENT ON": ("comment", "on", "is"),
    "IDENTIFIER()": ("identifier",),
    "CURRENT_DATABASE()": ("current_database",),
    "CURRENT_SCHEMA()": ("current_schema",),
    "MERGE ... THEN DELETE": ("merge", "then", "delete"),
}

CONNECT_PROBE = "select k from t order by k"
TPL = {t.id: t for t in TEMPLATES}
assert len(TPL) == len(TEMPLATES)

FACETS = ("status", "names", "rows", "rowcount", "context", "state", "post")
FORM_NAME = {"u": "upper", "c": "capitalised", "a": "alternating"}
SYSTEM_IGNORED = {"_fs_global", "main", "memory", "system", "temp", "pg_catalog"}


# ---- executing one spelling ------------------------------------------------------------------------------------------
def _norm_rows(rows, ordered):
    keys = tuple(rows[0].keys()) if rows else None
    vals = [tuple(repr(v) for v in r.values()) for r in rows]
    if not ordered:
        vals.sort()
    return keys, tuple(vals)


def _exec(cur, sql, ordered):
    """-> dict(status, names, rows, rowcount) of one statement on a DictCursor."""
    from mc.util import exc_info

    try:
        cur.execute(sql)
    except Exception as e:  # noqa: BLE001
        ei = exc_info(e)
        return {"status": ("err",) + ei[1:4], "names": None, "rows": None, "rowcount": None, "msg": ei[4]}
    try:
        rows = cur.fetchall()
        keys, vals = _norm_rows(rows, ordered)
    except Exception as e:  # noqa: BLE001
        keys, vals = None, ("fetch-raise", type(e).__name__)
    try:
        desc = tuple(c.name for c in cur.description)
    except Exception as e:  # noqa: BLE001
        desc = ("raise", type(e).__name__)
    return {"status": ("ok", cur.sqlstate), "names": (keys, desc), "rows": vals, "rowcount": cur.rowcount}


def _context(conn):
    d = observe.engine_conn(conn)
    try:
        eng = d.execute("select current_database(), current_schema()").fetchall()[0]
    except Exception as e:  # noqa: BLE001
        eng = ("<err>", type(e).__name__)
    return (conn.database, conn.schema, eng)


def _state(fs):
    from mc import observe

    return tuple(sorted(observe.catalog(fs, views=True, data=True).items()))


def model_after(tpl: T | None, succeeded: bool = True, session: str | None = None):
    """names model after the prelude, the session flavour's own steps and (if it succeeded) the template's statement"""
    cat = R.Catalog(DB, SCHEMA)
    steps = PRELUDE + SESSIONS[session or (tpl.session if tpl is not None else "full")][1]
    for _sql, fx in steps:
        for f in fx:
            cat.apply(f)
    if tpl is not None and succeeded:
        for f in tpl.fx:
            cat.apply(f)
    return cat


# kinds whose statements leave the database, the session context and the variables as they are: their spellings may
# share one instance, as long as the ground truth proves after every execution that nothing changed (DESIGN 2.2 (i))
SHARED_KINDS = {"SELECT", "SHOW", "DESCRIBE", "IS_QUERY", "FUNCTION", "ERROR", "TAG", "COMMAND", "NOP"}
PK_ROWS = 'select * from "DB1"."S1"."PK" order by all'
PK_CLEAN = 'delete from "DB1"."S1"."PK" where "ID" = 99'


class Session:
    """A fresh in-memory instance with one connection, after the PRELUDE."""

    def __init__(self, probe_base: bool, database: str = DB, schema: str = SCHEMA, flavour: str = "full"):
        import fakesnow.instance as inst
        from snowflake.connector.cursor import DictCursor

        self.fs = inst.FakeSnow(nop_regexes=list(NOP_REGEXES)) if flavour == "nop" else inst.FakeSnow()
        self.conn = self.fs.connect(database=database, schema=schema)
        cur = self.conn.cursor(DictCursor)
        for p, _fx in PRELUDE:
            cur.execute(p)
        second, steps = SESSIONS[flavour]
        if second:
            self.conn = self.fs.connect()  # no arguments: no current database, no current schema
            cur = self.conn.cursor(DictCursor)
        for p, _fx in steps:
            cur.execute(p)
        self.base = None
        if probe_base:
            # what the pristine instance looks like: used to prove that a shared instance is still pristine
            st, cx = _state(self.fs), _context(self.conn)
            post = self.postlude()
            self.base = (st, cx, post)
            if not self.clean() or _state(self.fs) != st:
                raise core.HarnessError("postlude could not be undone on a pristine instance")

    def raw(self):
        from mc import observe

        return observe.raw(self.fs)

    def pk_rows(self):
        try:
            return tuple(map(repr, self.raw().execute(PK_ROWS).fetchall()))
        except Exception as e:  # noqa: BLE001
            return ("<err>", type(e).__name__)

    def postlude(self):
        from snowflake.connector.cursor import DictCursor

        post = []
        pc = self.conn.cursor(DictCursor)
        for p in POSTLUDE:
            r = _exec(pc, p, False)
            post.append((r["status"], r["rows"]))
        return (tuple(post), self.pk_rows(), _context(self.conn))

    def clean(self) -> bool:
        """remove the postlude's probe row (harness side, raw DuckDB); False if that is not possible"""
        try:
            self.raw().execute(PK_CLEAN)
            return True
        except Exception:  # noqa: BLE001
            return False

    def run(self, tpl: T, sql: str, sweep: bool):
        from snowflake.connector.cursor import DictCursor

        cur = self.conn.cursor(DictCursor)
        o = _exec(cur, sql, tpl.ordered)
        o["context"] = _context(self.conn)
        o["state"] = _state(self.fs)
        o["post"] = self.postlude()
        findings = sweep_reports(self.conn, tpl, o["status"][0] == "ok") if sweep else None
        return o, findings

    def still_pristine(self, o) -> bool:
        return (
            self.base is not None
            and (o["state"], o["context"], o["post"]) == self.base
            and self.clean()
            and _state(self.fs) == self.base[0]
        )

    def close(self):
        import contextlib

        with contextlib.suppress(Exception):
            self.fs.duck_conn.close()


def execute(tid: str, sql: str, sweep: bool = False, sess: Session | None = None):
    """PRELUDE on a fresh instance (or a shared instance proved pristine), the statement, POSTLUDE [, reporting sweep]
    -> (outcome by facet, sweep findings, the session if it may be used again else None)."""
    tpl = TPL[tid]
    shared = tpl.kind in SHARED_KINDS
    if tpl.kind == "CONNECT":
        # the "statement" is the pair of connect() arguments; what is executed afterwards is fixed
        database, schema = sql.split()
        try:
            sess, sql = Session(False, database, schema), CONNECT_PROBE
        except Exception as e:  # noqa: BLE001  (connect or the prelude failed for this spelling: that is the outcome)
            from mc.util import exc_info

            ei = exc_info(e)
            o = dict.fromkeys(FACETS)
            o.update(status=("err",) + ei[1:4], msg=ei[4])
            return o, None, None
    if sess is None:
        sess = Session(probe_base=shared, flavour=tpl.session)
    keep = False
    try:
        o, findings = sess.run(tpl, sql, sweep)
        keep = shared and not sweep and sess.still_pristine(o)
    finally:
        if not keep:
            sess.close()
    return o, findings, (sess if keep else None)


def diff_facets(ref, o):
    return tuple(f for f in FACETS if ref[f] != o[f])


def _short(v, n=300):
    s = repr(v)
    return s if len(s) <= n else s[:n] + f"...(+{len(s) - n})"


def _first_diff(a, b):
    """smallest differing part of two nested tuples, for the detail record"""
    if isinstance(a, tuple) and isinstance(b, tuple) and len(a) == len(b):
        for x, y in zip(a, b):
            if x != y:
                return _first_diff(x, y)
    return (_short(a), _short(b))


# ---- clause 2: absolute expectations ---------------------------------------------------------------------------------
def own_result_findings(tpl: T, o):
    """description / DictCursor keys / status text of the template's own result against the stated expectation.
    -> [(surface, cls, failed, detail)]"""
    out = []
    if o["status"][0] != "ok":
        return out
    keys, desc = o["names"]
    if tpl.cols is not None:
        exp = tuple(R.fold(c) for c in tpl.cols)
        for surface, got in (("description", desc), ("dictkeys", keys)):
            if got is None and surface == "dictkeys":
                continue  # no row, no keys
            ok = got == exp
            kind = "case" if (not ok and _same_ci(got, exp)) else "other"
            if ok or kind == "case":
                out.append((surface, f"kind=case,stmt={tpl.kind}", not ok, {"expected": exp, "reported": got}))
            # kind == other: a different set of columns is not a case matter -> not demanded here
    if tpl.has is not None:
        # the statement's own listing must show these names exactly as the identifier rules say
        col, spelled_names = tpl.has
        keys = o["names"][0] or o["names"][1]  # no row -> no DictCursor keys: the description names the columns
        if isinstance(o["rows"], tuple) and col in keys:
            i = keys.index(col)
            listed = [ast.literal_eval(r[i]) for r in o["rows"]]
            for sp in spelled_names:
                e = R.fold(sp)
                q = "quoted" if R.is_quoted(sp) else "unquoted"
                if e in listed:
                    out.append(("result", f"kind=case,name={q},stmt={tpl.kind},session={tpl.session}", False, None))
                elif any(isinstance(x, str) and x.upper() == e.upper() for x in listed):
                    out.append(("result", f"kind=case,name={q},stmt={tpl.kind},session={tpl.session}", True,
                                {"expected": e, "reported": listed, "column": col}))
                else:
                    # the template says the object exists (the prelude made it) and the statement succeeded
                    out.append(("result", f"kind=missing,name={q},stmt={tpl.kind},session={tpl.session}", True,
                                {"expected": e, "reported": listed, "column": col}))
    if tpl.ctx and o.get("context"):
        cat = _model_cached(tpl.id)
        for what, got, exp in (("database", o["context"][0], cat.cur_db), ("schema", o["context"][1], cat.cur_schema)):
            if exp in (R.UNKNOWN, None) or got is None:
                continue  # "no current schema" is not a case matter
            qn = "quoted" if exp in cat.verbatim else "unquoted"
            if got == exp or got.upper() == exp.upper():
                out.append(("conn", f"kind=case,name={qn},attr={what},session={tpl.session}", got != exp,
                            {"expected": exp, "reported": got}))
    if tpl.status is not None:
        fmt, kind_word, spelled = tpl.status
        exp = fmt.format(kind=kind_word, name=R.fold(spelled))
        got = None
        if o["rows"] and len(o["rows"]) == 1 and len(o["rows"][0]) == 1:
            v = ast.literal_eval(o["rows"][0][0])  # rows hold the repr of each value
            got = v if isinstance(v, str) else None
        if got is not None:
            ok = got == exp
            if ok or got.upper() == exp.upper():
                q = "quoted" if R.is_quoted(spelled) else "unquoted"
                out.append(("status", f"kind=case,name={q},stmt={tpl.kind}", not ok, {"expected": exp, "reported": got}))
    return out


_MODELS: dict = {}


def _model_cached(tid):
    if tid not in _MODELS:
        _MODELS[tid] = model_after(TPL[tid])
    return _MODELS[tid]


def _same_ci(a, b):
    return (
        isinstance(a, tuple)
        and isinstance(b, tuple)
        and len(a) == len(b)
        and all(isinstance(x, str) and isinstance(y, str) and x.upper() == y.upper() for x, y in zip(a, b))
    )


def _q(cur, sql):
    try:
        cur.execute(sql)
        return cur.fetchall(), [c.name for c in cur.description]
    except Exception as e:  # noqa: BLE001
        return None, f"{type(e).__name__}: {str(e)[:120]}"


def sweep_reports(conn, tpl: T, succeeded: bool = True):
    """Read every reporting surface and judge each *name* on it. -> [(surface, cls, failed, detail)] plus
    ('absent', surface, name) records for expected names that are not reported at all (not a verdict)."""
    from snowflake.connector.cursor import DictCursor

    cat = model_after(tpl, succeeded)
    verb = cat.verbatim
    cur = conn.cursor(DictCursor)
    out = []

    via_names = {R.fold(x) for x in tpl.via[1]} if tpl.via else set()

    def judge(surface, reported_names, expected_names, what="name"):
        """every expected name must be reported exactly; every reported name must not be a wrong-case variant"""
        rep = list(reported_names)
        for e in sorted(expected_names):
            qn = "quoted" if e in verb else "unquoted"
            if e in via_names:
                qn += f",via={tpl.via[0]}"
            if e in rep:
                out.append((surface, f"kind=case,name={qn}", False, None))
            elif any(r.upper() == e.upper() for r in rep):
                got = [r for r in rep if r.upper() == e.upper()]
                out.append((surface, f"kind=case,name={qn}", True, {"expected": e, "reported": got, "what": what}))
            else:
                out.append(("absent", surface, e, None))
        for r in sorted(set(rep)):
            if R.judge_name(r, expected_names, verb) == "lower":
                if r.lower() in SYSTEM_IGNORED or r.startswith("_fs_"):
                    continue
                who = "information_schema" if r == "information_schema" else "other"
                out.append((surface, f"kind=lower,name={who}", True,
                            {"reported": r, "what": what, "note": "a lower-case name that nobody wrote in quotes"}))

    objs = cat.objects()
    for d in cat.databases():
        dq = R.ident_sql(d)
        mine = [o for o in objs if o[0] == d]
        # information_schema.tables / columns / views of this database
        rows, err = _q(cur, f"select table_catalog, table_schema, table_name from {dq}.information_schema.tables")
        if rows is not None:
            rows = [tuple(r.values()) for r in rows]  # by position: the keys' own case is a finding of its own
            here = [r for r in rows if r[0].upper() == d.upper()]
            judge("is.tables", {r[0] for r in here}, {d}, "table_catalog")
            judge("is.tables", {r[1] for r in here}, {o[1] for o in mine}, "table_schema")
            for s in sorted({o[1] for o in mine}):
                judge("is.tables", [r[2] for r in here if r[1].upper() == s.upper()],
                      {o[2] for o in mine if o[1] == s}, f"table_name in {s}")
        rows, err = _q(
            cur, f"select table_catalog, table_schema, table_name, column_name from {dq}.information_schema.columns"
        )
        if rows is not None:
            rows = [r for r in (tuple(x.values()) for x in rows) if r[0].upper() == d.upper()]
            judge("is.columns", {r[1] for r in rows}, {o[1] for o in mine}, "table_schema")
            for o in mine:
                cols = [r[3] for r in rows if (r[1].upper(), r[2].upper()) == (o[1].upper(), o[2].upper())]
                judge("is.columns", {r[2] for r in rows if r[1].upper() == o[1].upper() and r[2].upper() == o[2].upper()},
                      {o[2]}, "table_name")
                judge("is.columns", cols, set(o[4]), f"column_name of {o[2]}")
        rows, err = _q(cur, f"select table_catalog, table_schema, table_name from {dq}.information_schema.views")
        if rows is not None:
            rows = [tuple(r.values()) for r in rows]
            for s in sorted({o[1] for o in mine if o[3] == "view"}):
                judge("is.views", [r[2] for r in rows if r[1].upper() == s.upper()],
                      {o[2] for o in mine if o[1] == s and o[3] == "view"}, f"table_name in {s}")
            judge("is.views", {r[1] for r in rows}, {o[1] for o in mine if o[3] == "view"}, "table_schema")
        rows, err = _q(cur, f"select database_name from {dq}.information_schema.databases")
        if rows is not None:
            judge("is.databases", [tuple(r.values())[0] for r in rows], set(cat.databases()), "database_name")
        # SHOW
        rows, err = _q(cur, f"show schemas in database {dq}")
        if rows is not None:
            judge("show.schemas", [r["name"] for r in rows], {s for dd, s in cat.schemas() if dd == d}, "name")
            judge("show.schemas", {r["database_name"] for r in rows}, {d}, "database_name")
        for surface, stmt, kinds in (("show.objects", "objects", ("table", "view")), ("show.tables", "tables", ("table",))):
            rows, err = _q(cur, f"show {stmt} in database {dq}")
            if rows is not None:
                exp_objs = [o for o in mine if o[3] in kinds]
                judge(surface, {r["database_name"] for r in rows}, {d} if rows else set(), "database_name")
                judge(surface, {r["schema_name"] for r in rows}, {o[1] for o in exp_objs}, "schema_name")
                for s in sorted({o[1] for o in exp_objs}):
                    judge(surface, [r["name"] for r in rows if r["schema_name"].upper() == s.upper()],
                          {o[2] for o in exp_objs if o[1] == s}, f"name in {s}")
        # DESCRIBE + SELECT * per object
        for _d, s, n, kind, cols in mine:
            fq = f"{dq}.{R.ident_sql(s)}.{R.ident_sql(n)}"
            rows, err = _q(cur, f"describe {'view' if kind == 'view' else 'table'} {fq}")
            if rows is not None:
                judge("describe", [r["name"] for r in rows], set(cols), f"name of {n}")
            rows, names = _q(cur, f"select * from {fq}")
            if rows is not None:
                judge("select", names, set(cols), f"description of {n}")
                if rows:
                    judge("select", list(rows[0].keys()), set(cols), f"DictCursor keys of {n}")
    # SHOW PRIMARY KEYS (the prelude's pk table), only where the statement has a database to look at
    if conn.database is not None and cat.cur_db not in (None, R.UNKNOWN):
        rows, err = _q(cur, "show primary keys")
        if rows is not None:
            exp = [o for o in objs if o[0] == cat.cur_db and o[2] == "PK"]
            if exp:
                judge("show.pk", {r["database_name"] for r in rows}, {exp[0][0]}, "database_name")
                judge("show.pk", {r["schema_name"] for r in rows}, {exp[0][1]}, "schema_name")
                judge("show.pk", {r["table_name"] for r in rows}, {"PK"}, "table_name")
                judge("show.pk", {r["column_name"] for r in rows}, {"ID"}, "column_name")
    return out


# ---- work items --------------------------------------------------------------------------------------------------------
CHUNK = {True: 40, False: 20}  # spellings per work item (shared instance / fresh instance per spelling)
CANONICAL = ("all:l", "all:u", "all:c", "all:a")


# read-only templates after which the reporting surfaces are swept in the quick tier: one per session flavour (they all
# leave the flavour's own state behind, so more would repeat the same sweep; thorough sweeps after every template)
QUICK_SHARED_SWEEPS = {"sel_alias", "cte_fq@nodb", "cte_fq@noschema", "q_select", "qs_select", "qd_select", "nop_call"}


def sweep_labels(tpl: T, tier: str):
    """spellings after which the reporting surfaces are swept. Statements that change the names model: ALL-UPPER
    (quick), all four whole-statement forms (thorough) — the names they store come from the re-spelled text.
    Read-only statements: ALL-UPPER; in quick only for QUICK_SHARED_SWEEPS."""
    if tpl.kind in SHARED_KINDS:
        return ("all:u",) if tier != "quick" or tpl.id in QUICK_SHARED_SWEEPS else ()
    if tier == "quick":
        # a statement without effect on the names model (DML, SET, COMMENT, transactions) leaves the flavour's names
        # as they are: quick sweeps those once per flavour (above), thorough after every template
        return ("all:u",) if tpl.fx else ()
    return CANONICAL


def in_tier(tpl: T, tier: str) -> bool:
    """quick leaves out the state-changing statements of the no-current-database flavour: the same statements run in
    the no-current-schema flavour, and fresh instances are what the quick tier's time goes into"""
    if tier != "quick":
        return True
    if tpl.layout != "1" and tpl.kind == "COMMAND":
        return False  # quick re-lays out the families fakesnow answers itself (TAG, USER, NOP); thorough all of them
    return not (tpl.session == "nodb" and tpl.kind in QUICK_NODB_SKIPPED_KINDS)


QUICK_NODB_SKIPPED_KINDS = {"INSERT", "UPDATE", "DELETE", "CREATE TABLE", "CREATE VIEW", "CREATE SCHEMA", "DROP"}


def plan(tier):
    """-> (items, catalogue) ; item = (tid, [(text, do_sweep)]) ; catalogue[tid] = dict(case=[(label, forms, text)],
    quote=[(label, form, qs, text)], ref=text)"""
    items, cata = [], {}
    for tpl in TEMPLATES:
        if not in_tier(tpl, tier):
            continue
        toks = R.lex(tpl.sql)
        case = [(lab, forms, R.render(toks, forms)) for lab, forms in R.spellings(toks, tier)]
        quote = [(lab, form, qs, R.render(toks, form, qs)) for lab, form, qs in R.quotings(toks, tier)]
        ref = case[0][2]
        cata[tpl.id] = {"case": case, "quote": quote, "ref": ref, "toks": toks}
        texts, seen = [], set()
        for lab, _f, text in case:
            if text not in seen:
                seen.add(text)
                texts.append((text, lab in sweep_labels(tpl, tier)))
        for _lab, _form, _qs, text in quote:
            if text not in seen:
                seen.add(text)
                texts.append((text, False))
        n = CHUNK[tpl.kind in SHARED_KINDS]
        for i in range(0, len(texts), n):
            items.append((tpl.id, texts[i : i + n]))
    return items, cata


def work(item, acc: core.Acc, tier):
    """Execute a chunk of spellings of one template; the reference spelling is executed first in every chunk and each
    spelling is compared with it here. -> [(text, differing facets, detail, sweep findings, own-result findings)]"""
    tid, texts = item
    tpl = TPL[tid]
    ref_text = R.render(R.lex(tpl.sql), "l")
    ref, _, sess = execute(tid, ref_text)
    acc.count("evaluations")
    acc.count("reference_reruns")
    acc.count("instances")
    out = []
    try:
        for text, do_sweep in texts:
            if sess is None or tpl.kind == "CONNECT":
                acc.count("instances")  # fresh in-memory instances built (prelude executed)
            o, findings, sess = execute(tid, text, sweep=do_sweep, sess=sess)
            acc.count("evaluations")
            acc.count("spellings_executed")
            if do_sweep:
                acc.count("sweeps")
            df = diff_facets(ref, o)
            acc.obs((tid, text, core.h(tuple(o[f] for f in FACETS)), core.h(findings)))
            acc.outcome((tid, core.h(tuple(o[f] for f in FACETS))))
            detail = None
            if df:
                f0 = df[0]
                a, b = _first_diff(ref[f0], o[f0])
                detail = {"facets": list(df), "reference": a, "observed": b}
                if o["status"][0] == "err":
                    detail["message"] = o.get("msg")
                if ref["status"][0] == "err":
                    detail["reference_message"] = ref.get("msg")
            own = own_result_findings(tpl, o)
            fh = tuple(core.h(o[f]) for f in FACETS)  # lets the parent compare any two spellings
            out.append((text, df, detail, findings, own, o["status"], fh))
    finally:
        if sess is not None:
            sess.close()
    return out


# ---- classification in the parent ------------------------------------------------------------------------------------
def _form_of(tok_text, form):
    s = R.spell(tok_text, form)
    if s == tok_text.lower():
        return None
    if s == tok_text.upper():
        return "upper"
    return FORM_NAME[form]


def classify(ctx, tpl, cata, results):
    """results: {text: (df, detail, ...)} for one template."""
    acc = ctx.acc
    toks = cata["toks"]
    idx = R.foldable(toks)
    ref_text = cata["ref"]
    # -- case re-spellings
    sens = {}
    for k, i in enumerate(idx):
        for f in ("u", "c", "a"):
            text = R.render(toks, {i: f})
            fn = _form_of(toks[i].text, f)
            if fn is not None and text in results:
                sens[(i, fn)] = bool(results[text][0])
    groups = {}  # prefix -> [(text, label, df, detail)]
    done = set()
    for label, forms, text in cata["case"]:
        if text in done or text == ref_text:
            continue
        done.add(text)
        df, detail = results[text][0], results[text][1]
        flipped = [(i, _form_of(toks[i].text, forms[i])) for i in idx if i in forms]
        flipped = [(i, fn) for i, fn in flipped if fn]
        culprit = next(((i, fn) for i, fn in flipped if sens.get((i, fn))), None)
        if culprit:
            prefix = f"stmt={tpl.kind},tok={toks[culprit[0]].text.lower()},form={culprit[1]}"
        elif df:
            prefix = f"stmt={tpl.kind},tok=<combination>"
        else:
            acc.count("spellings_agreeing")
            continue
        groups.setdefault(prefix, []).append((text, label, df, detail))
    _emit(acc, "C02.respell", tpl, groups, ref_text)
    # -- quoted re-spellings
    nm = R.names(toks)
    qs_sens = {}
    for i in nm:
        text = R.render(toks, "l", (i,))
        if text in results:
            qs_sens[i] = bool(results[text][0])
    groups = {}
    groups_ref = {}
    done = set()
    for label, form, qs, text in cata["quote"]:
        if text in done:
            continue
        done.add(text)
        df, detail = results[text][0], results[text][1]
        if form != "l":
            # the rest of the statement is in another case: the partner is the same statement without the quotes
            # (whose own agreement with the all-lower spelling is clause C02.respell's business)
            partner = R.render(toks, form)
            df = tuple(f for f, x, y in zip(FACETS, results[partner][3], results[text][3]) if x != y)
            detail = {"facets": list(df), "partner_sql": partner} if df else None
            if df:
                groups_ref[text] = partner
        culprit = next((i for i in qs if qs_sens.get(i)), None)
        if culprit is not None:
            prefix = f"stmt={tpl.kind},name={toks[culprit].text.lower()}"
        elif df:
            prefix = f"stmt={tpl.kind},name=<combination>"
        else:
            acc.count("quotings_agreeing")
            continue
        groups.setdefault(prefix, []).append((text, label, df, detail))
    _emit(acc, "C02.quoted", tpl, groups, ref_text, groups_ref)


def _emit(acc, clause_root, tpl, groups, ref_text, ref_of=None):
    for prefix in sorted(groups):
        members = groups[prefix]
        facets = sorted({m[2][0] for m in members if m[2]}, key=FACETS.index)
        for text, label, df, detail in members:
            if df:
                rt = (ref_of or {}).get(text, ref_text)
                acc.violation(
                    f"{clause_root}.{df[0]}",
                    prefix,
                    dict(detail, template=tpl.id, spelling=label, sql=text, reference_sql=rt),
                    {"template": tpl.id, "sql": text, "reference_sql": rt},
                )
        for f in facets:
            for _text, _label, df, _detail in members:
                acc.member(f"{clause_root}.{f}", prefix, bool(df) and df[0] == f)


# ---- clause 4: quoted identifiers are reported as written, whatever the session executed before -----------------------
class VT:
    """A verbatim template (mc.ref.sf_ident section 4): a query whose quoted identifiers "<word>" are slots for the
    letter case. cols: the result columns as the statement spells them (slots as in sql)."""

    def __init__(self, tid, sql, cols, params=None):
        self.id, self.sql, self.cols, self.params = tid, sql, list(cols), params
        self.slots = R.vslots(sql)


# Only names the statement DEFINES ITSELF (column aliases) are slots: a quoted reference to an existing object in
# another case is "are "t" and T distinct objects", which is not demanded. All are queries: they leave the instance
# as it is, so the histories of one work item share one instance (each history on connections of its own).
VERBATIM_TEMPLATES = [
    VT("v_alias", 'select k as "<key>", v as "<val>" from t order by k', ['"<key>"', '"<val>"']),
    VT("v_aggregate", 'select count(*) as "<total>", sum(k) as "<total_k>" from t', ['"<total>"', '"<total_k>"']),
    VT("v_alias_no_as", 'select k "<key>", v unq from t order by 1', ['"<key>"', "unq"]),
    VT("v_constant", 'select 1 as "<one>"', ['"<one>"']),
    VT("v_cte", 'with c as (select k as "<ck>" from t) select "<ck>" from c order by 1', ['"<ck>"']),
    VT("v_subquery_star", 'select * from (select k as "<sk>", v as "<sv>" from t) order by 1', ['"<sk>"', '"<sv>"']),
    VT("v_union", 'select k as "<uk>" from t union all select k from s order by 1', ['"<uk>"']),
    VT("v_join", 'select a.k as "<left_k>", b.k as "<right_k>" from t a join s b on a.k = b.k order by 1',
       ['"<left_k>"', '"<right_k>"']),
    VT("v_values", 'select column1 as "<c_one>" from values (1), (2)', ['"<c_one>"']),
    VT("v_quoted_source", 'select "cA" as "<ca>", b as "<bee>" from "qT"', ['"<ca>"', '"<bee>"']),
    VT("v_bound", 'select %s as "<bound>", k from t order by k', ['"<bound>"', "k"], params=(5,)),
]
VTPL = {t.id: t for t in VERBATIM_TEMPLATES}
assert len(VTPL) == len(VERBATIM_TEMPLATES)

# where the statements of a history run: (relation of a statement's cursor to the previous statement's, cursor class
# per step: t = tuple cursor, d = DictCursor, cycled). same = one cursor for the whole history; other = a new cursor
# of the same connection for every statement; conn = a new connection to the same instance for every statement.
ARRANGEMENTS = {
    "same-tuple": ("same", "t"),
    "same-dict": ("same", "d"),
    "other-tuple-dict": ("other", "td"),
    "other-dict-tuple": ("other", "dt"),
    "conn-dict": ("conn", "d"),
    # thorough only
    "other-tuple-tuple": ("other", "t"),
    "other-dict-dict": ("other", "d"),
    "conn-tuple": ("conn", "t"),
}
QUICK_ARRANGEMENTS = ("same-tuple", "same-dict", "other-tuple-dict", "other-dict-tuple", "conn-dict")
# thorough: what else the session does between two statements of a history (on a cursor of its own of the first
# connection), and the case of everything else in the statements (keywords, unquoted names) per step, cycled
BETWEEN = {"none": None, "query": "select 1 as x", "set": "set pv = 7"}
VARIANTS_PLAIN = ("none", "l")
VARIANTS_MORE = (("query", "l"), ("set", "l"), ("none", "u"), ("none", "lu"))
VSURFACES = ("description", "dictkeys", "pandas", "describe")


def _vsql(vt: VT, forms, rest: str) -> str:
    sql = R.vrender(vt.sql, forms)
    if rest == "l":
        return sql
    # the pyformat placeholder %s is not SQL text: it is kept, the pieces around it are re-spelled
    return "%s".join(R.render(R.lex(piece), rest) for piece in sql.split("%s"))


def vplan(tier):
    """-> [(template id, arrangement, between, rest forms, [history])], history = tuple of slot-form assignments"""
    items = []
    for vt in VERBATIM_TEMPLATES:
        sp = R.vspellings(len(vt.slots), tier)
        hist = R.vhistories(sp, tier)
        whole_pairs = [h for h in hist if len(h) == 2 and all(len(set(s)) == 1 for s in h)]
        for arr in (QUICK_ARRANGEMENTS if tier == "quick" else tuple(ARRANGEMENTS)):
            items.append((vt.id, arr, *VARIANTS_PLAIN, hist))
            if tier != "quick":
                for between, rest in VARIANTS_MORE:
                    items.append((vt.id, arr, between, rest, whole_pairs))
    return items


def _names_of(fn):
    try:
        return tuple(str(x) for x in fn())
    except Exception as e:  # noqa: BLE001
        return ("<raise>", type(e).__name__)


def vstep(cur, is_dict: bool, sql: str, params):
    """one statement of a history -> {surface: names reported}; surfaces in the order a client reads them: description
    before fetching, the rows (DictCursor keys), fetch_pandas_all (does not consume), description again,
    cursor.describe() of the same text last (it executes on the cursor)."""
    obs = {}
    try:
        cur.execute(sql, params)
    except Exception as e:  # noqa: BLE001
        return {"execute": ("<raise>", type(e).__name__, str(e)[:120])}
    d1 = _names_of(lambda: [c.name for c in cur.description])
    try:
        rows = cur.fetchall()
    except Exception as e:  # noqa: BLE001
        rows = ("<raise>", type(e).__name__)
    if is_dict:
        obs["dictkeys"] = tuple(rows[0].keys()) if isinstance(rows, list) and rows else None
    obs["pandas"] = _names_of(lambda: cur.fetch_pandas_all().columns)
    d2 = _names_of(lambda: [c.name for c in cur.description])
    obs["description"] = d1 if d1 == d2 else ("<two reads differ>", d1, d2)
    obs["describe"] = _names_of(lambda: [c.name for c in cur.describe(sql, params)])
    return obs


def vhistory(fs, vt: VT, arr: str, between: str, rest: str, hist):
    """Execute one history on connections of its own. -> [(step index, sql, expected, {surface: reported})]"""
    from snowflake.connector.cursor import DictCursor

    rel, classes = ARRANGEMENTS[arr]
    conns = [fs.connect(database=DB, schema=SCHEMA)]
    cur = None
    out = []
    try:
        for n, forms in enumerate(hist):
            is_dict = classes[n % len(classes)] == "d"
            if n and BETWEEN[between]:
                conns[0].cursor().execute(BETWEEN[between])
            if rel == "conn" and n:
                conns.append(fs.connect(database=DB, schema=SCHEMA))
            if cur is None or rel != "same":
                cur = conns[-1].cursor(DictCursor) if is_dict else conns[-1].cursor()
            sql = _vsql(vt, forms, rest[n % len(rest)])
            out.append((n, sql, R.vreported(vt.cols, vt.sql, forms), vstep(cur, is_dict, sql, vt.params)))
    finally:
        for c in conns:
            c.close()
    return out


def vclass(vt: VT, arr: str, between: str, n: int, hist) -> str:
    cls = f"stmt={vt.id},cursor={ARRANGEMENTS[arr][0]},step={'first' if n == 0 else 'later'}"
    if n and hist[n] in hist[:n]:
        cls += ",spelling=seen-before"
    if n and between != "none":
        cls += f",between={between}"
    return cls


def vwork(item, acc: core.Acc, tier):
    """All histories of one (template, arrangement, variant) on one instance. -> [(clause surface, class, failed,
    detail, replay)] for every judged surface of every step."""
    import fakesnow.instance as inst

    tid, arr, between, rest, hists = item
    vt = VTPL[tid]
    fs = inst.FakeSnow()
    acc.count("instances")
    out = []
    try:
        conn = fs.connect(database=DB, schema=SCHEMA)
        cur = conn.cursor()
        for p, _fx in PRELUDE:
            cur.execute(p)
        for hist in hists:
            steps = vhistory(fs, vt, arr, between, rest, hist)
            acc.count("traces")
            acc.count("verbatim_histories")
            acc.nontrivial(("verbatim", tid, arr, between, rest, hist))
            for n, sql, exp, obs in steps:
                acc.count("evaluations")
                acc.count("verbatim_statements")
                acc.obs((tid, arr, between, rest, hist, n, sorted(obs.items())))
                acc.outcome(("verbatim", tid, core.h(sorted(obs.items()))))
                cls = vclass(vt, arr, between, n, hist)
                for surface in VSURFACES:
                    if surface not in obs:
                        continue
                    got = obs[surface]
                    if got is None:
                        continue
                    if got != exp and not _same_ci(got, exp):
                        # raised, or other columns altogether: not a matter of letter case, not demanded here
                        acc.count("verbatim_surfaces_not_judged")
                        acc.note(f"verbatim: {surface} of {tid} not judged: {_short(got, 120)}")
                        continue
                    acc.count("verbatim_surfaces_judged")
                    failed = got != exp
                    det = None
                    if failed:
                        det = {"template": tid, "arrangement": arr, "between": between, "rest": rest,
                               "history": [_vsql(vt, f, rest[i % len(rest)]) for i, f in enumerate(hist)],
                               "step": n, "sql": sql, "expected": exp, "reported": got}
                    rep = {"verbatim": True, "template": tid, "arrangement": arr, "between": between, "rest": rest,
                           "history": [list(f) for f in hist]}
                    out.append((surface, cls, failed, det, rep if failed else None))
                if "execute" in obs:
                    acc.count("verbatim_statements_failed")
                    acc.note(f"verbatim: statement of {tid} failed: {_short(obs['execute'], 160)}")
    finally:
        import contextlib

        with contextlib.suppress(Exception):
            fs.duck_conn.close()
    return out


def run_verbatim(ctx: core.Ctx):
    items = vplan(ctx.tier)
    vorder = {t.id: i for i, t in enumerate(VERBATIM_TEMPLATES)}
    aorder = {a: i for i, a in enumerate(ARRANGEMENTS)}
    res = ctx.pmap(vwork, items, chunk=1)
    res.sort(key=lambda r: (vorder[r[0][0]], aorder[r[0][1]], r[0][2], r[0][3]))
    for _item, out in res:
        for surface, cls, failed, det, rep in out:
            clause = f"C02.verbatim.{surface}"
            ctx.acc.member(clause, cls, failed)
            if failed:
                ctx.acc.violation(clause, cls, det, rep)
    ctx.extra["verbatim_templates"] = len(VERBATIM_TEMPLATES)
    ctx.extra["verbatim_arrangements"] = sorted({i[1] for i in items})
    ctx.extra["verbatim_work_items"] = len(items)
    ctx.extra["verbatim_histories_by_length"] = {
        str(n): sum(1 for i in items for h in i[4] if len(h) == n) for n in (2, 3)
    }


def run(ctx: core.Ctx):
    ctx.rule = (
        "every statement template x every case re-spelling of its foldable tokens (quick: 4 whole-statement forms + "
        "every single token in UPPER; thorough: + every single token Capitalised/alternating, all 2^t lower/UPPER "
        "assignments for t<=10, single+pair flips above) x every quoted/unquoted re-spelling of its marked names, "
        "each after the fixed prelude (fresh instance per spelling; read-only statement kinds share an instance that "
        "the raw-DuckDB digest proves pristine before each use) and followed by the fixed postlude; compared facet by "
        "facet with the all-lower spelling; reporting sweep over every name-carrying surface in whole-statement "
        "spellings. non-trivial = distinct executed spelling whose text differs from the reference spelling of its "
        "template (the reference itself is the trivial case). Plus C02.verbatim: every verbatim template x every "
        "ordered pair (thorough: + triples) of different letter-case spellings of its quoted aliases, executed in one "
        "session x every cursor arrangement; after every statement every reporting surface is compared with the "
        "spelling that statement writes (each history is a non-trivial case)"
    )
    ctx.assumptions = [
        "sqlglot's Snowflake tokenizer finds token boundaries and literal kinds correctly (selftest/test_c02.py "
        "pins the classification of every token kind used in the templates)",
        "raw-DuckDB digest (mc/observe.catalog with views and data) captures the post-state",
        "row order is compared only where the template has ORDER BY",
        "a statement of a read-only kind (SELECT, SHOW, DESCRIBE, information_schema query, function call, failing "
        "statement) run on an instance whose catalogue, data, session context and variable probes equal the "
        "pristine ones behaves as on a fresh instance; any execution after which they differ discards the instance",
    ]
    items, cata = plan(ctx.tier)
    by_tpl = {}
    absent = {}
    order = {t.id: i for i, t in enumerate(TEMPLATES)}

    def absorb(res):
        res.sort(key=lambda r: (order[r[0][0]], r[0][1][0][0]))  # canonical order, whatever the seed rotation was
        for (tid, _texts), out in res:
            for text, df, detail, findings, own, status, fh in out:
                by_tpl.setdefault(tid, {})[text] = (df, detail, status, fh)
                if text != cata[tid]["ref"]:
                    ctx.acc.nontrivial((tid, text))  # an actual comparison: a spelling that differs from the reference
                for surface, cls, failed, det in own:
                    _report(ctx.acc, surface, cls, failed, det, tid, text)
                for rec in findings or ():
                    if rec[0] == "absent":
                        absent[(rec[1], rec[2])] = absent.get((rec[1], rec[2]), 0) + 1
                        continue
                    surface, cls, failed, det = rec
                    _report(ctx.acc, surface, cls, failed, det, tid, text)

    absorb(ctx.pmap(work, items, chunk=1))
    # Attribution pass (quick has single flips in UPPER only): where a whole-statement Capitalised / aLtErNaTiNg
    # spelling disagrees, the tokens whose UPPER flip already disagrees are also flipped alone in that form, so that
    # the class names the token and the form exactly as the thorough tier (which has all single flips) does.
    extra = []
    for tid in sorted(cata, key=order.get):
        c, got = cata[tid], by_tpl[tid]
        idx = R.foldable(c["toks"])
        hot = [i for i in idx if (t := R.render(c["toks"], {i: "u"})) in got and got[t][0]]
        todo = []
        for f in ("c", "a"):
            whole = R.render(c["toks"], {i: f for i in idx})
            if whole in got and got[whole][0]:
                for i in hot:
                    text = R.render(c["toks"], {i: f})
                    if text not in got and text not in [x[0] for x in todo]:
                        todo.append((text, False))
                        c["case"].append((f"one:{f}:{idx.index(i)}", {i: f}, text))
        if todo:
            extra.append((tid, todo))
    if extra:
        absorb(ctx.pmap(work, extra, chunk=1, recheck=False))
    ctx.extra["attribution_pass_spellings"] = sum(len(t) for _tid, t in extra)
    n_case = n_quote = 0
    tokens = {}
    active = [t for t in TEMPLATES if in_tier(t, ctx.tier)]
    for tpl in active:
        c = cata[tpl.id]
        missing = [t for _l, _f, t in c["case"] if t not in by_tpl[tpl.id]]
        if missing:
            raise core.HarnessError(f"spellings not executed for {tpl.id}: {missing[:2]}")
        classify(ctx, tpl, c, by_tpl[tpl.id])
        n_case += len({t for _l, _f, t in c["case"]})
        n_quote += len({t for _l, _f, _q, t in c["quote"]})
        tokens[tpl.id] = [len(R.foldable(c["toks"])), len(R.names(c["toks"]))]
        ok_or_err = by_tpl[tpl.id][c["ref"]][2][0]
        ctx.acc.add("reference_status", (tpl.id, ok_or_err))
    run_verbatim(ctx)
    ctx.exhaustive = True
    ctx.extra["templates"] = len(active)
    ctx.extra["templates_by_session_flavour"] = {f: sum(1 for t in active if t.session == f) for f in SESSIONS}
    ctx.extra["template_kinds"] = sorted({t.kind for t in active})
    ctx.extra["case_spellings"] = n_case
    ctx.extra["quoted_spellings"] = n_quote
    ctx.extra["foldable_tokens_and_names_per_template"] = tokens
    ctx.extra["reference_errors"] = sorted(
        t.id for t in active if by_tpl[t.id][cata[t.id]["ref"]][2][0] == "err"
    )
    ctx.extra["sweep_names_absent"] = {f"{s}:{n}": c for (s, n), c in sorted(absent.items())}
    ctx.extra["bound"] = f"full enumeration of the stated spellings for tier {ctx.tier} (FULL_LIMIT={R.FULL_LIMIT})"
    for tpl in TEMPLATES[:3]:
        ctx.acc.sample({"template": tpl.id, "spellings": [t for _l, _f, t in cata[tpl.id]["case"][:4]]})


def _report(acc, surface, cls, failed, det, tid, text):
    clause = f"C02.report.{surface}"
    acc.member(clause, cls, failed)
    if failed:
        acc.violation(clause, cls, dict(det, template=tid, sql=text), {"template": tid, "sql": text, "sweep": True})


def replay_verbatim(payload):
    import fakesnow.instance as inst

    r = payload["replay"]
    vt = VTPL[r["template"]]
    hist = tuple(tuple(f) for f in r["history"])
    surface = payload.get("clause", "").rsplit(".", 1)[-1]
    fs = inst.FakeSnow()
    cur = fs.connect(database=DB, schema=SCHEMA).cursor()
    for p, _fx in PRELUDE:
        cur.execute(p)
    print("template   :", vt.id, "| cursors:", r["arrangement"], "| between:", r["between"], "| rest:", r["rest"])
    bad = False
    for n, sql, exp, obs in vhistory(fs, vt, r["arrangement"], r["between"], r["rest"], hist):
        print(f"statement {n + 1}: {sql}")
        print(f"  as written : {exp}")
        for sf in VSURFACES:
            if obs.get(sf) is None:
                continue
            wrong = obs[sf] != exp and _same_ci(obs[sf], exp)
            print(f"  {sf:<11}: {obs[sf]}{'   <-- not as written' if wrong else ''}")
            if wrong and sf == surface and vclass(vt, r["arrangement"], r["between"], n, hist) == payload.get("class"):
                bad = True
    print("verdict:", "VIOLATION reproduced" if bad else "ok")
    return bad


def replay(payload):
    r = payload["replay"]
    if r.get("verbatim"):
        return replay_verbatim(payload)
    tid, text = r["template"], r["sql"]
    tpl = TPL[tid]
    ref_text = r.get("reference_sql") or R.render(R.lex(tpl.sql), "l")
    ref, _, s0 = execute(tid, ref_text)
    if s0 is not None:
        s0.close()
    o, findings, s1 = execute(tid, text, sweep=bool(r.get("sweep")))
    if s1 is not None:
        s1.close()
    df = diff_facets(ref, o)
    print("template :", tid)
    print("reference:", ref_text)
    print("spelling :", text)
    for f in FACETS:
        if f in df:
            a, b = _first_diff(ref[f], o[f])
            print(f"  {f}: reference={a}\n  {' ' * len(f)}  observed ={b}")
    if o["status"][0] == "err":
        print("  message:", o.get("msg"))
    bad = bool(df)
    clause = payload.get("clause", "")
    if clause.startswith("C02.report."):
        surface = clause[len("C02.report."):]
        recs = [x for x in own_result_findings(tpl, o) if x[0] == surface and x[2]]
        recs += [x for x in (findings or ()) if x[0] == surface and x[2] is True]
        recs = [x for x in recs if x[1] == payload.get("class")]
        for x in recs[:5]:
            print("  report:", x)
        bad = bool(recs)
    print("verdict:", "VIOLATION reproduced" if bad else "ok")
    return bad
