"""C20 — patch() and the CLI switch the fake on and off cleanly.

Two complete enumerations on the real code, reported in one evidence file:

PATCH (engine E1, BFS to fixpoint).  Operations: enter `fakesnow.patch(<target list>)` / leave the innermost open
block normally / leave it with an exception raised in the body.  The abstract state is
(open blocks, status of the lazily imported helper module, watched attributes that are not the original object while no
block is open, kind of the last top-level event); the transition function is the real `fakesnow.patch` context
manager (its `__enter__`/`__exit__`, exactly what a `with` statement calls), executed after replaying the state's
history from a pristine interpreter state (originals reinstated, helper modules un-imported).  Helper modules are
written to /verif/.work at run time: from-imports under the usual names, under aliases (`connect as sf_connect`,
`write_pandas as sf_write_pandas`), aliased and un-aliased side by side, each both in a module imported before any
patch() and in modules that are *not* imported before the first patch() naming them; two such modules use the same
alias, and one binds the *name* `connect` to write_pandas.  The reference model is the property text: which attributes have to be the original
object / a working fake after which event.  Where the implementation deviates, exploration continues from the state
it actually entered (observed status is part of the state), so everything behind a known deviation is still explored.

CLI (engine E2, complete product).  The option alphabet is derived at run time from fakesnow.cli.arg_parser() (every
option string, with or without value, separate / '=' / attached spellings; the hand-written table of today's options
is only a cross-check that leaves a note in the evidence).  Every token sequence of length <= L over it, plus
constructed longer lines (shaped_lines), is given to the real
`fakesnow.cli.main`, in a scratch directory holding one recorder script per token that can name a path and one
recorder module per token that can name a module; a recorder appends what it saw (sys.argv, whether the fake is on)
to a sink owned by the harness.  The expectation comes from mc/ref/argv_split.py (argparse's grammar over the option
table + "everything after the target specification is the target's").  `fakesnow.patch` is wrapped while main runs
to see the db_path it is called with; eight further runs check end to end that the database file appears under -d.

COMBINED.  Every ordered pair of single targets of different kinds (valid from-imports, aliased, in modules not yet
imported; non-existent module / attribute, non-snowflake function, also inside a module patch() has to import) is
passed in ONE target list; whatever the outcome, a correct patch() listing the real targets of the modules involved
follows, and every step is judged by the same clauses (quick: pairs with at least one failing target).

CHAIN.  Helper modules that import each other (c20h_lazy_a imports c20h_lazy_b imports c20h_lazy_c: plain import and
aliased from-import) are listed in both orders, partially, and the importer alone; each list is entered three times
with both exit modes in between.  Not exercised: listing, in a LATER patch(), a name of a module that an earlier
patch() only loaded as a side effect without listing it (see the round-5 report: it fails on the unchanged tree).

PAIRS.  Besides the BFS, every ordered pair (a, b) of target lists (quick: b from PAIR_SECOND_QUICK) is executed as "block with a, left normally if it
could be entered; then enter with b" with the full set of probes, so that what patch() may remember of an earlier call
(valid extras then none, failing extras then none, extras A then extras B) is judged inside the later block.

Pristine state.  Every work item starts by importing the fakesnow package afresh, every history by re-executing
fakesnow/__init__.py (besides reinstating the originals and un-importing the helper modules): behaviour is a function of
the item / history alone, and module-level state of patch() is exercised *within* histories.

CONNS.  Every sequence of up to 2 (thorough: 3) connections made inside one block, each by the thread that runs the
block, by a thread started and joined inside the block, or (when a worker thread runs the block) by the main thread -
never two threads at a time - x exit kind x storage (in memory, db_path).  After the block every one of them must raise
when used, and a new patch() with the same storage must be enterable and usable (with db_path: the committed rows are
there).

OPTIONS (differential).  patch(**options) must behave like FakeSnow(**options) used directly, for the full product of
option values (they reach the instance).

Clauses
  C20.enter                        a valid target list can be entered whenever no block is open (first time, after
                                   an exit, after a failed set-up)                      class  after=<last event>
  C20.inside                       after a successful enter every standard and every listed target is not the
                                   original object and works as a fake (connect -> select 1; write_pandas -> rows
                                   arrive)                                               class  target=<kind>[,imported-by=..]
                                   (for a target in a module patch() has to import: imported-by=this-patch |
                                   earlier-patch; if the earlier, importing patch() did not list the attribute the
                                   class is target=unimported-module-attr:<connect|write_pandas>,..,not-listed-then)
  C20.inside.only_own_targets      ... and only those: a watched attribute that is not listed and was the original
                                   before the enter is still the original inside         class  not-listed=<kind>
  C20.state_after_history          replaying a history from the pristine state goes through the states it went
                                   through when it was first executed (and the same work item run twice gives the
                                   same observations): otherwise the implementation keeps something between
                                   histories.  Reported as a verdict, exploration continues from the observed state
                                                   class  op=<operation after which it differs>,differs=<what> | rerun-of-same-history-differs
  C20.restore_after_exit           after leaving the outermost block every standard and every listed target `is`
                                   the original                                          class  target=<kind>,exit=<mode>
                                   (target=unimported-module-attr,not-listed-by-importing-patch,exit=<mode> as above)
  C20.restore_after_failed_setup   after an enter that raised, no watched attribute that was the original before
                                   is something else           class  targets=<target list id>[,after-failed-setup]
                                   (the suffix marks attempts made after an earlier failed set-up of the history)
  C20.closed                       a connection obtained inside raises when used after the block was left
                                                                                         class  exit=<mode>
                                   CONNS part: one verdict per connection  class  opened-by=<block-thread|new-thread|
                                   main-thread>,exit=<mode>,storage=<memory|db_path>
  C20.closed.storage_reusable      after the block a new patch() with the same storage can be entered, connect works and,
                                   with db_path, the rows committed in the first block are there
                                                         class  opened-by=<set of openers>,exit=<mode>,storage=<..>
  C20.exit_clean                   leaving normally does not raise; leaving with an exception does not raise a
                                   different one                                         class  exit=<mode>
  C20.nested.refused               enter while a block is open raises                    class  inner=<valid|failing>
  C20.nested.no_damage             ... and leaves every watched attribute the same object and the outer connection
                                   usable                                                class  inner=<valid|failing>
  C20.options                      patch(**o) == FakeSnow(**o) on a fixed probe; nop_regexes / db_path visibly
                                   take effect                                           class  <option that differs>
  C20.cli.args                     well-formed line naming a target: that target ran exactly once and its
                                   sys.argv[1:] are exactly the tokens after the target specification
                                          class  last-opt=<form of fakesnow's last own option>,target=<form>,targs=<0|n>
                                   (an empty string among the target's arguments:  class target=<path|module>,
                                   targs=n-with-empty-string; lines run as `python -m fakesnow ...` in a process of
                                   their own: the same classes with the suffix ,entry=python -m fakesnow)
                                   Target arguments: every sequence of length <= 3 (thorough 4) over '', '0', ' ', '--',
                                   'a', '-d', '-m' after every way of naming the target, after every own-option spelling
  C20.cli.no_target                well-formed line without target / help: nothing is run
  C20.cli.malformed                malformed or unspecified line: nothing is run, or what ran received exactly the
                                   tokens after one of its possible specifications       class  status=<..>
  C20.cli.db_path                  the value of -d/--db_path is what patch() is called with (None if absent; one of
                                   the values if repeated with different values); end to end: <db_path>/<DB>.db exists
                                                                                         class  db-opt=<form>
  C20.cli.fake_on                  the target runs with both standard targets replaced    class  target=<path|module>
  C20.cli.restored                 after main() returned or raised, both standard targets are the originals

Not demanded
  * which exception a refused nested entry or a failed set-up raises, or that a non-resolvable target *must* be
    refused (if the enter succeeds the block is treated as open);
  * the errno of the error raised by a closed connection (C07's business), only that it raises;
  * whether the body's exception is propagated unchanged (contextlib's job), only that no *other* exception appears;
  * names of a module that the block's own patch() imported and that the block does not list (they are bound to the
    mocks at import time; C20.inside.only_own_targets judges only what was the original before the enter);
  * sys.argv[0] and `__name__` seen by the target, main()'s return value, usage texts, sys.path handling;
  * abbreviated long options (`--db`, `--mod`), `-d=VALUE`, `-h` clusters, `--` followed by an option-like token:
    outside the token alphabet / classified "unspecified" by the reference;
  * for `-- PATH ARGS` (option terminator before the target) either a usage error or running PATH with exactly ARGS is
    accepted; running it with other arguments is not;
  * which of several different -d values wins;
  * an empty string in fakesnow's own part of the line (as the path, as a -d / -m value): only the target's arguments
    range over the falsy-looking tokens;
  * that connections of one instance made by different threads see each other's tables (C13's business): the CONNS
    part only records it.
"""
from __future__ import annotations

import contextlib
import importlib
import io
import itertools
import os
import sys
import types

from mc import core
from mc.ref import argv_split as ref
from mc.util import scratch_dir

PID = "C20"
LEVEL = "model_checking"

# =====================================================================================================================
# PATCH part: alphabet
# =====================================================================================================================
_ALIASED = (
    "from snowflake.connector import connect  # noqa: F401\n"
    "from snowflake.connector import connect as sf_connect  # noqa: F401\n"
    "from snowflake.connector.pandas_tools import write_pandas as sf_write_pandas  # noqa: F401\n"
)
HELPER_SRC = {
    "c20h_conn": "from snowflake.connector import connect  # noqa: F401\n\n\ndef other():\n    return 'not a snowflake function'\n",
    "c20h_wp": "from snowflake.connector.pandas_tools import write_pandas  # noqa: F401\n",
    # binds the connector under other names (and, beside them, under the usual one)
    "c20h_alias": _ALIASED,
    "c20h_lazy": "from snowflake.connector import connect  # noqa: F401\n\n\ndef other():\n    return 'not a snowflake function'\n",
    "c20h_lazy_alias": _ALIASED,
    # the same alias as c20h_lazy_alias.sf_connect, and the *name* `connect` bound to write_pandas
    "c20h_lazy_alias2": (
        "from snowflake.connector import connect as sf_connect  # noqa: F401\n"
        "from snowflake.connector.pandas_tools import write_pandas as connect  # noqa: F401\n"
    ),
    # helper modules that import each other (plain import, aliased from-import): importing c20h_lazy_a loads
    # c20h_lazy_b, which loads c20h_lazy_c - "already in sys.modules although this patch() did not import it itself"
    "c20h_lazy_a": "import c20h_lazy_b  # noqa: F401\nfrom snowflake.connector import connect  # noqa: F401\n",
    "c20h_lazy_b": (
        "from c20h_lazy_c import MARK as _MARK  # noqa: F401\n"
        "from snowflake.connector import connect  # noqa: F401\n"
        "from snowflake.connector.pandas_tools import write_pandas as sf_write_pandas  # noqa: F401\n"
    ),
    "c20h_lazy_c": "MARK = 1\nfrom snowflake.connector import connect as sf_connect  # noqa: F401, E402\n",
}
# the c20h_lazy* modules are deliberately not imported before the first patch() that names them
PREIMPORTED = ("c20h_conn", "c20h_wp", "c20h_alias")

# watched attributes: (kind, module, attribute, which original it has to be); first those of modules that are imported
# before any patch(), then those of the modules patch() itself has to import
WATCHED = [
    ("std-connect", "snowflake.connector", "connect", "connect"),
    ("std-write_pandas", "snowflake.connector.pandas_tools", "write_pandas", "write_pandas"),
    ("from-import-connect", "c20h_conn", "connect", "connect"),
    ("from-import-write_pandas", "c20h_wp", "write_pandas", "write_pandas"),
    ("aliased-connect", "c20h_alias", "sf_connect", "connect"),
    ("aliased-write_pandas", "c20h_alias", "sf_write_pandas", "write_pandas"),
    ("unaliased-beside-alias", "c20h_alias", "connect", "connect"),
    ("unimported-module", "c20h_lazy", "connect", "connect"),
    ("unimported-aliased-connect", "c20h_lazy_alias", "sf_connect", "connect"),
    ("unimported-aliased-write_pandas", "c20h_lazy_alias", "sf_write_pandas", "write_pandas"),
    ("unimported-unaliased-beside-alias", "c20h_lazy_alias", "connect", "connect"),
    ("unimported2-aliased-connect", "c20h_lazy_alias2", "sf_connect", "connect"),
    ("unimported2-write_pandas-named-connect", "c20h_lazy_alias2", "connect", "write_pandas"),
    ("chain-a-connect", "c20h_lazy_a", "connect", "connect"),
    ("chain-b-connect", "c20h_lazy_b", "connect", "connect"),
    ("chain-b-aliased-write_pandas", "c20h_lazy_b", "sf_write_pandas", "write_pandas"),
    ("chain-c-aliased-connect", "c20h_lazy_c", "sf_connect", "connect"),
]
KINDS = [w[0] for w in WATCHED]
N_PRE = sum(1 for w in WATCHED if not w[1].startswith("c20h_lazy"))
LAZY_KINDS = KINDS[N_PRE:]
KIND_OF_TARGET = {f"{w[1]}.{w[2]}": w[0] for w in WATCHED}

T_CONN = "c20h_conn.connect"
T_WP = "c20h_wp.write_pandas"
T_LAZY = "c20h_lazy.connect"
A = "c20h_alias"
LA = "c20h_lazy_alias"
LA2 = "c20h_lazy_alias2"
# id -> (value passed as extra_targets, every target resolvable to a snowflake function?)
TARGET_LISTS = {
    "none": ([], True),
    "str:from-import-connect": (T_CONN, True),
    "from-import-connect": ([T_CONN], True),
    "from-import-write_pandas": ([T_WP], True),
    "tuple:both-from-imports": ((T_CONN, T_WP), True),
    "from-import-connect-twice": ([T_CONN, T_CONN], True),
    "aliased": ([f"{A}.sf_connect", f"{A}.sf_write_pandas"], True),
    "aliased+unaliased": ([f"{A}.connect", f"{A}.sf_connect"], True),
    "unimported-module": ([T_LAZY], True),
    "unimported-aliased": ([f"{LA}.sf_connect", f"{LA}.sf_write_pandas"], True),
    "unimported-aliased+unaliased": ([f"{LA}.connect", f"{LA}.sf_connect", f"{LA}.sf_write_pandas"], True),
    "unimported-two-modules-same-alias": ([f"{LA}.sf_connect", f"{LA2}.sf_connect"], True),
    "unimported-cross-named": ([f"{LA2}.connect", f"{LA2}.sf_connect"], True),
    "nonexistent-module": (["c20h_nomod.connect"], False),
    "nonexistent-attr": (["c20h_conn.nope"], False),
    "non-snowflake-fn": (["c20h_conn.other"], False),
    "malformed": (["connect"], False),
    "valid+nonexistent-attr": ([T_CONN, "c20h_conn.nope"], False),
    "nonexistent-module+valid": (["c20h_nomod.connect", T_CONN], False),
    "unimported-aliased+nonexistent-attr": ([f"{LA}.sf_connect", "c20h_conn.nope"], False),
    # the failing name is in the module patch() has to import for it
    "unimported-module:nonexistent-attr": (["c20h_lazy.nope"], False),
}
BASE_TARGET_LISTS = list(TARGET_LISTS)

# ---- combined target lists: every ordered pair of single targets in ONE call, then the modules' real targets ----------
SINGLE_VALID = {
    "from-import-connect": T_CONN,
    "from-import-write_pandas": T_WP,
    "aliased-connect": f"{A}.sf_connect",
    "aliased-write_pandas": f"{A}.sf_write_pandas",
    "unaliased-beside-alias": f"{A}.connect",
    "unimported-module": T_LAZY,
    "unimported-aliased-connect": f"{LA}.sf_connect",
    "unimported-aliased-write_pandas": f"{LA}.sf_write_pandas",
    "unimported2-write_pandas-named-connect": f"{LA2}.connect",
    "chain-a-connect": "c20h_lazy_a.connect",
    "chain-b-connect": "c20h_lazy_b.connect",
    "chain-b-aliased-write_pandas": "c20h_lazy_b.sf_write_pandas",
    "chain-c-aliased-connect": "c20h_lazy_c.sf_connect",
}
SINGLE_FAILING = {
    "nonexistent-module": "c20h_nomod.connect",
    "nonexistent-attr": "c20h_conn.nope",
    "non-snowflake-fn": "c20h_conn.other",
    "malformed": "connect",
    "unimported-module:nonexistent-attr": "c20h_lazy.nope",
    "unimported-module:non-snowflake-fn": "c20h_lazy.other",
    "unimported-aliased:nonexistent-attr": f"{LA}.nope",
}
SINGLES = {**SINGLE_VALID, **SINGLE_FAILING}


def _real_targets(*targets):
    """every watched target of the helper modules named by these targets (what a later, correct patch() would list)"""
    mods = []
    for t in targets:
        m = t.rpartition(".")[0]
        if m and m not in mods and any(w[1] == m for w in WATCHED[2:]):
            mods.append(m)
    return [f"{w[1]}.{w[2]}" for w in WATCHED[2:] if w[1] in mods]


def combined_id(a, b):
    return f"combined:{a}+{b}"


for _a, _ta in SINGLES.items():
    for _b, _tb in SINGLES.items():
        TARGET_LISTS[combined_id(_a, _b)] = ([_ta, _tb], _a in SINGLE_VALID and _b in SINGLE_VALID)
        TARGET_LISTS[f"real:{_a}+{_b}"] = (_real_targets(_ta, _tb), True)


# ---- modules that import each other: both orders of (importer's target, imported module's targets), and one only -----
_CA, _CB, _CC = ["c20h_lazy_a.connect"], ["c20h_lazy_b.connect", "c20h_lazy_b.sf_write_pandas"], ["c20h_lazy_c.sf_connect"]
CHAIN_LISTS = {
    "chain:a,b": _CA + _CB,
    "chain:b,a": _CB + _CA,
    "chain:a,b,c": _CA + _CB + _CC,
    "chain:c,b,a": _CC + _CB + _CA,
    "chain:a,c": _CA + _CC,
    "chain:b,c": _CB + _CC,
    "chain:a": _CA,
}
for _k, _v in CHAIN_LISTS.items():
    TARGET_LISTS[_k] = (_v, True)


def combined_pairs(tier):
    """quick: every pair with at least one failing single (both orders); thorough: every ordered pair"""
    # (two targets of the modules that import each other are covered by CHAIN_LISTS instead: a partial list followed
    # by the modules' remaining names is the side-effect-loaded-module case that is not exercised, see CHAIN)
    both_chain = lambda a, b: a.startswith("chain-") and b.startswith("chain-")  # noqa: E731
    # chain x chain pairs (an earlier patch() loads a module only as a side effect, a later one lists it) run in both tiers
    return [(a, b) for a in SINGLES for b in SINGLES if tier != "quick" or a in SINGLE_FAILING or b in SINGLE_FAILING or both_chain(a, b)]
# quick tier: the target lists above minus these (they only multiply the lazily-imported-module states)
THOROUGH_ONLY = ["unimported-cross-named", "unimported-aliased+nonexistent-attr"]
NESTED_INNER_QUICK = ["none", "from-import-connect", "unimported-module", "unimported-aliased", "nonexistent-module"]
EXIT_MODES = ["normal", "exception"]
MAX_DEPTH = 2  # only reachable if the implementation accepts a nested entry
HISTORIES_PER_STATE = {"quick": 1, "thorough": 2}
# pairs sweep (earlier block a, later enter b): a ranges over every target list of the tier, b over these in quick
PAIR_SECOND_QUICK = [
    "none", "from-import-connect", "from-import-write_pandas", "aliased", "unimported-module", "unimported-aliased",
    "unimported-two-modules-same-alias", "nonexistent-attr",
]  # fmt: skip


def pair_seconds(tier):
    return PAIR_SECOND_QUICK if tier == "quick" else list(BASE_TARGET_LISTS)


def target_lists(tier):
    return [t for t in BASE_TARGET_LISTS if tier != "quick" or t not in THOROUGH_ONLY]


def listed_kinds(tlid):
    v = TARGET_LISTS[tlid][0]
    v = [v] if isinstance(v, str) else list(v)
    out = []
    for t in v:
        k = KIND_OF_TARGET.get(t)
        if k and k not in out:
            out.append(k)
    return out


def ops_for(state, tier):
    open_, _lazy, _leaked, _last = state
    if not open_:
        return [("enter", t) for t in target_lists(tier)]
    ops = [("exit", m) for m in EXIT_MODES]
    if len(open_) < MAX_DEPTH:
        inner = NESTED_INNER_QUICK if tier == "quick" else list(BASE_TARGET_LISTS)
        ops += [("enter", t) for t in inner]
    return ops


INITIAL = ((), ("absent",) * len(LAZY_KINDS), (), "start")


class _Boom(Exception):
    """the exception raised in the body of a block"""


# =====================================================================================================================
# harness plumbing shared by all parts
# =====================================================================================================================
_ORIG: dict = {}


def originals():
    if not _ORIG:
        import unittest.mock as um

        import snowflake.connector as sc
        import snowflake.connector.pandas_tools as pt

        if isinstance(sc.connect, um.NonCallableMock) or isinstance(pt.write_pandas, um.NonCallableMock):
            raise core.HarnessError("C20: originals would be captured while a patch is active")
        _ORIG["connect"] = sc.connect
        _ORIG["write_pandas"] = pt.write_pandas
    return _ORIG


def fresh_fakesnow(whole_package=False):
    """Fresh module-level state of the subject.  whole_package (once per work item): forget every fakesnow module and
    import the package again, so a work item never sees what an earlier item of the same worker process left in any
    fakesnow module - its behaviour is a function of the item alone.  Otherwise (before every history): re-execute
    fakesnow/__init__.py, where patch() lives, so every history starts with patch()'s module-level state fresh and
    whatever patch() keeps there between calls shows *within* a history (earlier block -> later block)."""
    force_restore()
    if whole_package:
        for name in [n for n in sys.modules if n == "fakesnow" or n.startswith("fakesnow.")]:
            del sys.modules[name]
        importlib.import_module("fakesnow")
        importlib.import_module("fakesnow.cli")
    else:
        importlib.reload(importlib.import_module("fakesnow"))
    core.assert_repo()


def force_restore():
    import snowflake.connector as sc
    import snowflake.connector.pandas_tools as pt

    o = originals()
    sc.connect = o["connect"]
    pt.write_pandas = o["write_pandas"]


CLI_MODULE_NAMES = ("x", "a", "mod", "script", "script.py", "c20e2e_mod", "_c20_sink")


def purge_modules(d=None):
    """forget every helper / recorder module (by name, and anything loaded from the scratch directory d)"""
    for name in list(sys.modules):
        drop = name in HELPER_SRC or name in CLI_MODULE_NAMES or name.startswith("script.")
        if not drop and d:
            try:
                f = sys.modules[name].__dict__.get("__file__") or ""
            except Exception:  # noqa: BLE001  (lazy module objects)
                f = ""
            drop = isinstance(f, str) and f.startswith(d + os.sep)
        if drop:
            sys.modules.pop(name, None)


@contextlib.contextmanager
def sandbox(prefix, files):
    """Scratch directory under /verif/.work holding `files`, first on sys.path; afterwards sys.path, sys.argv, cwd,
    sys.modules (helper/target modules) and the two standard targets are what they were."""
    originals()
    argv_obj, argv_val = sys.argv, list(sys.argv)
    path_obj, path_val = sys.path, list(sys.path)
    cwd = os.getcwd()
    with scratch_dir(prefix) as d:
        for rel, src in files.items():
            p = os.path.join(d, rel)
            os.makedirs(os.path.dirname(p), exist_ok=True)
            with open(p, "w") as f:
                f.write(src)
        importlib.invalidate_caches()
        sys.path.insert(0, d)
        fresh_fakesnow(whole_package=True)
        try:
            yield d
        finally:
            force_restore()
            purge_modules(d)
            sys.argv = argv_obj
            argv_obj[:] = argv_val
            sys.path = path_obj
            path_obj[:] = path_val
            os.chdir(cwd)
            for k in [k for k in sys.path_importer_cache if k == d or k.startswith(d + os.sep)]:
                sys.path_importer_cache.pop(k, None)


def exc_name(e):
    return f"{type(e).__module__}.{type(e).__name__}"


# =====================================================================================================================
# PATCH part: real side
# =====================================================================================================================
def watched_objects():
    o = originals()
    out = []
    for _kind, mod, attr, _which in WATCHED:
        m = sys.modules.get(mod)
        out.append(m.__dict__.get(attr, _ABSENT) if m is not None else _ABSENT)
    del o
    return out


_ABSENT = object()


def statuses(objs):
    o = originals()
    return tuple(
        "absent" if x is _ABSENT else ("orig" if x is o[w[3]] else "other") for x, w in zip(objs, WATCHED)
    )


def probe_connect(fn):
    """-> ('ok'|'wrong-rows'|'err:<class>', connection|None).  Never called with the original connect."""
    try:
        c = fn(database="C20DB", schema="C20S")
        rows = c.cursor().execute("select 1").fetchall()
        return ("ok" if rows == [(1,)] else "wrong-rows"), c
    except Exception as e:  # noqa: BLE001
        return "err:" + exc_name(e), None


def probe_write_pandas(fn, conn, table):
    import pandas as pd

    try:
        conn.cursor().execute(f"create table {table} (A int)")
        r = fn(conn, pd.DataFrame({"A": [1, 2]}), table)
        n = conn.cursor().execute(f"select count(*) from {table}").fetchall()
        return "ok" if (bool(r[0]) and r[2] == 2 and n == [(2,)]) else "wrong-result"
    except Exception as e:  # noqa: BLE001
        return "err:" + exc_name(e)


def conn_state(conn):
    if conn is None:
        return "none"
    try:
        conn.cursor().execute("select 1").fetchall()
        return "open"
    except Exception as e:  # noqa: BLE001
        return f"closed:{exc_name(e)}:{getattr(e, 'errno', None)}"


class Real:
    """Executes enter/exit operations on the real fakesnow.patch and observes."""

    def __init__(self):
        self.blocks = []  # open blocks: {"cm", "tl", "conn"}

    def pristine(self):
        self.blocks = []
        force_restore()
        purge_modules()
        fresh_fakesnow()
        for m in PREIMPORTED:
            importlib.import_module(m)

    def ensure_conn(self):
        """a connection obtained inside the innermost open block through the standard target (if it is replaced)"""
        if self.blocks and self.blocks[-1]["conn"] is None:
            x = watched_objects()[0]
            if x is not _ABSENT and x is not originals()["connect"]:
                self.blocks[-1]["conn"] = probe_connect(x)[1]

    def apply(self, op, probe):
        import fakesnow

        if probe and (op[0] == "exit" or self.blocks):
            self.ensure_conn()
        before_objs = watched_objects()
        before = statuses(before_objs)
        obs = {"op": list(op), "before": before}
        if op[0] == "enter":
            tlid = op[1]
            cm = None
            try:
                cm = fakesnow.patch(TARGET_LISTS[tlid][0])
                cm.__enter__()
                obs["raised"] = None
            except Exception as e:  # noqa: BLE001
                obs["raised"] = exc_name(e)
            objs = watched_objects()
            obs["status"] = statuses(objs)
            obs["unchanged"] = tuple(a is b for a, b in zip(objs, before_objs))
            if obs["raised"] is None:
                blk = {"cm": cm, "tl": tlid, "conn": None}
                func = {}
                o = originals()
                should = ["std-connect", "std-write_pandas"] + [k for k in listed_kinds(tlid) if not k.startswith("std-")]
                if probe:
                    # a connection through the standard target (kept for the closed-after-exit observation)
                    if objs[0] is not _ABSENT and objs[0] is not o["connect"]:
                        func["std-connect"], blk["conn"] = probe_connect(objs[0])
                    else:
                        func["std-connect"] = "not-fake"
                    for i, (kind, _m, _a, which) in enumerate(WATCHED):
                        if kind not in should or kind == "std-connect":
                            continue
                        x = objs[i]
                        if x is _ABSENT or x is o[which]:
                            func[kind] = "not-fake"
                        elif which == "connect":
                            func[kind] = probe_connect(x)[0]
                        elif blk["conn"] is None:
                            func[kind] = "no-connection"
                        else:
                            func[kind] = probe_write_pandas(x, blk["conn"], f"C20WP{i}")
                obs["func"] = func
                self.blocks.append(blk)
            elif self.blocks and probe:
                obs["outer_conn"] = conn_state(self.blocks[-1]["conn"])
        elif not self.blocks:
            obs["skipped"] = True
            obs["status"] = before
        else:
            blk = self.blocks.pop()
            mode = op[1]
            obs["exit_raised"] = None
            try:
                if mode == "normal":
                    blk["cm"].__exit__(None, None, None)
                else:
                    try:
                        raise _Boom("body")
                    except _Boom as e:
                        try:
                            blk["cm"].__exit__(type(e), e, e.__traceback__)
                        except _Boom as e2:
                            if e2 is not e:
                                raise
            except Exception as e:  # noqa: BLE001
                obs["exit_raised"] = exc_name(e)
            objs = watched_objects()
            obs["status"] = statuses(objs)
            obs["conn"] = conn_state(blk["conn"])
            obs["tl"] = blk["tl"]
        return obs

    def cleanup(self):
        while self.blocks:
            blk = self.blocks.pop()
            with contextlib.suppress(BaseException):
                blk["cm"].__exit__(None, None, None)
        force_restore()


def next_state(pre, op, obs):
    if obs.get("skipped"):
        return pre
    open_, _lazy, _leaked, last = pre
    st = obs["status"]
    if op[0] == "enter":
        if obs["raised"] is None:
            open_ = open_ + (op[1],)
            last = "-"
        elif not open_:
            last = "failed-setup"
    else:
        open_ = open_[:-1]
        if not open_:
            last = "exit"
    lazy = tuple(st[N_PRE:])
    leaked = tuple(k for k, s in zip(KINDS[:N_PRE], st[:N_PRE]) if s != "orig") if not open_ else ()
    return (open_, lazy, leaked, last)


# ---- oracle (from the property text; state = what was observed before the operation) --------------------------------
def lazy_class(k, lazy, imp):
    """class fragment for a listed target that lives in a module patch() has (had) to import itself.
    imp: kind -> was this attribute listed by the patch() that imported its module?"""
    if k not in LAZY_KINDS:
        return f"target={k}", False
    if lazy[LAZY_KINDS.index(k)] == "absent":
        return f"target={k},imported-by=this-patch", False
    if imp.get(k, True):
        return f"target={k},imported-by=earlier-patch", False
    # (a stale write_pandas mock still works - the fake is a plain function - a stale connect mock is bound to the
    # closed instance: two classes)
    which = WATCHED[KINDS.index(k)][3]
    return f"target=unimported-module-attr:{which},imported-by=earlier-patch,not-listed-then", True


def judge_patch(pre, op, obs, imp=None):
    """-> [(clause, class, failed, detail)] : every demand evaluated for this transition (for the homogeneity audit).
    imp: for attributes of lazily imported modules, whether the importing patch() listed them (see lazy_class)."""
    open_, lazy, _leaked, last = pre
    imp = imp or {}
    depth = len(open_)
    st = obs["status"]
    out = []
    if obs.get("skipped"):
        return out
    if op[0] == "enter":
        tlid = op[1]
        valid = TARGET_LISTS[tlid][1]
        raised = obs["raised"]
        if depth == 0:
            if valid:
                out.append(("C20.enter", f"after={last}", raised is not None, {"targets": tlid, "raised": raised}))
            if raised is not None:
                listed = listed_kinds(tlid)
                newly = [k for k, b, a in zip(KINDS, obs["before"], st) if (b == "orig" and a != "orig") or (b == "absent" and a == "other" and k in listed)]
                if not valid or newly:
                    out.append(
                        (
                            "C20.restore_after_failed_setup",
                            f"targets={tlid}" + (",after-failed-setup" if last == "failed-setup" else ""),
                            bool(newly),
                            {"raised": raised, "not_original_afterwards": newly, "status": dict(zip(KINDS, st))},
                        )
                    )
            else:
                should = ["std-connect", "std-write_pandas"] + [k for k in listed_kinds(tlid) if not k.startswith("std-")]
                for k in should:
                    s = st[KINDS.index(k)]
                    f = obs["func"].get(k)
                    cls, _unlisted = lazy_class(k, lazy, imp)
                    out.append(("C20.inside", cls, s != "other" or f != "ok", {"targets": tlid, "target": k, "identity": s, "used_as_fake": f}))
                # ... and nothing but its own targets: what was the original before and is not listed stays the original
                for k, b, s in zip(KINDS, obs["before"], st):
                    if k not in should and b == "orig":
                        out.append(("C20.inside.only_own_targets", f"not-listed={k}", s != "orig", {"targets": tlid, "not_listed": k, "identity_inside": s}))
        else:
            cls = "inner=" + ("valid" if valid else "failing")
            out.append(("C20.nested.refused", cls, raised is None, {"outer": list(open_), "inner": tlid}))
            if raised is not None:
                damage = (not all(obs["unchanged"])) or obs.get("outer_conn") != "open"
                out.append(
                    (
                        "C20.nested.no_damage",
                        cls,
                        damage,
                        {"outer": list(open_), "inner": tlid, "same_objects": dict(zip(KINDS, obs["unchanged"])), "outer_conn": obs.get("outer_conn")},
                    )
                )
    else:
        mode = op[1]
        out.append(("C20.exit_clean", f"exit={mode}", obs["exit_raised"] is not None, {"raised": obs["exit_raised"]}))
        if depth == 1:
            tlid = open_[-1]
            for k in ["std-connect", "std-write_pandas"] + [k for k in listed_kinds(tlid) if not k.startswith("std-")]:
                s = st[KINDS.index(k)]
                cls = f"target={k},exit={mode}"
                if k in LAZY_KINDS and imp.get(k) is False:
                    cls = f"target=unimported-module-attr,not-listed-by-importing-patch,exit={mode}"
                out.append(("C20.restore_after_exit", cls, s != "orig", {"targets": tlid, "target": k, "status_after_exit": s}))
            if obs["conn"] != "none":
                out.append(("C20.closed", f"exit={mode}", obs["conn"] == "open", {"targets": tlid, "connection_after_exit": obs["conn"]}))
    return out


def note_imports(imp, op, obs):
    """remember, for every attribute of a module that this enter imported, whether the enter listed it"""
    if op[0] == "enter":
        listed = listed_kinds(op[1])
        for k, b, a in zip(KINDS, obs["before"], obs["status"]):
            if k in LAZY_KINDS and b == "absent" and a != "absent":
                imp[k] = k in listed


def run_patch_history(hist, op):
    """Replay hist from a pristine state (observing only what is needed to continue), apply op with full probes.
    -> (pre_state, obs, post_state, imp, trace)   imp: see lazy_class (taken before op); trace: state after each
    operation of hist"""
    r = Real()
    r.pristine()
    try:
        state = INITIAL
        imp = {}
        trace = []
        for h in hist:
            h = tuple(h)
            o = r.apply(h, probe=False)
            note_imports(imp, h, o)
            state = next_state(state, h, o)
            trace.append(state)
        obs = r.apply(tuple(op), probe=True)
        return state, obs, next_state(state, tuple(op), obs), imp, trace
    finally:
        r.cleanup()


def divergence(hist, expected_trace, trace):
    """First operation of hist after which the implementation is not in the state it was in when this history was
    first executed -> (class, detail) | None.  The class names the operation and the first thing that differs."""
    for i, (e, g) in enumerate(zip(expected_trace, trace)):
        e, g = _tuplify(e), _tuplify(g)
        if e == g:
            continue
        if e[0] != g[0]:
            what = "open-blocks"
        elif e[1] != g[1]:
            what = next(k for k, a, b in zip(LAZY_KINDS, e[1], g[1]) if a != b)
        elif e[2] != g[2]:
            what = sorted(set(e[2]) ^ set(g[2]))[0]
        else:
            what = "last-event"
        op = hist[i]
        return f"op={op[0]}:{op[1]},differs={what}", {"step": i, "op": list(op), "state_at_first_visit": e, "state_now": g}
    return None


def record_transition(acc, counter, pre, op, obs, post, imp, hist):
    acc.count("transitions")
    acc.count("traces")
    acc.count("evaluations")
    acc.count(counter)
    acc.obs((pre, op, sorted(obs.items())))
    acc.outcome(("patch", op[0], obs.get("raised"), obs.get("exit_raised"), obs["status"], obs.get("conn"), tuple(sorted((obs.get("func") or {}).items()))))
    if post != pre:
        acc.nontrivial(("patch", pre, op))
    for clause, cls, failed, detail in judge_patch(pre, op, obs, imp):
        acc.member(clause, cls, failed)
        if failed:
            acc.violation(clause, cls, {"pre_state": pre, "op": op, **detail}, {"part": "patch", "history": hist, "op": op})


def _tuplify(x):
    return tuple(_tuplify(y) for y in x) if isinstance(x, (list, tuple)) else x


def expand_patch(item, acc, tier):
    """item = ("patch", state, history, trace): explore every operation enabled in state after replaying history.
    trace = the states the history went through when it was first executed; if the replay leaves them, the
    implementation keeps something between histories that the pristine state does not reset (or behaves differently
    for the same history): that is a verdict (C20.state_after_history), and exploration continues from where it is."""
    state, hist, exp_trace = _tuplify(item[1]), [tuple(h) for h in item[2]], list(item[3])
    succ = []
    with sandbox("c20p", {f"{m}.py": s for m, s in HELPER_SRC.items()}):
        for op in ops_for(state, tier):
            pre, obs, post, imp, trace = run_patch_history(hist, op)
            div = divergence(hist, exp_trace, trace)
            acc.member("C20.state_after_history", div[0] if div else "same-as-first-visit", bool(div))
            if div:
                acc.violation("C20.state_after_history", div[0], dict(div[1], history=hist), {"part": "patch-history", "history": hist, "expected_trace": exp_trace})
            if obs.get("skipped"):
                continue
            record_transition(acc, "patch_transitions", pre, op, obs, post, imp, hist)
            succ.append((post, hist + [op], trace + [post]))
        if state == INITIAL and not hist:
            acc.sample({"part": "patch", "state": state, "ops_explored": [list(o) for o in ops_for(state, tier)]})
    return succ


def run_scenario(ops, acc, counter):
    """One straight run of ops from the pristine state, every step probed and judged (an exit with nothing open is
    skipped).  -> number of steps executed"""
    r = Real()
    r.pristine()
    n = 0
    try:
        state, imp, hist = INITIAL, {}, []
        for op in ops:
            obs = r.apply(op, probe=True)
            if obs.get("skipped"):
                continue
            post = next_state(state, op, obs)
            record_transition(acc, counter, state, op, obs, post, imp, list(hist))
            note_imports(imp, op, obs)
            hist.append(op)
            state = post
            n += 1
    finally:
        r.cleanup()
    return n


def work_combined(item, acc, tier):
    """Two single targets of different kinds in ONE target list (each pair, both orders), left normally if the enter
    succeeded; then a correct patch() listing the real targets of the modules involved, left by an exception."""
    a = item[1]
    n = 0
    with sandbox("c20k", {f"{m}.py": s for m, s in HELPER_SRC.items()}):
        for a2, b in combined_pairs(tier):
            if a2 != a:
                continue
            ops = [("enter", combined_id(a, b)), ("exit", "normal")]
            if TARGET_LISTS[f"real:{a}+{b}"][0]:
                ops += [("enter", f"real:{a}+{b}"), ("exit", "exception")]
            n += run_scenario(ops, acc, "patch_combined_transitions")
        if a == "unimported-module:nonexistent-attr":
            acc.sample({"part": "patch-combined", "first_target": SINGLES[a], "second_target_each_of": [SINGLES[b] for a2, b in combined_pairs(tier) if a2 == a], "then": "enter with the real targets of the modules involved"})
    return n


def work_chain(item, acc, tier):
    """Target lists over helper modules that import each other (a module is in sys.modules although this patch() did
    not import it itself): enter, leave (each mode first), enter the same list again, leave the other way, once more."""
    tlid = item[1]
    n = 0
    with sandbox("c20n", {f"{m}.py": s for m, s in HELPER_SRC.items()}):
        for first, second in (("normal", "exception"), ("exception", "normal")):
            ops = [("enter", tlid), ("exit", first), ("enter", tlid), ("exit", second), ("enter", tlid), ("exit", "normal")]
            n += run_scenario(ops, acc, "patch_chain_transitions")
        if tlid == "chain:a,b":
            acc.sample({"part": "patch-chain", "targets": CHAIN_LISTS[tlid], "helper_modules": {m: HELPER_SRC[m] for m in ("c20h_lazy_a", "c20h_lazy_b", "c20h_lazy_c")}})
    return n


def work_pairs(item, acc, tier):
    """Every ordered pair of target lists: a block with list a (left normally if it could be entered), then enter
    with list b - what patch() remembers of an earlier call must not show in a later one."""
    a = item[1]
    n = 0
    with sandbox("c20q", {f"{m}.py": s for m, s in HELPER_SRC.items()}):
        for b in pair_seconds(tier):
            hist = [("enter", a), ("exit", "normal")]
            op = ("enter", b)
            pre, obs, post, imp, _trace = run_patch_history(hist, op)
            record_transition(acc, "patch_pair_transitions", pre, op, obs, post, imp, hist)
            n += 1
        if a == "from-import-connect":
            acc.sample({"part": "patch-pairs", "first_block": a, "then_enter_each_of": pair_seconds(tier)})
    return n


# =====================================================================================================================
# CONNS part: which thread opened a connection inside the block x exit kind x storage
# =====================================================================================================================
# "the instance's connections are closed when the block is left" is quantified over every connection made inside the
# block, whoever made it.  Threads: the one that enters and leaves the block (the main thread, or a worker that lives
# around the block), a thread started inside the block and joined inside it (after all connections were made, before
# the block is left: no two threads ever run fakesnow code at the same time), and - when a worker runs the block - the
# main thread.  One scenario: enter patch(db_path=<storage>) / open the connections of the sequence, each writes one
# committed row into one table / leave / every connection must raise when used / a new patch() with the same storage
# can be entered, connect works there and, with db_path, the committed rows are there / leave.
CONN_BLOCK_THREADS = ["main-thread", "worker-thread"]
CONN_EXITS = EXIT_MODES
CONN_STORAGE = ["memory", "db_path"]
CONN_MAX_OPENERS = {"quick": 2, "thorough": 3}


def conn_openers(block):
    """who can open a connection inside the block, relative to the thread that runs the block"""
    return ["block-thread", "new-thread"] + (["main-thread"] if block != "main-thread" else [])


def conn_sequences(block, tier):
    al = conn_openers(block)
    return [s for k in range(1, CONN_MAX_OPENERS[tier] + 1) for s in itertools.product(al, repeat=k)]


def conn_items():
    return [("patch-conns", b, e, s) for b in CONN_BLOCK_THREADS for e in CONN_EXITS for s in CONN_STORAGE]


class _Worker:
    """a thread that runs the callables handed to it, one at a time, until stopped (the caller waits for each)"""

    def __init__(self):
        import queue
        import threading

        self.q = queue.Queue()
        self.t = threading.Thread(target=self._loop, daemon=True)
        self.t.start()

    def _loop(self):
        while True:
            job = self.q.get()
            if job is None:
                return
            fn, box, done = job
            try:
                box["value"] = fn()
            except BaseException as e:  # noqa: BLE001
                box["error"] = e
            done.set()

    def call(self, fn):
        import threading

        box, done = {}, threading.Event()
        self.q.put((fn, box, done))
        done.wait()
        if "error" in box:
            raise box["error"]
        return box["value"]

    def stop(self):
        self.q.put(None)
        self.t.join()


def _leave(cm, mode):
    """what a `with` statement does when its body ends normally / raises -> name of an exception that is not the body's"""
    try:
        if mode == "normal":
            cm.__exit__(None, None, None)
        else:
            try:
                raise _Boom("body")
            except _Boom as e:
                try:
                    cm.__exit__(type(e), e, e.__traceback__)
                except _Boom as e2:
                    if e2 is not e:
                        raise
    except Exception as e:  # noqa: BLE001
        return exc_name(e)
    return None


def _open_and_write(i):
    """connect through the standard target, write one committed row -> (what happened, connection | None)"""
    import snowflake.connector as sc

    try:
        c = sc.connect(database="C20CONNS", schema="S")
        cur = c.cursor()
        cur.execute("create table if not exists T (A int)")
        cur.execute(f"insert into T values ({i})")
        n = cur.execute("select count(*) from T").fetchall()
        return ("ok", repr(n)), c
    except Exception as e:  # noqa: BLE001
        return ("err", exc_name(e)), None


def run_conns_scenario(block, seq, mode, storage, dbdir):
    import fakesnow
    import snowflake.connector as sc
    import snowflake.connector.pandas_tools as pt

    o = originals()
    force_restore()
    fresh_fakesnow()
    kw = {"db_path": dbdir} if storage == "db_path" else {}
    obs = {"block": block, "openers": list(seq), "exit": mode, "storage": storage}
    blockw = _Worker() if block != "main-thread" else None
    on_block = blockw.call if blockw else (lambda fn: fn())
    extra, conns, cm2 = [], [], None
    try:
        box = {}

        def enter():
            box["cm"] = fakesnow.patch(**kw)
            box["cm"].__enter__()

        try:
            on_block(enter)
            obs["enter_raised"] = None
        except Exception as e:  # noqa: BLE001
            obs["enter_raised"] = exc_name(e)
            return obs
        try:
            opened = []
            for i, who in enumerate(seq):
                if who == "block-thread":
                    res, c = on_block(lambda i=i: _open_and_write(i))
                elif who == "main-thread":
                    res, c = _open_and_write(i)
                else:
                    w = _Worker()
                    extra.append(w)
                    res, c = w.call(lambda i=i: _open_and_write(i))
                opened.append(res)
                conns.append(c)
            obs["opened"] = opened
            # the threads started inside the block end inside the block
            while extra:
                extra.pop().stop()
        finally:
            obs["exit_raised"] = on_block(lambda: _leave(box["cm"], mode))
        obs["restored"] = (sc.connect is o["connect"], pt.write_pandas is o["write_pandas"])
        obs["conns"] = [conn_state(c) for c in conns]
        # a new block with the same storage
        again = {}
        try:
            cm2 = fakesnow.patch(**kw)
            cm2.__enter__()
            again["enter"] = None
        except Exception as e:  # noqa: BLE001
            again["enter"] = exc_name(e)
            cm2 = None
        if cm2 is not None:
            try:
                c = sc.connect(database="C20CONNS", schema="S")
                again["select 1"] = repr(c.cursor().execute("select 1").fetchall())
                if storage == "db_path":
                    again["rows"] = repr(sorted(c.cursor().execute("select A from T").fetchall()))
            except Exception as e:  # noqa: BLE001
                again["error"] = exc_name(e)
        obs["again"] = again
        return obs
    finally:
        if cm2 is not None:
            with contextlib.suppress(BaseException):
                cm2.__exit__(None, None, None)
        for w in extra:
            w.stop()
        if blockw:
            blockw.stop()
        # whatever was left open must not reach the next scenario
        for c in conns:
            with contextlib.suppress(BaseException):
                c.close()
            with contextlib.suppress(BaseException):
                c._duck_conn.close()  # noqa: SLF001
        force_restore()


def judge_conns(obs):
    """-> [(clause, class, failed, detail)]"""
    res = []
    mode, storage, seq = obs["exit"], obs["storage"], obs["openers"]
    base = {"block_run_by": obs["block"], "connections_opened_by": seq, "exit": mode, "storage": storage}
    res.append(("C20.enter", f"after=start,storage={storage}", obs["enter_raised"] is not None, dict(base, raised=obs["enter_raised"])))
    if obs["enter_raised"] is not None:
        return res
    for who, r in zip(seq, obs["opened"]):
        res.append(("C20.inside", f"target=std-connect,called-by={who}", r[0] != "ok", dict(base, connect_and_write=list(r))))
    res.append(("C20.exit_clean", f"exit={mode}", obs["exit_raised"] is not None, dict(base, raised=obs["exit_raised"])))
    for k, ok in zip(("std-connect", "std-write_pandas"), obs["restored"]):
        res.append(("C20.restore_after_exit", f"target={k},exit={mode}", not ok, dict(base, target=k)))
    for j, (who, st) in enumerate(zip(seq, obs["conns"])):
        if st != "none":
            res.append(("C20.closed", f"opened-by={who},exit={mode},storage={storage}", st == "open", dict(base, connection=j, connection_after_exit=st)))
    if all(r[0] == "ok" for r in obs["opened"]):
        again = obs["again"]
        exp_rows = repr([(i,) for i in range(len(seq))])
        ok = again.get("enter") is None and again.get("select 1") == "[(1,)]" and (storage != "db_path" or again.get("rows") == exp_rows)
        who = "+".join(sorted(set(seq)))
        expected = {"enter": None, "select 1": "[(1,)]", **({"rows": exp_rows} if storage == "db_path" else {})}
        res.append(("C20.closed.storage_reusable", f"opened-by={who},exit={mode},storage={storage}", not ok, dict(base, new_block=again, expected=expected)))
    return res


def work_conns(item, acc, tier):
    _tag, block, mode, storage = item
    n = 0
    with sandbox("c20t", {}) as d:
        for j, seq in enumerate(conn_sequences(block, tier)):
            dbdir = os.path.join(d, f"db{j}")
            os.makedirs(dbdir)
            obs = run_conns_scenario(block, seq, mode, storage, dbdir)
            acc.count("evaluations")
            acc.count("traces")
            acc.count("transitions", 3 + len(seq))
            acc.count("patch_connection_scenarios")
            acc.obs(sorted(obs.items()))
            acc.outcome(("conns", obs.get("enter_raised"), obs.get("exit_raised"), tuple(obs.get("conns", ())), tuple(sorted((obs.get("again") or {}).items()))))
            acc.nontrivial(("conns", block, seq, mode, storage))
            for clause, cls, failed, detail in judge_conns(obs):
                acc.member(clause, cls, failed)
                if failed:
                    acc.violation(clause, cls, detail, {"part": "patch-conns", "block": block, "openers": list(seq), "exit": mode, "storage": storage})
            n += 1
        if (block, mode, storage) == ("main-thread", "normal", "memory"):
            acc.sample({"part": "patch-conns", "block_run_by": block, "exit": mode, "storage": storage, "connections_opened_by_each_of": [list(s) for s in conn_sequences(block, tier)]})
    return n


# =====================================================================================================================
# OPTIONS part (differential: patch(**o) vs FakeSnow(**o))
# =====================================================================================================================
OPTION_VALUES = {
    "create_database_on_connect": [True, False],
    "create_schema_on_connect": [True, False],
    "db_path": [None, "dir"],
    "nop_regexes": [None, ["^select c20_undefined_fn"]],
}


def option_combos():
    keys = list(OPTION_VALUES)
    return [dict(zip(keys, vals)) for vals in itertools.product(*(OPTION_VALUES[k] for k in keys))]


def _stmt(cur, sql):
    try:
        cur.execute(sql)
        return ("ok", repr(cur.fetchall()))
    except Exception as e:  # noqa: BLE001
        return ("err", exc_name(e))


def options_probe(connect):
    out = []
    try:
        c = connect(database="C20O", schema="S1")
        out.append(("connect", "ok"))
    except Exception as e:  # noqa: BLE001
        c = None
        out.append(("connect", "err", exc_name(e)))
    if c is not None:
        cur = c.cursor()
        for sql in ("create table T (A int)", "insert into T values (1),(2)", "select count(*) from T", "select c20_undefined_fn()"):
            out.append((sql,) + _stmt(cur, sql))
    try:
        c2 = connect()
        out.append(("connect()",) + _stmt(c2.cursor(), "select 1"))
    except Exception as e:  # noqa: BLE001
        out.append(("connect()", "err", exc_name(e)))
    return tuple(out)


def run_options(opts, d):
    import fakesnow
    import fakesnow.instance as inst
    import snowflake.connector as sc

    res = {}
    for side in ("patch", "direct"):
        dbdir = None
        if opts["db_path"]:
            dbdir = os.path.join(d, f"db-{side}")
            os.makedirs(dbdir, exist_ok=True)
        kw = dict(opts, db_path=dbdir)
        if side == "patch":
            with fakesnow.patch(**kw):
                out = options_probe(sc.connect)
        else:
            fs = inst.FakeSnow(**kw)
            try:
                out = options_probe(fs.connect)
            finally:
                with contextlib.suppress(Exception):
                    fs.duck_conn.close()
        files = tuple(sorted(f for f in os.listdir(dbdir) if not f.endswith(".wal"))) if dbdir else ()
        res[side] = (out, files)
    return res


def judge_options(opts, res):
    out = []
    p, dr = res["patch"], res["direct"]
    out.append(("C20.options", "differential", p != dr, {"options": opts, "patch": p, "direct": dr}))
    steps = dict((s[0], s[1:]) for s in p[0])
    if steps.get("connect") == ("ok",):
        nop_ok = steps.get("select c20_undefined_fn()", ("?",))[0] == "ok"
        out.append(("C20.options", "nop_regexes", nop_ok != bool(opts["nop_regexes"]), {"options": opts, "call": steps.get("select c20_undefined_fn()")}))
        if opts["create_database_on_connect"]:
            has = "C20O.db" in p[1]
            out.append(("C20.options", "db_path", has != bool(opts["db_path"]), {"options": opts, "files": p[1]}))
    return out


def work_options(item, acc, tier):
    opts = dict(item[1])
    with sandbox("c20o", {}) as d:
        os.chdir(d)
        res = run_options(opts, d)
        stray = sorted(f for f in os.listdir(d) if not f.startswith("db-"))
    acc.count("evaluations", 2)
    acc.count("option_combinations")
    acc.obs((sorted(opts.items(), key=repr), res))
    acc.outcome(("options", res["direct"]))
    acc.nontrivial(("options", repr(sorted(opts.items(), key=repr))))
    for clause, cls, failed, detail in judge_options(opts, res):
        acc.member(clause, cls, failed)
        if failed:
            acc.violation(clause, cls, detail, {"part": "options", "options": opts})
    if stray:
        acc.member("C20.options", "stray-files", True)
        acc.violation("C20.options", "stray-files", {"options": opts, "files_in_cwd": stray}, {"part": "options", "options": opts})
    return repr(res["direct"])


# =====================================================================================================================
# CLI part
# =====================================================================================================================
def cli_table():
    """fakesnow's option table, taken from the parser of the tree under test at run time"""
    import fakesnow.cli

    return ref.table_from_parser(fakesnow.cli.arg_parser())


def unknown_option(table):
    for cand in ("--flag", "--c20-unknown-option", "--zz-c20-unknown"):
        if ref.kind(cand, table) == "O" and ref.match_option(cand, table) is None and not any(s.startswith(cand) for o in table.options for s in o.strings):
            return cand
    raise core.HarnessError("C20: no spelling for an unknown option")


def tokens_for(table):
    """The token alphabet of the argv product: every spelling of every option the parser has (own options with and
    without value, the module option: separate / '=' / attached forms), plain values, an unknown option, '--'."""
    toks = [ts[0] for _form, ts in ref.own_option_forms(table, "x")]
    toks.append("x")
    toks += [ts[0] for _form, ts in ref.module_forms(table, "mod")]
    toks += ["mod", "script.py", "a", unknown_option(table), "--"]
    return list(dict.fromkeys(toks))


# today's alphabet, from the hand-written table (cross-check for the selftest; runs use tokens_for(cli_table()))
TOKENS = tokens_for(ref.DEFAULT_TABLE)
HAND_WRITTEN_TOKENS = [
    "-d", "--db_path", "--db_path=x", "-dx", "x",
    "-m", "--module", "--module=mod", "-mmod", "mod",
    "script.py", "a", "--flag", "--",
]  # fmt: skip
MAX_LEN = {"quick": 4, "thorough": 5}
BLOCK_TAIL = 2  # one work item = one prefix of length MAX_LEN - BLOCK_TAIL, extended by every tail of length <= BLOCK_TAIL

RECORDER = """import sys

import snowflake.connector
import snowflake.connector.pandas_tools

_s = sys.modules.get("_c20_sink")
if _s is not None:
    _s.records.append(
        {{
            "me": {me!r},
            "argv": list(sys.argv),
            "name": __name__,
            "connect_is_orig": snowflake.connector.connect is _s.orig_connect,
            "wp_is_orig": snowflake.connector.pandas_tools.write_pandas is _s.orig_wp,
        }}
    )
else:
    # run by a `python -m fakesnow` process of its own: the record goes to the file the harness names (the originals
    # are plain functions, the fakes are mock objects)
    import json
    import os
    import types

    import fakesnow

    with open(os.environ["C20_SINK_FILE"], "a") as _f:
        _f.write(
            json.dumps(
                {{
                    "me": {me!r},
                    "argv": list(sys.argv),
                    "name": __name__,
                    "connect_is_orig": isinstance(snowflake.connector.connect, types.FunctionType),
                    "wp_is_orig": isinstance(snowflake.connector.pandas_tools.write_pandas, types.FunctionType),
                    "fakesnow": fakesnow.__file__,
                }}
            )
            + "\\n"
        )
"""

E2E_TARGET = """import sys

import snowflake.connector

_s = sys.modules["_c20_sink"]
_c = snowflake.connector.connect(database="C20E2E", schema="S")
_c.cursor().execute("create table t (a int)")
_c.cursor().execute("insert into t values (1)")
_s.records.append({{"me": {me!r}, "argv": list(sys.argv), "name": __name__, "connect_is_orig": False, "wp_is_orig": False}})
"""

PATH_TOKENS = ["x", "mod", "script.py", "a", "b"]  # every token that can name a script
MODULE_TOKENS = sorted(PATH_TOKENS)  # every token / attached value that can name a module


def cli_files():
    files = {}
    for t in PATH_TOKENS:
        files[t] = RECORDER.format(me=["path", t])
    for t in MODULE_TOKENS:
        if "." in t:
            pkg, sub = t.split(".", 1)
            files[f"{pkg}/__init__.py"] = ""
            files[f"{pkg}/{sub}.py"] = RECORDER.format(me=["module", t])
        else:
            files[f"{t}.py"] = RECORDER.format(me=["module", t])
    files["c20e2e.py"] = E2E_TARGET.format(me=["path", "c20e2e.py"])
    files["c20e2e_mod.py"] = E2E_TARGET.format(me=["module", "c20e2e_mod"])
    return files


def run_cli(argv):
    """One real execution of fakesnow.cli.main(argv) in the current (scratch) directory."""
    import fakesnow
    import fakesnow.cli as cli
    import snowflake.connector as sc
    import snowflake.connector.pandas_tools as pt

    o = originals()
    sink = types.ModuleType("_c20_sink")
    sink.records, sink.patch_calls = [], []
    sink.orig_connect, sink.orig_wp = o["connect"], o["write_pandas"]
    sys.modules["_c20_sink"] = sink
    argv_obj, argv_val = sys.argv, list(sys.argv)
    path_obj, path_val = sys.path, list(sys.path)
    real_patch = fakesnow.patch

    def recording_patch(*a, **kw):
        sink.patch_calls.append(kw.get("db_path", a[3] if len(a) > 3 else None))
        return real_patch(*a, **kw)

    fakesnow.patch = recording_patch
    buf = io.StringIO()
    try:
        with contextlib.redirect_stdout(buf), contextlib.redirect_stderr(buf):
            try:
                rc = cli.main(list(argv))
                end = ("return", rc if isinstance(rc, int) else repr(rc))
            except SystemExit as e:
                end = ("sysexit", e.code if isinstance(e.code, int) else repr(e.code))
            except Exception as e:  # noqa: BLE001
                end = ("exc", exc_name(e))
    finally:
        fakesnow.patch = real_patch
        restored = (sc.connect is o["connect"], pt.write_pandas is o["write_pandas"])
        force_restore()
        sys.argv = argv_obj
        argv_obj[:] = argv_val
        sys.path = path_obj
        path_obj[:] = path_val
        for name in CLI_MODULE_NAMES:
            sys.modules.pop(name, None)
        for name in [n for n in sys.modules if n.startswith("script.")]:
            sys.modules.pop(name, None)
    return {"end": end, "records": sink.records, "patch_calls": sink.patch_calls, "restored": restored}


def cli_shape(p):
    last = p.opt_forms[-1] if p.opt_forms else "none"
    # (an empty string among the target's arguments is a shape of its own, whatever precedes the target: a launcher
    # that loses falsy arguments fails on every such line and on no other)
    if "" in p.targs:
        return f"target={p.target[0]},targs=n-with-empty-string"
    return f"last-opt={last},target={p.target_form},targs={'n' if p.targs else '0'}"


def judge_cli(argv, p, out, table=ref.DEFAULT_TABLE):
    """-> [(clause, class, failed, detail)]"""
    res = []
    recs = out["records"]
    seen = [{"target": r["me"], "argv": r["argv"]} for r in recs]
    base = {"argv": list(argv), "ran": seen, "main_ended": list(out["end"])}
    if p.status == "ok" and p.target is not None:
        good = len(recs) == 1 and recs[0]["me"] == list(p.target) and recs[0]["argv"][1:] == list(p.targs)
        accept_usage_error = bool(p.opt_forms) and p.opt_forms[-1] == ref.F_TERMINATOR and not recs and out["end"] == ("sysexit", 2)
        res.append(
            (
                "C20.cli.args",
                cli_shape(p),
                not (good or accept_usage_error),
                dict(base, expected={"target": list(p.target), "argv[1:]": list(p.targs)}),
            )
        )
        if good:
            r = recs[0]
            res.append(("C20.cli.fake_on", f"target={p.target[0]}", r["connect_is_orig"] or r["wp_is_orig"], base))
            calls = out["patch_calls"]
            if not calls:
                raise core.HarnessError(f"C20: target ran for {argv} but the wrapper around fakesnow.patch was not called (seam bypassed)")
            dbform = p.form_of_last("db_path")
            if len(set(p.db_paths)) <= 1:
                ok = calls == [p.db_path]
            else:
                ok = len(calls) == 1 and calls[0] in p.db_paths
            res.append(("C20.cli.db_path", f"db-opt={dbform}", not ok, dict(base, given=list(p.db_paths), patch_called_with=calls)))
    elif p.status in ("ok", "help"):
        res.append(("C20.cli.no_target", f"status={p.status}", bool(recs), base))
    else:
        specs = ref.target_specs(argv, table)
        bad = [r for r in recs if not any(r["me"] == list(t) and r["argv"][1:] == list(argv[j:]) for j, t in specs)]
        res.append(("C20.cli.malformed", f"status={p.status}", bool(bad), dict(base, why=p.why)))
    res.append(("C20.cli.restored", "after-main", not all(out["restored"]), dict(base, restored=list(out["restored"]))))
    return res


def argv_block(prefix, max_len, toks):
    """all sequences prefix+tail with len(tail) <= BLOCK_TAIL (and total length <= max_len), in a fixed order"""
    for k in range(0, min(BLOCK_TAIL, max_len - len(prefix)) + 1):
        for tail in itertools.product(toks, repeat=k):
            yield tuple(prefix) + tail


def argv_items(tier, toks):
    L = MAX_LEN[tier]
    K = max(L - BLOCK_TAIL, 0)
    items = [("argv", tuple(p), L) for p in itertools.product(toks, repeat=K)]
    if K > 0:
        items.append(("argv-short", K - 1, L))  # every sequence shorter than K
    return items


def expected_argv_count(tier, toks):
    return sum(len(toks) ** k for k in range(MAX_LEN[tier] + 1))


def shaped_lines(table):
    """Lines longer than the product reaches, by construction: every spelling of every own option (also none, and every
    ordered pair of spellings) directly before every way of naming the target (script path, each module form,
    `-- path`), followed by 0, 1 and 2 target arguments including ones that look like options (-m, --, -d, and every
    own option string)."""
    own = [("none", [])] + ref.own_option_forms(table, "x")
    targets = [("path", ["script.py"])] + ref.module_forms(table, "mod") + [("-- path", ["--", "script.py"])]
    arglists = [[], ["a"], ["-m"], ["--"], ["-d"], ["a", "b"], ["a", "-m"], ["-m", "x"], ["--", "a"], ["-d", "x"]]
    for o in table.options:
        if o.role == "own":
            for st in o.strings:
                arglists += [[st], [st, "x"], ["a", st]]
    arglists = [list(t) for t in dict.fromkeys(tuple(a) for a in arglists)]
    lines = []
    for _f, o in own:
        for _t, t in targets:
            for a in arglists:
                lines.append(tuple(o + t + a))
    for _f1, o1 in own[1:]:
        for _f2, o2 in own[1:]:
            for _t, t in targets:
                for a in ([], ["a"], ["a", "b"], ["-m", "x"]):
                    lines.append(tuple(o1 + o2 + t + a))
    return list(dict.fromkeys(lines))


SHAPED_CHUNKS = 16

# ---- the target's own arguments: "arbitrary target arguments" includes the falsy-looking ones -------------------------
# the empty string, '0', a blank, the option terminator, a plain word, and tokens that look like fakesnow's own options
TARG_TOKENS = ["", "0", " ", "--", "a", "-d", "-m"]
TARG_MAX_LEN = {"quick": 3, "thorough": 4}
TARG_CHUNKS = 16


def target_namings(table):
    """every way of naming the target: [(name, tokens)]"""
    return [("path", ["script.py"])] + ref.module_forms(table, "mod") + [("-- path", ["--", "script.py"])]


def targ_lines(table, tier):
    """[own option in each spelling | none] + [each way of naming the target] + every sequence of length
    1..TARG_MAX_LEN over TARG_TOKENS as the target's arguments (length 0 is among the shaped lines)"""
    own = [("none", [])] + ref.own_option_forms(table, "x")
    lines = []
    for _f, o in own:
        for _t, t in target_namings(table):
            for k in range(1, TARG_MAX_LEN[tier] + 1):
                for a in itertools.product(TARG_TOKENS, repeat=k):
                    lines.append(tuple(o + t) + a)
    return list(dict.fromkeys(lines))


# the same through the other entry point, `python -m fakesnow ...` in a process of its own (one process per line, so a
# smaller product): target named by path and by module, without and with an own option before it
PROC_CHUNKS = 16


def proc_lines(table, tier):
    own = ref.own_option_forms(table, "x")
    mods = ref.module_forms(table, "mod")
    bare = [["script.py"], mods[0][1]]  # path, first module form (-m mod)
    with_own = [own[-1][1] + ["script.py"], own[2 % len(own)][1] + mods[-2 % len(mods)][1]] if own else []
    n_bare, n_own = (2, 1) if tier == "quick" else (3, 2)
    lines = []
    for naming, n in [(b, n_bare) for b in bare] + [(w, n_own) for w in with_own]:
        for k in range(0, n + 1):
            for a in itertools.product(TARG_TOKENS, repeat=k):
                lines.append(tuple(naming) + a)
    # longer lists over the empty string and a word only (every position of the empty string among three / four)
    for naming in bare:
        for k in (n_bare + 1,) if tier == "quick" else (n_bare + 1, n_bare + 2):
            for a in itertools.product(["", "a"], repeat=k):
                lines.append(tuple(naming) + a)
    return list(dict.fromkeys(lines))


def run_cli_process(argv, d):
    """One real `python -m fakesnow <argv>` in a process of its own, in the scratch directory d."""
    import json
    import subprocess

    sink = os.path.join(d, f"_c20_sink_{os.getpid()}.jsonl")
    if os.path.exists(sink):
        os.remove(sink)
    env = dict(os.environ)
    env["C20_SINK_FILE"] = sink
    env["PYTHONPATH"] = os.pathsep.join([core.REPO] + [p for p in env.get("PYTHONPATH", "").split(os.pathsep) if p])
    env["PYTHONDONTWRITEBYTECODE"] = "1"
    r = subprocess.run([sys.executable, "-m", "fakesnow", *argv], cwd=d, env=env, capture_output=True, text=True, timeout=600)
    recs = []
    if os.path.exists(sink):
        with open(sink) as f:
            recs = [json.loads(line) for line in f if line.strip()]
        os.remove(sink)
    for rec in recs:
        f = os.path.realpath(rec.pop("fakesnow"))
        if not f.startswith(os.path.realpath(core.REPO) + os.sep):
            raise core.HarnessError(f"C20: `python -m fakesnow` ran {f}, expected the tree under {core.REPO}")
    return {"end": ("exit", r.returncode), "records": recs, "stderr_tail": r.stderr.strip()[-300:]}


def judge_cli_process(argv, p, out):
    """the target ran exactly once, as the fake, with exactly its own arguments"""
    recs = out["records"]
    base = {"command": ["python", "-m", "fakesnow", *argv], "ran": [{"target": r["me"], "argv": r["argv"]} for r in recs], "exit_code": out["end"][1], "stderr_tail": out["stderr_tail"]}
    good = len(recs) == 1 and recs[0]["me"] == list(p.target) and recs[0]["argv"][1:] == list(p.targs)
    res = [("C20.cli.args", cli_shape(p) + ",entry=python -m fakesnow", not good, dict(base, expected={"target": list(p.target), "argv[1:]": list(p.targs)}))]
    if good:
        res.append(("C20.cli.fake_on", f"target={p.target[0]},entry=python -m fakesnow", recs[0]["connect_is_orig"] or recs[0]["wp_is_orig"], base))
    return res


def check_argv_process(argv, acc, table, d):
    p = ref.parse(argv, table)
    if p.status != "ok" or p.target is None:
        raise core.HarnessError(f"C20: constructed line {argv} is not a well-formed line naming a target for the reference")
    out = run_cli_process(argv, d)
    acc.count("evaluations")
    acc.count("argv_process_lines")
    acc.count("argv_target_executions", len(out["records"]))
    acc.obs((argv, out["end"], tuple((tuple(r["me"]), tuple(r["argv"][1:]), r["connect_is_orig"]) for r in out["records"])))
    acc.nontrivial(("argv-process", argv))
    verdicts = judge_cli_process(argv, p, out)
    acc.outcome(("cli-process", cli_shape(p), out["end"], len(out["records"]), tuple(f for _c, _k, f, _d in verdicts)))
    for clause, cls, failed, detail in verdicts:
        acc.member(clause, cls, failed)
        if failed:
            acc.violation(clause, cls, detail, {"part": "cli-process", "argv": list(argv)})
    if argv == ("script.py", "a", "", "a"):
        acc.sample({"part": "cli-process", "command": ["python", "-m", "fakesnow", *argv], "target_saw": [r["argv"] for r in out["records"]]})
    return verdicts


SAMPLE_ARGV = ("--db_path=x", "script.py", "a")


def check_argv(argv, acc, table, counter="argv_sequences"):
    p = ref.parse(argv, table)
    out = run_cli(argv)
    acc.count("evaluations")
    acc.count(counter)
    acc.count(f"argv_{p.status}")
    if out["records"]:
        acc.count("argv_target_executions", len(out["records"]))
    summary = (out["end"], tuple((tuple(r["me"]), tuple(r["argv"][1:]), r["connect_is_orig"]) for r in out["records"]), tuple(out["patch_calls"]), out["restored"])
    acc.obs((argv, summary))
    if p.status == "ok" and p.target is not None:
        acc.nontrivial(("argv", argv))
        acc.add("argv_shapes", cli_shape(p))
    verdicts = judge_cli(argv, p, out, table)
    acc.outcome(("cli", p.status, cli_shape(p) if p.target else None, out["end"][0], len(out["records"]), tuple(f for _c, _k, f, _d in verdicts)))
    for clause, cls, failed, detail in verdicts:
        acc.member(clause, cls, failed)
        if failed:
            acc.violation(clause, cls, detail, {"part": "cli", "argv": list(argv)})
    if argv == SAMPLE_ARGV:
        acc.sample({"part": "cli", "argv": list(argv), "reference": {"status": p.status, "db_paths": list(p.db_paths), "target": p.target, "targs": list(p.targs)}, "observed": {"end": out["end"], "ran": [{"target": r["me"], "argv": r["argv"]} for r in out["records"]], "patch_db_path": out["patch_calls"]}})
    return verdicts


def work_argv(item, acc, tier):
    n = 0
    with sandbox("c20c", cli_files()) as d:
        os.chdir(d)
        table = cli_table()
        toks = tokens_for(table)
        counter = "argv_sequences"
        if item[0] == "argv":
            seqs = argv_block(item[1], item[2], toks)
        elif item[0] == "argv-short":
            seqs = (s for k in range(0, item[1] + 1) for s in itertools.product(toks, repeat=k))
        elif item[0] == "argv-targs":
            seqs = targ_lines(table, tier)[item[1] :: TARG_CHUNKS]
            counter = "argv_target_argument_lines"
        elif item[0] == "argv-proc":
            for argv in proc_lines(table, tier)[item[1] :: PROC_CHUNKS]:
                check_argv_process(tuple(argv), acc, table, d)
                n += 1
            return n
        else:
            seqs = shaped_lines(table)[item[1] :: SHAPED_CHUNKS]
            counter = "argv_shaped_lines"
        for argv in seqs:
            check_argv(tuple(argv), acc, table, counter)
            n += 1
    return n


# ---- end to end: the database file appears where -d says ------------------------------------------------------------
E2E_DB_FORMS = {
    ref.F_SHORT_SEP: ["-d", "c20dbdir"],
    ref.F_LONG_SEP: ["--db_path", "c20dbdir"],
    ref.F_LONG_EQ: ["--db_path=c20dbdir"],
    ref.F_SHORT_ATT: ["-dc20dbdir"],
    "none": [],
}
E2E_TARGETS = {"path": ["c20e2e.py"], "module": ["-m", "c20e2e_mod"]}


def e2e_items():
    return [("e2e", f, t) for f in E2E_DB_FORMS for t in E2E_TARGETS]


def run_e2e(form, tkind, d):
    argv = tuple(E2E_DB_FORMS[form] + E2E_TARGETS[tkind])
    os.makedirs(os.path.join(d, "c20dbdir"), exist_ok=True)
    out = run_cli(argv)
    files = tuple(sorted(f for f in os.listdir(os.path.join(d, "c20dbdir")) if not f.endswith(".wal")))
    stray = tuple(sorted(f for f in os.listdir(d) if f.endswith(".db") or f.endswith(".wal")))
    return argv, out, files, stray


def work_e2e(item, acc, tier):
    _tag, form, tkind = item
    with sandbox("c20e", cli_files()) as d:
        os.chdir(d)
        argv, out, files, stray = run_e2e(form, tkind, d)
    acc.count("evaluations")
    acc.count("cli_end_to_end_runs")
    acc.obs((argv, out["end"], files, stray, len(out["records"])))
    acc.outcome(("e2e", out["end"], files, stray))
    acc.nontrivial(("e2e", argv))
    p = ref.parse(argv)
    ran = len(out["records"]) == 1 and out["records"][0]["me"] == list(p.target)
    exp_files = ("C20E2E.db",) if form != "none" else ()
    failed = not ran or files != exp_files or bool(stray)
    cls = f"db-opt={form},e2e,target={tkind}"
    acc.member("C20.cli.db_path", cls, failed)
    if failed:
        acc.violation(
            "C20.cli.db_path",
            cls,
            {"argv": list(argv), "main_ended": list(out["end"]), "target_ran": ran, "files_in_db_path": files, "expected": exp_files, "db_files_in_cwd": stray},
            {"part": "e2e", "form": form, "target": tkind},
        )
    if form == ref.F_SHORT_SEP and tkind == "path":
        acc.sample({"part": "cli-e2e", "argv": list(argv), "files_in_db_path": files})
    return files


# =====================================================================================================================
# dispatch, run, replay
# =====================================================================================================================
def work(item, acc, tier):
    tag = item[0]
    if tag == "patch":
        return expand_patch(item, acc, tier)
    if tag == "patch-pairs":
        return work_pairs(item, acc, tier)
    if tag == "patch-combined":
        return work_combined(item, acc, tier)
    if tag == "patch-chain":
        return work_chain(item, acc, tier)
    if tag == "patch-conns":
        return work_conns(item, acc, tier)
    if tag in ("argv", "argv-short", "argv-shaped", "argv-targs", "argv-proc"):
        return work_argv(item, acc, tier)
    if tag == "options":
        return work_options(item, acc, tier)
    if tag == "e2e":
        return work_e2e(item, acc, tier)
    raise core.HarnessError(f"C20: unknown work item {item!r}")


def run(ctx: core.Ctx):
    tier = ctx.tier
    table = cli_table()
    toks = tokens_for(table)
    if table != ref.DEFAULT_TABLE or toks != HAND_WRITTEN_TOKENS:
        ctx.acc.note(
            "fakesnow.cli.arg_parser() no longer has exactly the hand-written option table (db_path, module, help): "
            f"the argv alphabet was derived from the parser: {toks}"
        )
    unmodelled = [o.dest for o in table.options if o.takes_value is None]
    if unmodelled or table.positionals != ("path", "targs"):
        ctx.acc.note(f"parser parts the reference does not model (lines using them are 'unspecified'): options {unmodelled}, positionals {list(table.positionals)}")
    ctx.rule = (
        "patch: BFS to fixpoint over (open blocks, status of every attribute of the not-yet-imported helper modules, "
        "attributes left non-original outside any block, last top-level event); every enabled operation (enter with each of the "
        f"{len(target_lists(tier))} target lists, leave normally, leave by exception) is executed on the real fakesnow.patch after "
        "replaying the state's history from a pristine interpreter state; non-trivial = transition that changes the "
        f"abstract state; each state is expanded from up to {HISTORIES_PER_STATE[tier]} different histories. cli: every token sequence of "
        f"length <= {MAX_LEN[tier]} over the {len(toks)} tokens derived from fakesnow.cli.arg_parser() (every spelling of "
        "every option) plus the constructed longer lines (each own-option spelling, singly and in ordered pairs, directly "
        "before each way of naming the target, with 0-2 target arguments) is run through the real fakesnow.cli.main against "
        "recorder targets; non-trivial = the reference names a target (the expectation is a concrete target and "
        "sys.argv). options: full product of patch() option values, patch() vs FakeSnow() differential."
    )
    ctx.assumptions = [
        "helper/target modules generated under /verif/.work are representative of user modules doing from-imports",
        "pristine state = originals reinstated, helper modules un-imported, fakesnow/__init__.py re-executed (whole "
        "package re-imported once per work item); a replay that leaves the first-visit states is a verdict "
        "(C20.state_after_history), not a harness error",
        "states with equal (open blocks, lazy-module status, leaked attributes, last event) have equal futures; "
        "cross-checked in the thorough tier by expanding each state from a second, different history",
        "the reference splitter encodes argparse's grammar for the option table (selftest/test_c20.py compares it with "
        "a hand-written table and with argparse itself)",
        "fakesnow.cli looks up fakesnow.patch at call time (the db_path seam); a bypass is a harness error, not a verdict",
    ]
    # ---- patch: BFS to fixpoint
    seen = {INITIAL: 1}
    frontier = [("patch", INITIAL, [], [])]
    depth = 0
    while frontier:
        res = ctx.pmap(work, frontier, chunk=1, recheck=False)
        if depth == 1:
            # determinism re-run (as core.pmap does it), but a difference is a verdict here: the harness has no clock,
            # no randomness and resets everything it knows of, so the same history behaving differently means the
            # implementation carries state across histories
            picks = [frontier[0]] + ([frontier[(ctx.seed * 7919 + 1) % len(frontier)]] if len(frontier) > 1 else [])
            for it in picks:
                fps = []
                for _ in range(2):
                    a = core.Acc()
                    work(it, a, tier)
                    fps.append(a.fingerprint())
                ctx.determinism.append({"item": core.jsonable(it[:3]), "identical": fps[0] == fps[1]})
                ctx.acc.member("C20.state_after_history", "rerun-of-same-history-differs", fps[0] != fps[1])
                if fps[0] != fps[1]:
                    ctx.acc.violation("C20.state_after_history", "rerun-of-same-history-differs", {"history": it[2]}, {"part": "patch-history", "history": it[2], "expected_trace": it[3]})
        cands = []
        for _item, succ in res:
            for st, hist, trace in succ:
                cands.append((_tuplify(st), [tuple(h) for h in hist], _tuplify(trace)))
        cands.sort(key=lambda x: (repr(x[0]), len(x[1]), repr(x[1])))
        keep, last = [], None
        for st, hist, trace in cands:
            if seen.get(st, 0) < HISTORIES_PER_STATE[tier] and (st, hist) != last:
                seen[st] = seen.get(st, 0) + 1
                keep.append(("patch", st, hist, list(trace)))
            last = (st, hist)
        frontier = keep
        depth += 1
    # ---- patch: every ordered pair of target lists (earlier block, later enter)
    ctx.pmap(work, [("patch-pairs", a) for a in target_lists(tier)], chunk=1)
    # ---- patch: every ordered pair of single targets in one target list, then the real targets
    ctx.pmap(work, [("patch-combined", a) for a in SINGLES], chunk=1)
    ctx.extra["patch_combined_target_lists"] = len(combined_pairs(tier))
    # ---- patch: target lists over helper modules that import each other
    ctx.pmap(work, [("patch-chain", t) for t in CHAIN_LISTS], chunk=1)
    ctx.extra["patch_chain_target_lists"] = {k: list(v) for k, v in CHAIN_LISTS.items()}
    # ---- patch: who opened a connection inside the block x exit kind x storage
    res = ctx.pmap(work, conn_items(), chunk=1)
    n_conns = sum(len(conn_sequences(b, tier)) for b in CONN_BLOCK_THREADS) * len(CONN_EXITS) * len(CONN_STORAGE)
    if sum(n for _i, n in res) != n_conns:
        raise core.HarnessError(f"C20: ran {sum(n for _i, n in res)} connection scenarios, there are {n_conns}")
    ctx.extra["patch_connection_scenarios"] = {"block_run_by": CONN_BLOCK_THREADS, "exits": CONN_EXITS, "storage": CONN_STORAGE, "openers": {b: conn_openers(b) for b in CONN_BLOCK_THREADS}, "max_connections": CONN_MAX_OPENERS[tier], "scenarios": n_conns}
    for st in seen:
        ctx.acc.add("states", st)
    ctx.acc.counters["patch_max_depth"] = depth
    # ---- options, cli end-to-end, argv product
    ores = ctx.pmap(work, [("options", tuple(sorted(o.items(), key=repr))) for o in option_combos()], chunk=1)
    by_combo = {repr(sorted(dict(it[1]).items(), key=repr)): r for it, r in ores}
    for key in OPTION_VALUES:  # the probe must be able to tell the values of every option apart (not vacuous)
        told_apart = False
        for o in option_combos():
            o2 = dict(o, **{key: [v for v in OPTION_VALUES[key] if v != o[key]][0]})
            if by_combo[repr(sorted(o.items(), key=repr))] != by_combo[repr(sorted(o2.items(), key=repr))]:
                told_apart = True
        if not told_apart:
            raise core.HarnessError(f"C20: the options probe cannot tell the values of {key} apart")
    ctx.pmap(work, e2e_items(), chunk=1)
    res = ctx.pmap(work, argv_items(tier, toks))
    enumerated = sum(n for _i, n in res)
    expected = expected_argv_count(tier, toks)
    if enumerated != expected or ctx.acc.counters.get("argv_sequences") != expected:
        raise core.HarnessError(f"C20: enumerated {enumerated} argv sequences, the stated space has {expected}")
    res = ctx.pmap(work, [("argv-shaped", k) for k in range(SHAPED_CHUNKS)], chunk=1)
    n_shaped = len(shaped_lines(table))
    if sum(n for _i, n in res) != n_shaped or ctx.acc.counters.get("argv_shaped_lines") != n_shaped:
        raise core.HarnessError(f"C20: ran {sum(n for _i, n in res)} constructed lines, there are {n_shaped}")
    res = ctx.pmap(work, [("argv-targs", k) for k in range(TARG_CHUNKS)], chunk=1)
    n_targs = len(targ_lines(table, tier))
    if sum(n for _i, n in res) != n_targs or ctx.acc.counters.get("argv_target_argument_lines") != n_targs:
        raise core.HarnessError(f"C20: ran {sum(n for _i, n in res)} target-argument lines, there are {n_targs}")
    res = ctx.pmap(work, [("argv-proc", k) for k in range(PROC_CHUNKS)], chunk=1, recheck=False)
    n_proc = len(proc_lines(table, tier))
    if sum(n for _i, n in res) != n_proc or ctx.acc.counters.get("argv_process_lines") != n_proc:
        raise core.HarnessError(f"C20: ran {sum(n for _i, n in res)} `python -m fakesnow` lines, there are {n_proc}")
    ctx.extra["argv_target_argument_tokens"] = TARG_TOKENS
    ctx.extra["argv_target_argument_lines"] = n_targs
    ctx.extra["argv_process_lines"] = n_proc
    ctx.exhaustive = True
    ctx.extra["bound"] = f"patch: fixpoint (frontier emptied at depth {depth}); argv: all sequences of length <= {MAX_LEN[tier]}"
    ctx.extra["argv_tokens"] = toks
    ctx.extra["argv_option_table"] = table.describe()
    ctx.extra["argv_constructed_lines"] = n_shaped
    ctx.extra["argv_max_len"] = MAX_LEN[tier]
    ctx.extra["argv_space"] = expected
    ctx.extra["argv_distinct_wellformed_shapes"] = len(ctx.acc.sets.get("argv_shapes", ()))
    ctx.extra["patch_target_lists"] = {k: (v[0] if isinstance(v[0], str) else list(v[0])) for k, v in TARGET_LISTS.items() if k in target_lists(tier)}
    ctx.extra["patch_helper_modules"] = HELPER_SRC
    ctx.extra["patch_states"] = len(seen)


def replay(payload):
    r = payload["replay"]
    part = r["part"]
    bad = []
    if part == "patch":
        hist = [tuple(h) for h in r["history"]]
        op = tuple(r["op"])
        with sandbox("c20r", {f"{m}.py": s for m, s in HELPER_SRC.items()}):
            pre, obs, post, imp, _trace = run_patch_history(hist, op)
        print("history:", hist, "op:", op)
        print("state before:", pre)
        print("observed:", {k: v for k, v in obs.items()})
        print("state after:", post)
        verdicts = judge_patch(pre, op, obs, imp)
    elif part == "patch-conns":
        with sandbox("c20r", {}) as d:
            obs = run_conns_scenario(r["block"], tuple(r["openers"]), r["exit"], r["storage"], d)
        print("observed:", obs)
        verdicts = judge_conns(obs)
    elif part == "patch-history":
        hist = [tuple(h) for h in r["history"]]
        with sandbox("c20r", {f"{m}.py": s for m, s in HELPER_SRC.items()}):
            _pre, _obs, _post, _imp, trace = run_patch_history(hist[:-1], hist[-1]) if hist else (None, None, None, None, [])
            if hist:
                trace = trace + [_post]
        print("history:", hist)
        for h, e, g in zip(hist, r["expected_trace"], trace):
            print("  after", h, "\n     first visit:", _tuplify(e), "\n     now:        ", g)
        div = divergence(hist, r["expected_trace"], trace)
        print("(a divergence caused by what an earlier history of the same process left behind does not show in a fresh process)")
        verdicts = [("C20.state_after_history", div[0] if div else "same-as-first-visit", bool(div), div[1] if div else {})]
    elif part == "cli":
        argv = tuple(r["argv"])
        with sandbox("c20r", cli_files()) as d:
            os.chdir(d)
            table = cli_table()
            p = ref.parse(argv, table)
            out = run_cli(argv)
        print("argv:", list(argv))
        print("reference:", p)
        print("observed:", out)
        verdicts = judge_cli(argv, p, out, table)
    elif part == "cli-process":
        argv = tuple(r["argv"])
        with sandbox("c20r", cli_files()) as d:
            os.chdir(d)
            table = cli_table()
            p = ref.parse(argv, table)
            out = run_cli_process(argv, d)
        print("command: python -m fakesnow", list(argv))
        print("reference:", p)
        print("observed:", out)
        verdicts = judge_cli_process(argv, p, out)
    elif part == "options":
        with sandbox("c20r", {}) as d:
            os.chdir(d)
            res = run_options(dict(r["options"]), d)
        print("options:", r["options"])
        print("patch():  ", res["patch"])
        print("FakeSnow():", res["direct"])
        verdicts = judge_options(dict(r["options"]), res)
    elif part == "e2e":
        with sandbox("c20r", cli_files()) as d:
            os.chdir(d)
            argv, out, files, stray = run_e2e(r["form"], r["target"], d)
        print("argv:", list(argv), "ended:", out["end"], "ran:", [x["me"] for x in out["records"]])
        print("files under db_path:", files, "db files in cwd:", stray)
        exp = ("C20E2E.db",) if r["form"] != "none" else ()
        verdicts = [("C20.cli.db_path", f"db-opt={r['form']},e2e,target={r['target']}", len(out["records"]) != 1 or files != exp or bool(stray), {})]
    else:
        raise core.HarnessError(f"unknown replay part {part!r}")
    for clause, cls, failed, detail in verdicts:
        print(("FAIL " if failed else "ok   ") + f"{clause} / {cls}" + (f"  {detail}" if failed else ""))
        if failed:
            bad.append((clause, cls))
    print("verdict:", bad or "ok")
    return bool(bad)
