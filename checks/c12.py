"""C12 — MERGE leaves the target as Snowflake's MERGE would, with true counts.

E2 (exhaustive finite product) with E1-style follow-up observations of the session:
every case sets the target/source/bystander contents through raw DuckDB, runs ONE MERGE statement (or a history of
two) through a fakesnow cursor, and compares, against the reference semantics in mc/ref/merge_ref.py,
  C12.no_exception     a MERGE of the domain executes (and one that must store NULL in a NOT NULL column raises) -- however the
                       source's name is spelled at its declaration and at the references (block J: src / SRC / "SRC" are one
                       Snowflake identifier, every mix is legal; "src" only with itself) x where the statement uses source
                       columns (ON only / bare in SET or VALUES / inside a larger expression / in a WHEN .. AND condition)
  C12.target_rows      target afterwards == reference (multiset; read through raw DuckDB on another connection)
  C12.touches_nothing_else   source rows, bystander rows, the list of (non-temporary) tables and every same-named table
                       in another schema / database (decoys of the target and source in the current schema) are unchanged
  C12.status_columns   the status row has exactly the columns of the clause kinds present
  C12.status_counts    each count == reference count, as int, 0 when none (one status row)
  C12.rowcount         cursor.rowcount == sum of the counts
  C12.atomic           if MERGE raises, the target equals its pre-state; a MERGE inside BEGIN..ROLLBACK leaves nothing,
                       inside BEGIN..COMMIT everything; no transaction is left open by the statement
                       -- whatever the session did BEFORE the MERGE (histories: how its last transaction ended: COMMIT /
                       ROLLBACK statements, conn.commit() / conn.rollback(), COMMIT on another cursor, an earlier MERGE
                       inside the transaction, a COMMIT the engine rejected; MERGE on the cursor that issued BEGIN or on
                       a new one): a failing MERGE leaves the target as it was for the session AND for a second
                       connection, a succeeding one is visible to the second connection at once
  C12.helper           afterwards the session owns no helper object: no temporary table or view (ground truth: the
                       harness creates none), `merge_candidates` resolves to nothing, SHOW TABLES / SHOW OBJECTS /
                       information_schema.tables do not list it
  C12.helper_user_table  a user table named merge_candidates is neither shadowed nor modified (rows, and the comment /
                       VARCHAR length recorded for it in fakesnow's side tables, i.e. what information_schema reports)

Domain (explicit alphabets below): deterministic merges only -- source keys are distinct, so no target row joins
two source rows; clause lists are the valid Snowflake ones (an unconditional clause is the last of its kind; NOT
MATCHED clauses see only the source).

A step of the harness that goes through the code under test before the MERGE (BEGIN / work / in-transaction MERGE / COMMIT /
ROLLBACK of a history, BEGIN of the tx scenarios, creation of the user's table) and raises is recorded as a violation
(class history_step_raised:history=..,step=.. / setup_step_raised:scenario=..,step=..), never as a harness error.

Not demanded: that a source name spelled as two DIFFERENT identifiers (declared "src", referenced src) is refused;
order of the status columns; `cursor.description` after MERGE (C06); the class/code of the exception
of a failing MERGE (C07); behaviour of nondeterministic merges, of clause lists Snowflake rejects; what is left of a
user transaction that the engine aborted because a MERGE inside it hit a constraint (a MERGE that fails inside an open
transaction WITHOUT aborting it must still be all-or-nothing for the session: class inside_open_transaction:*); row
order of the target.

Violation classes name the input shape (spelling / clause forms / data shape decided by the REFERENCE), never
fakesnow internals: `shape_cause` (spellings and expression forms the statement is refused for), `bare_or_leak`
(where reading `AND a OR b` as `(.. AND a) OR b` differs from the reference). A wrong target is labelled
`effect=clausewise_rejoin_on_key` only when it equals what the named alternative semantics
merge_ref.merge_clausewise_rejoin predicts; anything else is `unexplained:*` (never listed). Every class records its
members (acc.member), so a listed class that stops being homogeneous shows up in the evidence.
"""
from __future__ import annotations

import itertools

from mc import core, observe
from mc.ref import merge_ref as M
from mc.ref.sql3vl import lit

PID = "C12"
LEVEL = "exploration"

# ---- alphabets ------------------------------------------------------------------------------------------------------
TCOLS = ("k", "v")
T3COLS = ("k", "v", "w")  # w VARCHAR NOT NULL (scenario 'notnull')
SCOLS = ("k", "v", "f")
TKEYS = (1, 2, None)
TVALS = ("a", "b", None)  # v of the 1st / 2nd / 3rd target row
SRC = {1: (1, "S1", 1), 2: (2, "S2", 0), 3: (3, "S3", None), None: (None, "SN", 1)}  # key 3 never joins
SKEYS = (1, 2, 3, None)
BYST = [(9, "keep"), (None, None)]
USER_MC = [("42",)]  # user table merge_candidates (x varchar(10)) comment = 'mine'
SIDE = "select * from db1.information_schema.{} order by all"

ALL_TARGETS = [c for n in range(0, 4) for c in itertools.combinations_with_replacement(range(3), n)]  # 20 key multisets
ALL_SOURCES = [c for n in range(0, 4) for c in itertools.combinations(range(4), n)]  # 15 key sets


def target_rows(tk, three=False):
    return [(TKEYS[i], TVALS[p]) + ((f"w{p}",) if three else ()) for p, i in enumerate(tk)]


def source_rows(sk):
    return [SRC[SKEYS[i]] for i in sk]


ON = ("cmp", ("t", "k"), "=", ("s", "k"))
ON_REV = ("cmp", ("s", "k"), "=", ("t", "k"))
CONDS = {
    "src": ("cmp", ("s", "f"), "=", ("lit", 1)),
    "tgt": ("cmp", ("t", "v"), "=", ("lit", "a")),
    "both": ("or", ("cmp", ("s", "f"), "=", ("lit", 1)), ("cmp", ("t", "v"), "=", ("lit", "b"))),
}
COND_IDS = ("src", "tgt", "both")
# whole conditions of the form a OR b written without parentheses: WHEN MATCHED AND a OR b THEN ...
_TB = ("cmp", ("t", "v"), "=", ("lit", "b"))
CONDS["bor_t"] = ("bare_or", CONDS["src"], _TB)  # right operand looks at the target
CONDS["bor_s"] = ("bare_or", _TB, CONDS["src"])  # right operand looks at the source
CONDS["bor_n"] = ("bare_or", ("cmp", ("s", "f"), "=", ("lit", 0)), ("cmp", ("s", "k"), "=", ("lit", 2)))  # NOT MATCHED
BARE_OR_LISTS = [
    (("U", "bor_t", "src"),),
    (("D", "bor_t"), ("I", None, "cols")),
    (("I", None, "cols"), ("D", "bor_s")),
    (("D", "bor_s"), ("I", None, "cols")),
    (("U", "bor_s", "lit"), ("D", None), ("I", "src", "cols")),
    (("U", "tgt", "lit"), ("D", "bor_s"), ("I", None, "cols")),
    (("I", "bor_n", "cols"),),
    (("U", None, "src"), ("I", "bor_n", "cols")),
    (("I", "bor_n", "lit"), ("D", "src"), ("U", None, "src")),
    (("D", "src"), ("I", "bor_n", "lit"), ("U", None, "src")),
]
SETS = {
    "src": (("v", ("s", "v")),),
    "lit": (("v", ("lit", "u")),),
    "null": (("v", ("lit", None)),),
    "two": (("v", ("s", "v")), ("k", ("s", "k"))),
    "expr_tgt": (("v", ("concat", ("t", "v"), ("lit", "x"))),),
    "expr_both": (("v", ("concat", ("s", "v"), ("t", "v"))),),
    "expr_src": (("v", ("concat", ("s", "v"), ("lit", "x"))),),
    "key": (("k", ("lit", 2)),),
    "w_null": (("w", ("lit", None)),),  # scenario 'notnull' only
    "w_lit": (("w", ("lit", "nw")),),
}
INSERTS = {
    "cols": (("k", "v"), (("s", "k"), ("s", "v"))),
    "nocols": (None, (("s", "k"), ("s", "v"))),
    "lit": (("k", "v"), (("s", "k"), ("lit", "lit"))),
    "subset": (("k",), (("s", "k"),)),
    "reordered": (("v", "k"), (("s", "v"), ("s", "k"))),
    "expr_k": (("k", "v"), (("add", ("s", "k"), ("lit", 10)), ("s", "v"))),
    "expr_v": (("k", "v"), (("s", "k"), ("concat", ("s", "v"), ("lit", "x")))),
    "w_ok": (("k", "v", "w"), (("s", "k"), ("s", "v"), ("lit", "nw"))),  # scenario 'notnull' only
    # two columns, one value: the statement is rejected as a whole whatever the data (history / atomic cases only)
    "bad_arity": (("k", "v"), (("s", "k"),)),
}
# forms given to the 1st / 2nd / 3rd UPDATE resp. INSERT clause of a generated list (so that clauses are told apart)
SET_BY_POS = ("src", "lit", "null")
INS_BY_POS = ("cols", "lit", "subset")

KINDS = ("MU", "MD", "MUc", "MDc", "NI", "NIc")


def _valid_kinds(ks):
    m_closed = n_closed = False
    for c in ks:
        if c[0] == "M":
            if m_closed:
                return False
            m_closed = c in ("MU", "MD")
        else:
            if n_closed:
                return False
            n_closed = c == "NI"
    return True


KIND_LISTS = [ks for n in (1, 2, 3) for ks in itertools.product(KINDS, repeat=n) if _valid_kinds(ks)]  # 122


def mk_list(kinds, conds, sets=SET_BY_POS, inserts=INS_BY_POS):
    """kinds: tuple over KINDS; conds: condition ids handed to the conditional MATCHED clauses in order.
    -> clause spec list: ('U', cond_id|None, set_id) | ('D', cond_id|None) | ('I', cond_id|None, insert_id)"""
    out, ci, ui, ii = [], 0, 0, 0
    for k in kinds:
        c = None
        if k in ("MUc", "MDc"):
            c = conds[ci % len(conds)]
            ci += 1
        if k == "NIc":
            c = "src"
        if k[:2] == "MU":
            out.append(("U", c, sets[ui % len(sets)]))
            ui += 1
        elif k[:2] == "MD":
            out.append(("D", c))
        else:
            out.append(("I", c, inserts[ii % len(inserts)]))
            ii += 1
    return tuple(out)


def n_cond(kinds):
    return sum(1 for k in kinds if k in ("MUc", "MDc"))


def lists_injective():
    """every kind list x every injective assignment of the three conditions to its conditional MATCHED clauses"""
    out = []
    for ks in KIND_LISTS:
        n = n_cond(ks)
        for conds in itertools.permutations(COND_IDS, n) if n else [()]:
            out.append(mk_list(ks, conds or COND_IDS))
    return out


def lists_rotating():
    """every kind list once; the i-th list starts its conditions at COND_IDS[i % 3]"""
    return [mk_list(ks, COND_IDS[i % 3 :] + COND_IDS[: i % 3]) for i, ks in enumerate(KIND_LISTS)]


def clauses_ast(spec):
    out = []
    for c in spec:
        cond = CONDS[c[1]] if c[1] else None
        if c[0] == "U":
            out.append(("update", cond, SETS[c[2]]))
        elif c[0] == "D":
            out.append(("delete", cond))
        else:
            out.append(("insert", cond, INSERTS[c[2]][0], INSERTS[c[2]][1]))
    return tuple(out)


# spellings: target text, source text ({T} = target table name, kw applied to the sub-select), column qualifiers
def _title(s):
    return s.title()


KW = {"upper": str.upper, "lower": str.lower, "title": _title}
SUBQ = "({SELECT} k, v, f {FROM} s)"
SUBQ_F = "({SELECT} k, v, f {FROM} s {WHERE} f = 1)"
SPELLINGS = {
    # id: (target, tq, source, sq, keyword case, SET col qualified, ON reversed, subquery filter)
    "plain": ("{T}", "{T}", "s", "s", "upper", False, False, None),
    "lower": ("{T}", "{T}", "s", "s", "lower", False, False, None),
    "title": ("{T}", "{T}", "s", "s", "title", False, False, None),
    "on_rev": ("{T}", "{T}", "s", "s", "upper", False, True, None),
    "set_qual": ("{T}", "{T}", "s", "s", "upper", True, False, None),
    "ident_case": ("{T}", "{TU}", "s", "S", "upper", False, False, None),  # unquoted identifiers fold: T.k is t.k
    "alias_src": ("{T}", "{T}", "s {AS} src", "src", "upper", False, False, None),
    "alias_src_noas": ("{T}", "{T}", "s src", "src", "upper", False, False, None),
    "alias_tgt": ("{T} {AS} tgt", "tgt", "s", "s", "upper", False, False, None),
    "alias_tgt_setq": ("{T} {AS} tgt", "tgt", "s", "s", "upper", True, False, None),
    "alias_both": ("{T} {AS} tgt", "tgt", "s {AS} src", "src", "upper", False, False, None),
    "alias_both_noas": ("{T} tgt", "tgt", "s src", "src", "lower", False, False, None),
    "subq": ("{T}", "{T}", SUBQ + " {AS} src", "src", "upper", False, False, None),
    "subq_noas_lower": ("{T}", "{T}", SUBQ + " src", "src", "lower", False, False, None),
    "subq_filter": ("{T}", "{T}", SUBQ_F + " {AS} src", "src", "upper", False, False, CONDS["src"]),
    "subq_alias_tgt": ("{T} {AS} tgt", "tgt", SUBQ + " {AS} src", "src", "upper", True, False, None),
    "schema_q": ("s1.{T}", "{T}", "s1.s", "s", "upper", False, False, None),
    "db_q": ("db1.s1.{T}", "{T}", "db1.s1.s", "s", "upper", False, False, None),
    "db_q_full": ("db1.s1.{T}", "db1.s1.{T}", "db1.s1.s", "db1.s1.s", "upper", False, False, None),
    "db_q_tgt": ("db1.s1.{T}", "{T}", "s", "s", "upper", False, False, None),
    "db_q_tgt_full": ("db1.s1.{T}", "db1.s1.{T}", "s", "s", "upper", False, False, None),
    "db_q_src": ("{T}", "{T}", "db1.s1.s", "s", "upper", False, False, None),
    "db_q_src_alias": ("{T}", "{T}", "db1.s1.s {AS} src", "src", "upper", False, False, None),
    "db_q_alias_both": ("db1.s1.{T} {AS} tgt", "tgt", "db1.s1.s {AS} src", "src", "upper", False, False, None),
}
# Placement: the session's current database/schema is always db1.s1. In the spellings above every table lives there, so
# a qualifier that gets lost on the way is invisible. In the spellings below the real target and/or source live in
# another schema (db1.s2) or another database (db2.s1 -- same schema NAME as the current one -- and db2.s2) and are
# addressed by schema-qualified or fully qualified names; db1.s1 holds same-named DECOY tables with other contents, and
# every copy of t / t3 / s that is not the statement's target must stay unchanged (C12.touches_nothing_else).
SPELLINGS.update(
    {
        "x_schema_tgt": ("s2.{T}", "{T}", "s", "s", "upper", False, False, None),
        "x_schema_tgt_alias": ("s2.{T} {AS} tgt", "tgt", "s", "s", "upper", True, False, None),
        "x_db_tgt": ("db2.s2.{T}", "{T}", "s", "s", "upper", False, False, None),
        "x_db_tgt_lower": ("db2.s2.{T} tgt", "tgt", "s", "s", "lower", False, False, None),
        "x_db_tgt_full": ("db2.s2.{T}", "db2.s2.{T}", "s", "s", "upper", False, False, None),
        "x_db_tgt_same_schema_name": ("db2.s1.{T}", "{T}", "s", "s", "upper", False, False, None),
        "x_schema_src": ("{T}", "{T}", "s2.s", "s", "upper", False, False, None),
        "x_db_src": ("{T}", "{T}", "db2.s1.s", "s", "upper", False, False, None),
        "x_db_src_alias": ("{T}", "{T}", "db2.s2.s {AS} src", "src", "upper", False, False, None),
        "x_subq_src": ("{T}", "{T}", "({SELECT} k, v, f {FROM} s2.s) {AS} src", "src", "upper", False, False, None),
        "x_schema_both": ("s2.{T}", "{T}", "s2.s", "s", "upper", False, False, None),
        "x_db_both_alias": ("db2.s2.{T} {AS} tgt", "tgt", "s2.s {AS} src", "src", "upper", False, False, None),
    }
)
# where the real tables of a spelling live (default: the current schema)
HOME = "db1.s1"
LOCS = ("db1.s1", "db1.s2", "db2.s1", "db2.s2")
PLACEMENT = {
    "x_schema_tgt": ("db1.s2", HOME),
    "x_schema_tgt_alias": ("db1.s2", HOME),
    "x_db_tgt": ("db2.s2", HOME),
    "x_db_tgt_lower": ("db2.s2", HOME),
    "x_db_tgt_full": ("db2.s2", HOME),
    "x_db_tgt_same_schema_name": ("db2.s1", HOME),
    "x_schema_src": (HOME, "db1.s2"),
    "x_db_src": (HOME, "db2.s1"),
    "x_db_src_alias": (HOME, "db2.s2"),
    "x_subq_src": (HOME, "db1.s2"),
    "x_schema_both": ("db1.s2", "db1.s2"),
    "x_db_both_alias": ("db2.s2", "db1.s2"),
}
DECOY_T = [(1, "decoy1"), (3, "decoy3")]  # db1.s1.t / t3 when the real target lives elsewhere
DECOY_S = [(1, "D1", 0), (2, "D2", 1), (4, "D4", 1)]  # db1.s1.s when the real source lives elsewhere


def placement(spelling):
    return PLACEMENT.get(spelling, (HOME, HOME))


SPELLING_IDS = tuple(SPELLINGS)  # (the source-name spellings below are enumerated by their own block J, not by B-E)

# Spelling of the source's NAME at its declaration x at every reference. In the spellings above the name after USING
# and the qualifier in front of the source columns are the same text. Snowflake identifiers: an unquoted name denotes
# its upper-cased form, so  src, SRC and "SRC"  are ONE identifier and every mix of them is a legal way to declare the
# source / its alias and to refer to it; a quoted lower-case name "src" is a DIFFERENT identifier -- it matches only
# itself (an alias may be declared so; the stored table S cannot be named "s").
NAME_FORMS = {
    "lower": lambda n: n.lower(),
    "upper": lambda n: n.upper(),
    "quoted_upper": lambda n: '"' + n.upper() + '"',
    "quoted_lower": lambda n: '"' + n.lower() + '"',
}
SAME_IDENTIFIER = ("lower", "upper", "quoted_upper")
# how the source is declared: (text after USING with {N} = the name in the declaration's form, the name)
SRCNAME_DECLS = {
    "table": ("{N}", "s"),
    "table_schema_q": ("s1.{N}", "s"),
    "alias": ("s {AS} {N}", "src"),
    "alias_noas": ("s {N}", "src"),
    "subq_alias": (SUBQ + " {AS} {N}", "src"),
}
SRCNAME = {}  # spelling id -> (declaration kind, form at the declaration, form at the references)
for _kind, (_text, _name) in SRCNAME_DECLS.items():
    _pairs = [(d, r) for d in SAME_IDENTIFIER for r in SAME_IDENTIFIER]
    if _kind.startswith(("alias", "subq")):
        _pairs.append(("quoted_lower", "quoted_lower"))  # legal: the alias IS the lower-case identifier
    for _d, _r in _pairs:
        _id = f"sn:{_kind}:{_d}:{_r}"
        SRCNAME[_id] = (_kind, _d, _r)
        SPELLINGS[_id] = ("{T}", "{T}", _text.replace("{N}", NAME_FORMS[_d](_name)), NAME_FORMS[_r](_name), "upper", False, False, None)
# ... crossed with WHERE the statement uses source columns (beyond the ON condition, which always names s.k):
SRC_USE_LISTS = {
    "on_only": [
        (("D", None),),
        (("U", None, "lit"),),
        (("U", "tgt", "lit"), ("D", None)),
    ],
    "bare_in_set_or_values": [
        (("U", None, "src"),),
        (("I", None, "cols"),),
        (("U", None, "two"), ("I", None, "nocols")),
    ],
    "inside_expression": [
        (("U", None, "expr_src"),),
        (("U", None, "expr_both"),),
        (("I", None, "expr_v"),),
        (("I", None, "expr_k"),),
        (("D", None), ("I", None, "expr_v")),
    ],
    "in_when_condition": [
        (("D", "src"),),
        (("U", "both", "lit"),),
        (("I", "src", "lit"),),
        (("D", "src"), ("U", None, "lit"), ("I", "src", "subset")),
    ],
}


def source_use(spec):
    """where the clauses of `spec` use source columns (a function of the statement only) -> one of SRC_USE_LISTS' keys:
    inside a larger SET / VALUES expression  >  in a WHEN .. AND condition  >  bare in SET / VALUES  >  nowhere (ON only)"""
    bare, inexpr, cond = set(), set(), set()
    for c in clauses_ast(spec):
        cond |= M.refs(c[1], "s")
        exprs = [e for _col, e in c[2]] if c[0] == "update" else (list(c[3]) if c[0] == "insert" else [])
        for e in exprs:
            (bare if e[0] == "s" else inexpr).update(M.refs(e, "s"))
    if inexpr:
        return "inside_expression"
    if cond:
        return "in_when_condition"
    return "bare_in_set_or_values" if bare else "on_only"


QUICK_SPELLINGS = (
    "plain", "lower", "set_qual", "ident_case", "alias_src", "alias_tgt", "alias_both_noas", "subq", "subq_filter", "db_q",
    "db_q_full", "db_q_tgt", "db_q_tgt_full", "db_q_src",
    "x_schema_tgt", "x_schema_tgt_alias", "x_db_tgt", "x_db_tgt_same_schema_name", "x_schema_src", "x_db_src_alias",
    "x_subq_src", "x_db_both_alias",
)  # fmt: skip


def render(spec, spelling, tname="t"):
    tgt, tq, src, sq, kwid, setq, rev, _flt = SPELLINGS[spelling]
    kw = KW[kwid]
    words = {w: kw(w) for w in ("AS", "SELECT", "FROM", "WHERE")}
    tgt = tgt.format(T=tname, **words)
    src = src.format(T=tname, **words)
    return M.sql_merge(tgt, src, tq.format(T=tname, TU=tname.upper()), sq, ON_REV if rev else ON, clauses_ast(spec), kw=kw, set_qualified=setq)


# ---- input-shape predicates used by the classifier (functions of the case only) ---------------------------------------
def shape_cause(spec, spelling):
    """Named input shapes outside what the implementation accepts. -> (class, stage) or None.
    stage 'rejected': the statement is refused before anything is carried out; ('clause', i): clause i cannot be
    carried out (the clauses before it can); 'either': refused, or given up at the first clause (nothing is demanded
    about which, so such cases are not counted as members of the after-error helper class)."""
    if spelling in SRCNAME:
        # (these statements are all accepted today; the class only names the cell of the name-spelling dimension)
        _kind, d, r = SRCNAME[spelling]
        return f"source_name:declared={d},referenced={r},source_columns={source_use(spec)}", "either"
    tgt, _tq, src, _sq, kwid, _setq, _rev, _flt = SPELLINGS[spelling]
    has_delete = any(c[0] == "D" for c in spec)
    has_insert = any(c[0] == "I" for c in spec)
    src_is_table = not src.startswith("(")
    src_name = src.split(" ")[0]
    if src_is_table and " " in src:
        return "name=source_table_alias", "rejected"
    if src_is_table and "." in _sq:
        return "name=source_columns_fully_qualified", "either"
    if src_is_table and "." in src_name:
        return "name=source_table_qualified", "rejected"
    if " " in tgt and has_insert:
        return "name=target_alias,clause=not_matched", "rejected"
    if kwid != "upper" and has_delete:
        return "kw=delete_not_uppercase", "rejected"
    # a source column that appears only inside a larger SET / VALUES expression (never bare in ON, SET or VALUES)
    ast = clauses_ast(spec)
    bare = set(M.refs(ON, "s"))
    for c in ast:
        if c[0] == "update":
            bare |= {e[1] for _col, e in c[2] if e[0] == "s"}
        elif c[0] == "insert":
            bare |= {e[1] for e in c[3] if e[0] == "s"}
    for i, c in enumerate(ast):
        exprs = [e for _col, e in c[2]] if c[0] == "update" else (list(c[3]) if c[0] == "insert" else [])
        for e in exprs:
            if e[0] not in ("s", "t", "lit") and (M.refs(e, "s") - bare):
                return "expr=source_column_only_inside_expression", ("clause", i)
    return None


# ---- case enumeration -------------------------------------------------------------------------------------------------
# a case: (scenario, tk, sk, steps) with steps = ((clause spec, spelling), ...) executed in order in one session
# scenarios: 'plain' | 'follow' (reported helper visibility) | 'usertable' | 'notnull' | 'tx_rollback' | 'tx_commit'
TEMPLATES = {
    "U": (("U", None, "src"),),
    "D": (("D", None),),
    "I": (("I", None, "cols"),),
    "U_I": (("U", None, "src"), ("I", None, "cols")),
    "Dc_U_I": (("D", "src"), ("U", None, "src"), ("I", None, "cols")),
    "Uc_D": (("U", "tgt", "lit"), ("D", None)),
    "Dc_Ic": (("D", "both"), ("I", "src", "lit")),
    "Ic_I": (("I", "src", "cols"), ("I", None, "subset")),
}
NOTNULL_LISTS = [
    (("U", None, "src"), ("I", None, "cols")),  # INSERT leaves w NULL -> fails after the UPDATE
    (("D", None), ("I", None, "cols")),
    (("D", "src"), ("U", None, "src"), ("I", None, "cols")),
    (("I", None, "cols"), ("U", None, "src")),  # failing clause first
    (("D", "src"), ("U", None, "w_null")),  # UPDATE sets w NULL -> fails after the DELETE
    (("I", None, "w_ok"), ("U", None, "w_null")),
    (("U", "src", "w_lit"), ("D", "tgt"), ("I", None, "w_ok")),  # never fails
    (("U", None, "src"), ("I", "src", "w_ok"), ("I", None, "cols")),
]
# MERGEs on table t that cannot be carried out in a LATER clause although the clauses before it can (no constraint
# involved, so the engine does not abort an open transaction)
STATIC_FAIL_LISTS = [
    (("U", None, "src"), ("I", None, "bad_arity")),
    (("D", "src"), ("U", None, "lit"), ("I", None, "bad_arity")),
]
# What the session did BEFORE the MERGE: how its last transaction ended must not matter. The MERGE then runs outside a
# transaction (autocommit) -- except for 'open_tx' -- on the cursor that issued the BEGIN ('same') or on a new one.
HISTORIES = (
    "fresh",  # nothing
    "stmt_commit",  # BEGIN; work; COMMIT   as statements on one cursor
    "stmt_rollback",  # BEGIN; work; ROLLBACK as statements
    "conn_commit",  # BEGIN as statement; work; conn.commit()
    "conn_rollback",  # BEGIN as statement; work; conn.rollback()
    "other_cursor_commit",  # BEGIN on one cursor, COMMIT as statement on another cursor of the connection
    "merge_in_tx_conn_commit",  # BEGIN; a successful MERGE; conn.commit()
    "rejected_commit",  # BEGIN; insert a PRIMARY KEY value another session commits first; COMMIT raises
    "rejected_conn_commit",  # the same, the losing commit is conn.commit()
    "open_tx",  # BEGIN; work -- the MERGE runs INSIDE the open transaction, which is rolled back afterwards
)
HIST_CURSORS = ("same", "new")
HIST_WORK = "insert into b values (77, 'history')"

QUICK_CONTENTS = [
    ((0, 1, 2), (0, 1, 2)),  # keys 1,2,NULL vs 1,2,3
    ((0, 0, 1), (0, 1, 3)),  # duplicate target key 1; NULL source key
    ((0, 0, 0), (0, 2)),
    ((0, 1, 1), (1, 2, 3)),  # duplicate target key 2
    ((0, 1), (0, 1)),  # all match
    ((0, 1), (2, 3)),  # no match
    ((2, 2), (0, 3)),  # only NULL target keys
    ((), (0, 1, 3)),  # empty target
    ((0, 1, 2), ()),  # empty source
    ((), ()),
    ((1, 1, 2), (0, 1)),
    ((0,), (0,)),
    ((0, 0), (0,)),
    ((1, 1), (1, 3)),
    ((0, 2, 2), (3,)),
    ((0, 0, 1), (0, 1, 2)),
]
FORM_SOURCES = [(0, 1, 2), (0, 1, 3), (0, 3), (1,), ()]
SPELL_CONTENTS = [((0, 1, 2), (0, 1, 2)), ((0, 0, 1), (0, 1, 3)), ((), (0, 3)), ((0, 1), ())]


def enumerate_cases(tier):
    quick = tier == "quick"
    contents = QUICK_CONTENTS if quick else [(t, s) for t in ALL_TARGETS for s in ALL_SOURCES]
    spellings = QUICK_SPELLINGS if quick else SPELLING_IDS
    cases = []
    # A: semantics -- contents x clause lists, plain spelling
    if quick:
        a = [(c, lists_rotating()) for c in contents]
    else:
        inj = lists_injective()
        short, long3 = [x for x in inj if len(x) <= 2], [x for x in inj if len(x) == 3]
        rot3 = [x for x in lists_rotating() if len(x) == 3]
        a = [(c, short + rot3) for c in contents] + [(c, long3) for c in QUICK_CONTENTS]
    for (tk, sk), lists in a:
        for spec in lists:
            cases.append(("plain", tk, sk, ((spec, "plain"),)))
    # B: spellings x every kind list x a few contents
    rot = lists_rotating()
    blists = rot[::4] if quick else rot
    for sp in spellings:
        if sp == "plain":
            continue
        for spec in blists:
            for tk, sk in SPELL_CONTENTS[:2] if quick else SPELL_CONTENTS[:3]:
                cases.append(("plain", tk, sk, ((spec, sp),)))
    # C: SET / INSERT forms x contents (x spellings on two contents)
    set_ids = [s for s in SETS if not s.startswith("w_")]
    ins_ids = [s for s in INSERTS if not s.startswith("w_") and s != "bad_arity"]
    ccont = QUICK_CONTENTS[:6] if quick else [(t, s) for t in ALL_TARGETS for s in FORM_SOURCES]
    for tk, sk in ccont:
        for sid in set_ids:
            cases.append(("plain", tk, sk, (((("U", None, sid),), "plain"),)))
            cases.append(("plain", tk, sk, (((("U", "tgt", sid), ("D", None)), "plain"),)))
            cases.append(("plain", tk, sk, (((("D", "src"), ("U", None, sid), ("I", None, "cols")), "plain"),)))
        for iid in ins_ids:
            cases.append(("plain", tk, sk, (((("I", None, iid),), "plain"),)))
            cases.append(("plain", tk, sk, (((("U", None, "lit"), ("I", "src", iid)), "plain"),)))
    for sp in spellings:
        if sp == "plain":
            continue
        for tk, sk in SPELL_CONTENTS[:2]:
            for sid in set_ids:
                cases.append(("plain", tk, sk, (((("U", "src", sid), ("D", None)), sp),)))
            for iid in ins_ids:
                cases.append(("plain", tk, sk, (((("U", None, "lit"), ("I", None, iid)), sp),)))
    # D: all-or-nothing with a NOT NULL column
    for tk, sk in contents:
        for spec in NOTNULL_LISTS:
            cases.append(("notnull", tk, sk, ((spec, "plain"),)))
    for sp in ("subq", "db_q_tgt", "alias_tgt_setq", "x_schema_tgt", "x_db_both_alias") if not quick else ("subq", "x_db_tgt"):
        for tk, sk in SPELL_CONTENTS[:2]:
            for spec in NOTNULL_LISTS:
                cases.append(("notnull", tk, sk, ((spec, sp),)))
    # E: reported helper visibility / user table of the same name
    tmpl = ("U_I", "D", "Dc_U_I") if quick else tuple(TEMPLATES)
    for sp in spellings:
        for tn in tmpl:
            for tk, sk in SPELL_CONTENTS[:1] if quick else SPELL_CONTENTS[:3]:
                cases.append(("follow", tk, sk, ((TEMPLATES[tn], sp),)))
                cases.append(("usertable", tk, sk, ((TEMPLATES[tn], sp),)))
    for tk, sk in SPELL_CONTENTS[:2]:
        cases.append(("follow", tk, sk, ((NOTNULL_LISTS[0], "plain"),)))  # on table t: no failure
    # F: inside an explicit transaction
    for sc in ("tx_rollback", "tx_commit"):
        for tn in ("U_I", "Dc_U_I", "Uc_D") if quick else tuple(TEMPLATES):
            for tk, sk in QUICK_CONTENTS[:3] if quick else QUICK_CONTENTS:
                cases.append((sc, tk, sk, ((TEMPLATES[tn], "plain"),)))
    for sc in ("tx_rollback", "tx_commit"):
        for tk, sk in SPELL_CONTENTS[:2]:
            cases.append((sc, tk, sk, ((TEMPLATES["Dc_U_I"], "x_db_both_alias"),)))
    # G: two merges in one session (the second one finds whatever the first one left in the session)
    tns = ("U_I", "D", "Dc_Ic") if quick else tuple(TEMPLATES)
    for a in tns:
        for b in tns:
            for tk, sk in SPELL_CONTENTS[:2] if quick else QUICK_CONTENTS[:6]:
                cases.append(("plain", tk, sk, ((TEMPLATES[a], "plain"), (TEMPLATES[b], "subq"))))
                if not quick:
                    cases.append(("plain", tk, sk, ((TEMPLATES[a], "subq_filter"), (TEMPLATES[b], "plain"))))
    # H: whole conditions `a OR b` without parentheses
    for tk, sk in contents:
        for spec in BARE_OR_LISTS:
            cases.append(("plain", tk, sk, ((spec, "plain"),)))
    for sp in ("lower", "subq", "db_q_tgt"):
        for tk, sk in SPELL_CONTENTS[:2]:
            for spec in BARE_OR_LISTS:
                cases.append(("plain", tk, sk, ((spec, sp),)))
    # D': statically invalid later clause (autocommit): all or nothing
    for tk, sk in QUICK_CONTENTS[:4] if quick else contents:
        for spec in STATIC_FAIL_LISTS:
            cases.append(("plain", tk, sk, ((spec, "plain"),)))
    # I: session history before the MERGE x cursor x {MERGE failing in a later clause, succeeding MERGE}
    if quick:
        hl = [("t3", NOTNULL_LISTS[0]), ("t", STATIC_FAIL_LISTS[0]), ("t", TEMPLATES["U_I"])]
        hc = SPELL_CONTENTS[:2]
    else:
        hl = [("t3", x) for x in NOTNULL_LISTS] + [("t", x) for x in STATIC_FAIL_LISTS] + [("t", TEMPLATES[x]) for x in TEMPLATES]
        hc = SPELL_CONTENTS
    for h in HISTORIES:
        for c in HIST_CURSORS:
            for tn, spec in hl:
                for tk, sk in hc:
                    cases.append((f"hist:{h}:{c}:{tn}", tk, sk, ((spec, "plain"),)))
    # J: spelling of the source name at its declaration x at the references x where source columns are used
    for sp in SRCNAME:
        for use in SRC_USE_LISTS:
            for spec in SRC_USE_LISTS[use]:
                for tk, sk in SPELL_CONTENTS[:2] if quick else SPELL_CONTENTS:
                    cases.append(("plain", tk, sk, ((spec, sp),)))
    if not quick:
        for sp in SRCNAME:
            for tk, sk in SPELL_CONTENTS[:2]:
                cases.append(("follow", tk, sk, ((TEMPLATES["Dc_U_I"], sp),)))
                cases.append(("notnull", tk, sk, ((NOTNULL_LISTS[4], sp),)))
    # de-duplicate, keep first occurrence (deterministic order)
    seen, out = set(), []
    for c in cases:
        if c not in seen:
            seen.add(c)
            out.append(c)
    return out


# ---- real side ----------------------------------------------------------------------------------------------------------
_W = {}


def _vals(rows):
    return ", ".join("(" + ", ".join(lit(c) for c in r) + ")" for r in rows)


def _env():
    if "conn" not in _W:
        import fakesnow.instance as inst

        fs = inst.FakeSnow()
        conn = fs.connect(database="db1", schema="s1")
        cur = conn.cursor()
        cur.execute("create table t (k int, v varchar)")
        cur.execute("create table t3 (k int, v varchar, w varchar not null)")
        cur.execute("create table s (k int, v varchar, f int)")
        cur.execute("create table b (k int, v varchar)")
        cur.execute("create table pk (id int primary key)")
        cur.execute("create schema s2")
        cur.execute("create database db2")
        cur.execute("create schema db2.s1")
        cur.execute("create schema db2.s2")
        for loc in LOCS[1:]:
            cur.execute(f"create table {loc}.t (k int, v varchar)")
            cur.execute(f"create table {loc}.t3 (k int, v varchar, w varchar not null)")
            cur.execute(f"create table {loc}.s (k int, v varchar, f int)")
        raw = observe.raw(fs)
        raw.execute("insert into db1.s1.b values " + _vals(BYST))
        raw.execute("SET threads TO 1")  # 16 worker processes: one engine thread each (harness-side tuning only)
        _W.update(fs=fs, conn=conn, raw=raw, sess=observe.engine_conn(conn))
    return _W["conn"], _W["raw"], _W["sess"]


def _norm(rows):
    import decimal

    out = []
    for r in rows:
        out.append(tuple(int(x) if isinstance(x, decimal.Decimal) and x == x.to_integral_value() else x for x in r))
    return sorted(out, key=repr)


def _temp_objects(sess):
    return sorted(
        sess.execute("select table_name from duckdb_tables() where temporary").fetchall()
        + sess.execute("select view_name from duckdb_views() where temporary and not internal").fetchall()
    )


def _others(raw, tloc=HOME, tname="t", sloc=HOME):
    decoys = []
    for loc in LOCS:
        for tn in ("t", "t3", "s"):
            if (loc, tn) not in ((tloc, tname), (sloc, "s")):
                decoys.append((loc, tn, tuple(_norm(raw.execute(f"select * from {loc}.{tn}").fetchall()))))
    return {
        # every copy of t / t3 / s that is neither the statement's target nor its source
        "same_named_tables_elsewhere": tuple(decoys),
        "tables": tuple(
            raw.execute(
                "select database_name, schema_name, table_name, sql from duckdb_tables() "
                "where not internal and not temporary order by all"
            ).fetchall()
        ),
        "source": tuple(_norm(raw.execute(f"select * from {sloc}.s").fetchall())),
        "bystander": tuple(_norm(raw.execute("select * from db1.s1.b").fetchall())),
        # fakesnow's own record of comments / VARCHAR lengths (what information_schema reports)
        "side_tables": tuple(raw.execute(SIDE.format("_fs_tables_ext")).fetchall())
        + tuple(raw.execute(SIDE.format("_fs_columns_ext")).fetchall()),
    }


def _reset(conn, raw, sess, tname, trows, srows, user_mc, tloc=HOME, sloc=HOME):
    # leftovers of an earlier case (only possible after a violation): transaction, temp objects, user table
    try:
        sess.execute("ROLLBACK")
    except Exception:  # noqa: BLE001
        pass
    for (n,) in sess.execute("select table_name from duckdb_tables() where temporary").fetchall():
        sess.execute(f'drop table temp.main."{n}"')
    raw.execute("drop table if exists db1.s1.MERGE_CANDIDATES")
    for side in ("_fs_tables_ext", "_fs_columns_ext"):
        raw.execute(f"delete from db1.information_schema.{side} where ext_table_name = 'MERGE_CANDIDATES'")
    try:
        raw.execute("ROLLBACK")
    except Exception:  # noqa: BLE001
        pass
    for loc in LOCS:
        for tn in ("t", "t3", "s"):
            raw.execute(f"delete from {loc}.{tn}")
    raw.execute("delete from db1.s1.pk")
    if raw.execute("select count(*) from db1.s1.b").fetchall() != [(len(BYST),)]:  # a history case committed work
        raw.execute("delete from db1.s1.b")
        raw.execute("insert into db1.s1.b values " + _vals(BYST))
    if trows:
        raw.execute(f"insert into {tloc}.{tname} values " + _vals(trows))
    if srows:
        raw.execute(f"insert into {sloc}.s values " + _vals(srows))
    if tloc != HOME:  # same-named decoy in the current schema
        raw.execute(f"insert into {HOME}.{tname} values " + _vals([r + (("dw",) if tname == "t3" else ()) for r in DECOY_T]))
    if sloc != HOME:
        raw.execute(f"insert into {HOME}.s values " + _vals(DECOY_S))
    if user_mc:
        # through fakesnow, so that the table has a recorded comment and VARCHAR length like any user table
        _do("create_user_table", lambda: conn.cursor().execute("create table merge_candidates (x varchar(10)) comment = 'mine'"))
        raw.execute("insert into db1.s1.MERGE_CANDIDATES values " + _vals(USER_MC))


def _fs(cur, sql):
    try:
        cur.execute(sql)
        return ("ok", cur.fetchall())
    except Exception as e:  # noqa: BLE001
        return ("err", f"{type(e).__module__}.{type(e).__name__}", str(e).split("\n")[0][:100])


def _lists_helper(res, name_col):
    """does a SHOW / information_schema result list an object called merge_candidates?"""
    if res[0] != "ok":
        return None
    return any(str(r[name_col]).lower() == "merge_candidates" for r in res[1])


def execute_step(scenario, tname, sql, tloc=HOME, sloc=HOME):
    """run one MERGE on the worker's session and observe; pre-state must have been set. -> observation dict"""
    from snowflake.connector.cursor import DictCursor

    conn, raw, sess = _env()
    pre_t = _norm(raw.execute(f"select * from {tloc}.{tname}").fetchall())
    pre_others = _others(raw, tloc, tname, sloc)
    cur = conn.cursor()
    in_tx = scenario in ("tx_rollback", "tx_commit")
    if in_tx:
        _do("begin", lambda: cur.execute("BEGIN"))
    dc = conn.cursor(DictCursor)
    try:
        dc.execute(sql)
        status = dc.fetchall()
        got = ("ok", status, dc.rowcount)
    except Exception as e:  # noqa: BLE001
        got = ("err", f"{type(e).__module__}.{type(e).__name__}", str(e).split("\n")[0][:100])
    o = {"got": got, "pre_t": pre_t}
    if in_tx:
        # (after a failed statement DuckDB has aborted the user's transaction: nothing is demanded then, see docstring)
        try:
            o["own_view"] = _norm(sess.execute(f"select * from {tloc}.{tname}").fetchall())
        except Exception:  # noqa: BLE001
            o["own_view"] = "transaction aborted"
        o["tx_end"] = _fs(cur, "ROLLBACK" if scenario == "tx_rollback" else "COMMIT")[0]
    # did the statement leave a transaction open on the session?  (decided from effects: a raw ROLLBACK succeeds)
    try:
        sess.execute("ROLLBACK")
        o["tx_left_open"] = True
    except Exception:  # noqa: BLE001
        o["tx_left_open"] = False
    o["post_t"] = _norm(raw.execute(f"select * from {tloc}.{tname}").fetchall())
    post_others = _others(raw, tloc, tname, sloc)
    o["others_same"] = {k: v == pre_others[k] for k, v in post_others.items()}
    o["elsewhere_changed"] = [
        (a[0], a[1], list(a[2])) for b, a in zip(pre_others["same_named_tables_elsewhere"], post_others["same_named_tables_elsewhere"]) if a != b
    ]
    o["new_temp"] = _temp_objects(sess)  # the harness creates none and _reset removed all: anything here is a leftover
    if scenario == "follow":
        o["resolves"] = _fs(cur, "select * from merge_candidates")
        o["show_tables"] = _lists_helper(_fs(cur, "show tables"), 1)
        o["show_objects"] = _lists_helper(_fs(cur, "show objects"), 1)
        o["info_tables"] = _lists_helper(_fs(cur, "select table_name from information_schema.tables"), 0)
    if scenario == "usertable":
        o["side_after"] = [r for r in _others(raw)["side_tables"] if "MERGE_CANDIDATES" in r]
        o["user_seen"] = _fs(cur, "select * from merge_candidates")
        o["user_raw"] = _norm(raw.execute("select * from db1.s1.MERGE_CANDIDATES").fetchall())
    return o


# ---- oracle -------------------------------------------------------------------------------------------------------------
def _kinds_sig(spec):
    """the clause kinds present (not their order): keeps the number of `unexplained` classes of one breakage small"""
    return "".join(sorted({c[0] for c in spec}))


def bare_or_leak(pre, eff_src, tcols, ast):
    """Input-shape predicate for conditions written `a OR b` without parentheses. Reading `WHEN MATCHED AND a OR b` as
    `(matched AND a) OR b` -- instead of `matched AND (a OR b)` -- makes the clause claim rows on which b alone is TRUE:
    target rows that join nothing, source rows that join nothing (for a MATCHED clause), joined pairs (for a NOT
    MATCHED clause). This only says WHERE the two readings differ, from the inputs and the reference assignment:
    -> (counts_differ, rows_differ). The generated lists contain at most one such clause."""
    idx = [i for i, c in enumerate(ast) if c[1] is not None and c[1][0] == "bare_or"]
    if not idx:
        return False, False
    i = idx[0]
    c = ast[i]
    b = c[1][2]
    tassign, sassign = M.assign(pre, eff_src, tcols, SCOLS, ON, ast)
    counts = rows = False
    if c[0] in ("update", "delete"):
        for t, (j, _ci) in zip(pre, tassign):
            if j is None and M.ev(b, t, None, tcols, SCOLS) is True:
                counts = True  # an unjoined target row is claimed (and counted); nothing joins it, so no effect
        for s_, ci in zip(eff_src, sassign):
            if ci != "matched" and M.ev(b, None, s_, tcols, SCOLS) is True and not (ci is not None and ci < i):
                counts = True  # an unjoined source row is claimed by the MATCHED clause ...
                if ci is not None:
                    rows = True  # ... instead of being inserted by the later NOT MATCHED clause
    else:
        for t, (j, ci) in zip(pre, tassign):
            if j is not None and M.ev(b, None, eff_src[j], tcols, SCOLS) is True and not (ci is not None and ci < i):
                counts = rows = True  # a joined pair is claimed by the NOT MATCHED clause: inserted again
    return counts, rows


BARE_OR_CLASS = "cond=top_level_OR_without_parentheses"


def judge(scenario, tname, spec, spelling, srows, o):
    """-> (list of (clause, cls, detail), list of (clause, cls, failed) memberships, reference result)"""
    tcols = T3COLS if tname == "t3" else TCOLS
    not_null = ("w",) if tname == "t3" else ()
    flt = SPELLINGS[spelling][7]
    eff_src = [s for s in srows if flt is None or M.ev(flt, None, s, tcols, SCOLS) is True]
    ast = clauses_ast(spec)
    pre = [tuple(r) for r in o["pre_t"]]
    ref = M.merge(pre, eff_src, tcols, SCOLS, ON, ast, not_null=not_null)
    exp_rows = _norm(ref["rows"])
    viol, memb = [], []
    got = o["got"]
    cause = shape_cause(spec, spelling)
    total = sum(ref["counts"].values())
    leak_counts, leak_rows = bare_or_leak(pre, eff_src, tcols, ast)

    # which clause (statement order) cannot be carried out, if the statement must / is known to fail
    fail_clause = None
    if cause and cause[1] not in ("rejected", "either"):
        fail_clause = cause[1][1]
    elif not cause and ref["error"]:
        fail_clause = M.first_failing_clause(pre, eff_src, tcols, SCOLS, ON, ast, not_null)
    earlier_effects = fail_clause is not None and any(n > 0 for n in ref["per_clause"][:fail_clause])

    # -- C12.no_exception
    if cause and not ref["error"]:  # (where the reference demands an error, an error is not a failure of the member)
        memb.append(("C12.no_exception", cause[0], got[0] == "err"))
    if got[0] == "err" and not ref["error"]:
        if scenario in ("tx_rollback", "tx_commit"):
            # (inside the user's transaction the spelling is not what the case is about: one class per scenario)
            cls = f"in_transaction:merge_raised,scenario={scenario}"
        else:
            cls = cause[0] if cause else f"unexplained:{got[1].rsplit('.', 1)[-1]},spelling={spelling},clauses={_kinds_sig(spec)}"
        viol.append(("C12.no_exception", cls, {"got": got}))
    if got[0] == "ok" and ref["error"]:
        viol.append(("C12.no_exception", "null_stored_in_not_null_column", {"got": got}))

    expect_unchanged = got[0] == "err" or scenario == "tx_rollback"
    # -- C12.atomic
    if got[0] == "err":
        if earlier_effects:
            memb.append(("C12.atomic", "effects_of_clauses_before_the_failing_one_stay", o["post_t"] != o["pre_t"]))
        if o["post_t"] != o["pre_t"]:
            cls = "effects_of_clauses_before_the_failing_one_stay" if earlier_effects else "unexplained:changed_after_error"
            viol.append(("C12.atomic", cls, {"pre": o["pre_t"], "post": o["post_t"], "got": got}))
    if o["tx_left_open"]:
        viol.append(("C12.atomic", f"transaction_left_open,after={got[0]}", {"got": got}))
    if scenario in ("tx_rollback", "tx_commit") and got[0] == "ok":
        if o["own_view"] != exp_rows and _rejoin_label(pre, eff_src, tcols, ast, o["own_view"]) is None:
            viol.append(("C12.atomic", "in_transaction:own_view_differs", {"expected": exp_rows, "got": o["own_view"]}))
        want = o["pre_t"] if scenario == "tx_rollback" else exp_rows
        if o["post_t"] != want and (scenario == "tx_rollback" or _rejoin_label(pre, eff_src, tcols, ast, o["post_t"]) is None):
            viol.append(("C12.atomic", f"in_transaction:{scenario}", {"expected": want, "got": o["post_t"]}))

    # -- C12.target_rows (successful statements outside tx scenarios)
    if got[0] == "ok" and not expect_unchanged and scenario != "tx_commit":
        alt = M.merge_clausewise_rejoin(pre, eff_src, tcols, SCOLS, ON, ast)
        alt_rows = None if alt is None else _norm(alt)
        rejoin_applies = alt_rows != exp_rows
        if leak_rows and not rejoin_applies:
            memb.append(("C12.target_rows", BARE_OR_CLASS, o["post_t"] != exp_rows))
        elif rejoin_applies and not leak_rows and not leak_counts:
            memb.append(("C12.target_rows", "effect=clausewise_rejoin_on_key", o["post_t"] != exp_rows))
        if o["post_t"] != exp_rows:
            if rejoin_applies and alt_rows is not None and o["post_t"] == alt_rows:
                cls = "effect=clausewise_rejoin_on_key"
            elif leak_rows:
                cls = BARE_OR_CLASS
            else:
                cls = f"unexplained:spelling={spelling},clauses={_kinds_sig(spec)}"
            viol.append(("C12.target_rows", cls, {"before": o["pre_t"], "expected": exp_rows, "got": o["post_t"]}))

    # -- C12.touches_nothing_else
    for what, same in sorted(o["others_same"].items()):
        if what == "side_tables" and scenario == "usertable":
            continue  # judged below as part of C12.helper_user_table
        if not same:
            det = {"got": got, "now": o["elsewhere_changed"]} if what == "same_named_tables_elsewhere" else {"got": got}
            viol.append(("C12.touches_nothing_else", f"changed={what},after={got[0]}", det))

    # -- status row, rowcount
    if got[0] == "ok" and not ref["error"]:
        _, status, rc = got
        exp_cols = sorted(M.KIND_COLUMN[k] for k in ref["counts"])
        if len(status) != 1 or not isinstance(status[0], dict):
            viol.append(("C12.status_counts", "not_one_status_row", {"got": status}))
        else:
            row = status[0]
            if sorted(row) != exp_cols:
                viol.append(("C12.status_columns", f"clauses={_kinds_sig(spec)}", {"expected": exp_cols, "got": sorted(row)}))
            else:
                expv = {M.KIND_COLUMN[k]: n for k, n in ref["counts"].items()}
                bad = {c: row[c] for c in row if row[c] != expv[c] or type(row[c]) is not int}
                # (the all-NULL status row when nothing qualifies is one root cause whatever the clause conditions look like)
                if total == 0:
                    memb.append(("C12.status_counts", "counts=null_when_no_row_qualifies", bool(bad)))
                elif leak_counts:
                    memb.append(("C12.status_counts", BARE_OR_CLASS, bool(bad)))
                if bad:
                    if total == 0 and all(v is None for v in row.values()):
                        cls = "counts=null_when_no_row_qualifies"
                    elif leak_counts:
                        cls = BARE_OR_CLASS
                    elif all(row[c] == expv[c] for c in row):
                        cls = "unexplained:type=" + ",".join(sorted({type(v).__name__ for v in bad.values()}))
                    else:
                        cls = f"unexplained:clauses={_kinds_sig(spec)},spelling={spelling}"
                    viol.append(("C12.status_counts", cls, {"expected": expv, "got": row}))
            # (where the counts themselves are off for the reason above, rowcount is not judged a second time)
            if total != 1 and not leak_counts:
                memb.append(("C12.rowcount", "rowcount=number_of_status_rows", rc != total))
            if rc != total and not leak_counts:
                cls = "rowcount=number_of_status_rows" if rc == len(status) else "unexplained"
                viol.append(("C12.rowcount", cls, {"expected": total, "got": rc, "status": status}))

    # -- C12.helper
    if got[0] == "ok":
        stage = "after=success" if scenario != "tx_rollback" else "after=rolled_back"
    elif cause and cause[1] == "either":
        stage = "after=error_in_a_clause(?)"
    else:
        stage = "after=error_in_a_clause" if fail_clause is not None else "after=rejected_statement"
    counted = stage in ("after=success", "after=error_in_a_clause")
    seen = {}
    if o["new_temp"]:
        seen["temporary_objects_left"] = o["new_temp"]
    if scenario == "follow":
        if o["resolves"][0] == "ok":
            seen["merge_candidates_resolves"] = o["resolves"][1][:3]
        for k in ("show_tables", "show_objects", "info_tables"):
            if o[k]:
                seen[f"listed_by_{k}"] = True
    if counted:
        memb.append(("C12.helper", f"helper_left_in_session,{stage}", bool(seen)))
    if seen:
        viol.append(("C12.helper", f"helper_left_in_session,{stage.replace('(?)', '')}", seen))
    if scenario == "usertable":
        shadowed = o["user_seen"] != ("ok", [tuple(r) for r in USER_MC])
        if counted:
            memb.append(("C12.helper_user_table", f"shadowed,{stage}", shadowed))
        if shadowed:
            viol.append(("C12.helper_user_table", f"shadowed,{stage}", {"select * from merge_candidates": o["user_seen"]}))
        if o["user_raw"] != _norm(USER_MC):
            viol.append(("C12.helper_user_table", f"modified,{stage}", {"got": o["user_raw"]}))
        lost = not o["others_same"]["side_tables"]
        if counted:
            memb.append(("C12.helper_user_table", f"comment_and_lengths_lost,{stage}", lost))
        if lost:
            viol.append(("C12.helper_user_table", f"comment_and_lengths_lost,{stage}", {"user table": "merge_candidates (x varchar(10)) comment = 'mine'", "side tables": o["side_after"]}))
    return viol, memb, ref


# ---- session history before the MERGE ---------------------------------------------------------------------------------------
def _quiet(f):
    try:
        f()
        return "ok"
    except Exception as e:  # noqa: BLE001
        return type(e).__name__


class StepRaised(Exception):
    """a step of the harness that goes through the code under test (BEGIN / COMMIT / ROLLBACK / work of a history, the
    MERGE of a history, the creation of the user table) raised: that is an observation, not a harness error"""

    def __init__(self, step, exc):
        super().__init__(step)
        self.step = step
        self.what = (f"{type(exc).__module__}.{type(exc).__name__}", str(exc).split("\n")[0][:100])


def _do(step, f):
    try:
        return f()
    except Exception as e:  # noqa: BLE001
        raise StepRaised(step, e) from None


def run_history(history, conn2, cur, raw, tname):
    """carry out the history on a fresh connection; -> what happened (part of the observation).
    Raises StepRaised(step kind) when a step that must succeed raises."""
    log = []
    if history == "fresh":
        return log
    _do("begin", lambda: cur.execute("BEGIN"))
    if history in ("rejected_commit", "rejected_conn_commit"):
        _do("work", lambda: cur.execute("insert into pk values (1)"))
        raw.execute("BEGIN")
        raw.execute("insert into db1.s1.pk values (1)")
        raw.execute("COMMIT")  # the other session wins
        # the loser's commit is rejected by the engine (whether and how it raises is not this property's subject)
        log.append(_quiet((lambda: cur.execute("COMMIT")) if history == "rejected_commit" else conn2.commit))
        return log
    if history == "merge_in_tx_conn_commit":
        _do("merge", lambda: cur.execute(render(TEMPLATES["U"], "plain", tname)))
    else:
        _do("work", lambda: cur.execute(HIST_WORK))
    if history == "stmt_commit":
        _do("commit_statement", lambda: cur.execute("COMMIT"))
    elif history == "stmt_rollback":
        _do("rollback_statement", lambda: cur.execute("ROLLBACK"))
    elif history in ("conn_commit", "merge_in_tx_conn_commit"):
        _do("conn_commit", conn2.commit)
    elif history == "conn_rollback":
        _do("conn_rollback", conn2.rollback)
    elif history == "other_cursor_commit":
        _do("commit_statement_on_other_cursor", lambda: conn2.cursor().execute("COMMIT"))
    return log  # open_tx: left open


def hist_case(item, acc: core.Acc):
    """('hist:<history>:<cursor>:<table>', tk, sk, ((spec, spelling),)): history, then ONE MERGE, on a connection of its
    own (so that nothing a history leaves in the session can leak into another case)."""
    from snowflake.connector.cursor import DictCursor

    scenario, tk, sk, steps = item
    _h, history, which, tname = scenario.split(":")
    (spec, spelling), = steps
    conn, raw, sess0 = _env()
    trows, srows = target_rows(tk, three=tname == "t3"), source_rows(sk)
    _reset(conn, raw, sess0, tname, trows, srows, False)
    try:
        conn2 = _do("connect", lambda: _W["fs"].connect(database="db1", schema="s1"))
    except StepRaised as e:
        return _history_step_raised(item, acc, e, history, "(not reached)")
    try:
        sess = observe.engine_conn(conn2)
        sql = render(spec, spelling, tname)
        try:
            cur = _do("cursor", lambda: conn2.cursor(DictCursor))
            hlog = run_history(history, conn2, cur, raw, tname)
            mcur = cur if which == "same" else _do("cursor", lambda: conn2.cursor(DictCursor))
        except StepRaised as e:
            return _history_step_raised(item, acc, e, history, sql)
        # pre-state: what the session sees now (inside open_tx that includes its pending work)
        pre_t = _norm(sess.execute(f"select * from db1.s1.{tname}").fetchall())
        pre_committed = _norm(raw.execute(f"select * from db1.s1.{tname}").fetchall())
        pre_others = _others(raw, HOME, tname, HOME)
        try:
            mcur.execute(sql)
            status = mcur.fetchall()
            got = ("ok", status, mcur.rowcount)
        except Exception as e:  # noqa: BLE001
            got = ("err", f"{type(e).__module__}.{type(e).__name__}", str(e).split("\n")[0][:100])
        o = {"got": got, "pre_t": pre_t, "history": hlog}
        # the session's own view, through fakesnow, on the cursor that ran the MERGE
        view = _fs(mcur, f"select * from {tname}")
        o["session_view"] = _norm([tuple(r.values()) for r in view[1]]) if view[0] == "ok" else view
        o["resolves"] = _fs(mcur, "select * from merge_candidates")
        o["temp_in_tx"] = _temp_objects(sess) if history == "open_tx" and view[0] == "ok" else []
        if history == "open_tx":
            o["tx_end"] = _quiet(conn2.rollback)
        try:
            sess.execute("ROLLBACK")
            o["tx_left_open"] = True
        except Exception:  # noqa: BLE001
            o["tx_left_open"] = False
        # what a second connection sees, at once
        o["post_t"] = _norm(raw.execute(f"select * from db1.s1.{tname}").fetchall())
        post_others = _others(raw, HOME, tname, HOME)
        o["others_same"] = {k: v == pre_others[k] for k, v in post_others.items()}
        o["elsewhere_changed"] = []
        o["new_temp"] = _temp_objects(sess)
        o["show_tables"] = o["show_objects"] = o["info_tables"] = False
    finally:
        _quiet(conn2.close)
    acc.count("evaluations")
    acc.count("merges_executed")
    acc.count("history_cases")

    tag = "" if history == "fresh" else f",history={history},cursor={which}"
    viol, memb = [], []
    if history != "open_tx":
        v0, m0, ref = judge("follow", tname, spec, spelling, srows, o)
        exp_view = _norm(ref["rows"]) if got[0] == "ok" else pre_t
        for clause, cls, detail in v0:
            hist_dependent = clause in ("C12.atomic", "C12.helper", "C12.helper_user_table")
            viol.append((clause, cls + (tag if hist_dependent else ""), detail))
        memb = [m for m in m0 if not (tag and m[0] in ("C12.atomic", "C12.helper", "C12.helper_user_table"))]
        # the session itself sees what the second connection sees (nothing pending, nothing hidden)
        if o["session_view"] != o["post_t"]:
            viol.append(("C12.atomic", f"session_and_second_connection_disagree{tag}", {"session": o["session_view"], "second connection": o["post_t"], "expected": exp_view}))
    else:
        # inside the user's open transaction (rolled back afterwards). Demanded: the statement as seen by the session is
        # all-or-nothing; after the user's ROLLBACK nothing of it (nor of the history) is left for anyone.
        tcols = T3COLS if tname == "t3" else TCOLS
        ast = clauses_ast(spec)
        ref = M.merge([tuple(r) for r in pre_t], srows, tcols, SCOLS, ON, ast, not_null=("w",) if tname == "t3" else ())
        exp_rows = _norm(ref["rows"])
        fail_clause = M.first_failing_clause([tuple(r) for r in pre_t], srows, tcols, SCOLS, ON, ast, ("w",) if tname == "t3" else ()) if ref["error"] else None
        earlier = fail_clause is not None and any(n > 0 for n in ref["per_clause"][:fail_clause])
        if (got[0] == "err") != ref["error"]:
            viol.append(("C12.no_exception", f"unexplained:inside_open_transaction,{got[0]}", {"got": got}))
        elif isinstance(o["session_view"], list):  # (after a constraint error the engine has aborted the transaction)
            pending = got[0] == "err" and ref.get("static_error") is not None
            if pending and earlier:
                memb.append(("C12.atomic", "inside_open_transaction:effects_of_earlier_clauses_stay_pending", o["session_view"] != pre_t))
            if pending:
                memb.append(("C12.helper", "inside_open_transaction:helper_left_after_failed_merge", bool(o["temp_in_tx"])))
            rejoin = None if ref.get("static_error") is not None else _rejoin_label([tuple(r) for r in pre_t], srows, tcols, ast, o["session_view"])
            if o["session_view"] != exp_rows and rejoin is None:
                cls = "inside_open_transaction:effects_of_earlier_clauses_stay_pending" if pending and earlier else "unexplained:inside_open_transaction"
                viol.append(("C12.atomic", cls, {"session sees": o["session_view"], "expected": exp_rows, "got": got}))
            if o["temp_in_tx"] or o["resolves"][0] == "ok":
                cls = "inside_open_transaction:helper_left_after_failed_merge" if pending else f"unexplained:inside_open_transaction,after={got[0]}"
                viol.append(("C12.helper", cls, {"temporary objects": o["temp_in_tx"], "resolves": o["resolves"][0]}))
        if o["post_t"] != pre_committed or not all(o["others_same"].values()) or o["new_temp"] or o["tx_left_open"]:
            viol.append(("C12.atomic", "inside_open_transaction:something_left_after_user_rollback", {"second connection": o["post_t"], "before": pre_committed, "others_same": o["others_same"], "temp": o["new_temp"], "tx_left_open": o["tx_left_open"]}))
    acc.obs((item, sorted((k, repr(v)) for k, v in o.items())))
    acc.outcome(("hist", history, which, got[0], got[1] if got[0] == "err" else repr(got[1]), len(o["post_t"])))
    if sum(ref["counts"].values()) > 0 or ref["error"]:
        acc.nontrivial((scenario, tuple(map(tuple, pre_t)), sk, spec, spelling))
    acc.sample({"scenario": scenario, "sql": sql, "target": trows, "source": srows, "observed": got, "session_view": o["session_view"], "second_connection": o["post_t"]}, cap=4)
    for clause, cls, failed in memb:
        acc.member(clause, cls, failed)
    rp = {"case": item, "step": 0, "sql": sql}
    for clause, cls, detail in viol:
        acc.violation(clause, cls, dict(detail, sql=sql, scenario=scenario, target_before=pre_t, source=srows, history=hlog), rp)
    return [(got[0], len(viol))]


def _history_step_raised(item, acc, e, history, sql):
    """the code under test raised in a step BEFORE the MERGE under test (so that MERGE was not run): the in-transaction
    MERGE of a history -> C12.no_exception; BEGIN / work / COMMIT / ROLLBACK / connect -> C12.atomic (what the session did
    before must not matter, and here it could not even be done). The class names the history and the step kind."""
    acc.count("evaluations")
    acc.count("history_cases")
    acc.obs((item, "history_step_raised", e.step, e.what))
    acc.outcome(("hist", history, "step_raised", e.step, e.what[0]))
    clause = "C12.no_exception" if e.step == "merge" else "C12.atomic"
    detail = {"step": e.step, "raised": e.what, "scenario": item[0], "merge_not_reached": sql}
    acc.violation(clause, f"history_step_raised:history={history},step={e.step}", detail, {"case": item, "step": 0, "sql": sql})
    return [("step_raised", 1)]


def _setup_step_raised(item, acc, e, si, sql):
    """the same for the scenario set-up of the other cases: the user's BEGIN of the tx_* scenarios (C12.atomic), the
    creation of the user's own table merge_candidates (C12.helper_user_table)"""
    acc.count("evaluations")
    acc.obs((item, si, "setup_step_raised", e.step, e.what))
    acc.outcome(("step_raised", item[0], e.step, e.what[0]))
    clause = "C12.helper_user_table" if e.step == "create_user_table" else "C12.atomic"
    detail = {"step": e.step, "raised": e.what, "scenario": item[0], "merge_not_reached": sql}
    acc.violation(clause, f"setup_step_raised:scenario={item[0]},step={e.step}", detail, {"case": item, "step": si, "sql": sql})
    return ("step_raised", 1)


def _rejoin_label(pre, eff_src, tcols, ast, observed):
    alt = M.merge_clausewise_rejoin(pre, eff_src, tcols, SCOLS, ON, ast)
    return "rejoin" if alt is not None and _norm(alt) == observed else None


def case(item, acc: core.Acc, tier):
    scenario, tk, sk, steps = item
    if scenario.startswith("hist:"):
        return hist_case(item, acc)
    tname = "t3" if scenario == "notnull" else "t"
    conn, raw, sess = _env()
    trows, srows = target_rows(tk, three=tname == "t3"), source_rows(sk)
    tloc, sloc = placement(steps[0][1])
    assert all(placement(sp) == (tloc, sloc) for _spec, sp in steps), "the steps of one case share their tables"
    out = []
    try:
        _reset(conn, raw, sess, tname, trows, srows, scenario == "usertable", tloc, sloc)
    except StepRaised as e:
        return [_setup_step_raised(item, acc, e, 0, render(steps[0][0], steps[0][1], tname))]
    for si, (spec, spelling) in enumerate(steps):
        sql = render(spec, spelling, tname)
        try:
            o = execute_step(scenario, tname, sql, tloc, sloc)
        except StepRaised as e:
            out.append(_setup_step_raised(item, acc, e, si, sql))
            break
        acc.count("evaluations")
        acc.count("merges_executed")
        viol, memb, ref = judge(scenario, tname, spec, spelling, srows, o)
        acc.obs((item, si, sorted(o.items())))
        acc.outcome((o["got"][0], o["got"][1] if o["got"][0] == "err" else tuple(sorted(o["got"][1][0].items())) if o["got"][1] else (), len(o["post_t"])))
        if sum(ref["counts"].values()) > 0 or ref["error"]:
            acc.nontrivial((scenario, tuple(map(tuple, o["pre_t"])), sk, spec, spelling))
        if si == 0:
            acc.sample({"scenario": scenario, "target": trows, "source": srows, "sql": sql, "expected_rows": ref["rows"],
                        "expected_counts": ref["counts"], "observed": o["got"], "target_after": o["post_t"]}, cap=3)  # fmt: skip
        for clause, cls, failed in memb:
            acc.member(clause, cls, failed)
        rp = {"case": item, "step": si, "sql": sql}
        for clause, cls, detail in viol:
            detail = dict(detail, sql=sql, scenario=scenario, target_before=o["pre_t"], source=srows)
            acc.violation(clause, cls, detail, rp)
        out.append((o["got"][0], len(viol)))
    return out


def run(ctx: core.Ctx):
    tier = ctx.tier
    cases = enumerate_cases(tier)
    ctx.rule = (
        "finite product, every element executed on the real code. A (semantics, plain spelling): all 20 target key "
        "multisets (<=3 rows over keys {1,2,NULL}, v = 'a','b',NULL by position) x all 15 source key sets (<=3 rows over "
        "distinct keys {1,2,3,NULL}) x valid clause lists over MATCHED->UPDATE/DELETE, MATCHED AND c->UPDATE/DELETE, "
        "NOT MATCHED [AND c]->INSERT with c on source / target / both: every list of <=2 clauses with the three "
        "conditions assigned injectively, every 3-clause kind list with rotating conditions; every 3-clause list with "
        "injective conditions x 16 contents. B: every spelling x every kind list x 3 contents. C: SET forms x INSERT "
        "forms x 100 contents (+ x spellings). D: NOT NULL target column (statement must fail as a whole) x all contents. "
        "B also holds the placement spellings: target and/or source in another schema (db1.s2) or database (db2.s1, "
        "db2.s2) than the current db1.s1, schema- or fully qualified, with same-named decoy tables in db1.s1. "
        "E: follow-up observations of the session (helper table; user table of the same name) x spellings. F: MERGE "
        "inside BEGIN..ROLLBACK/COMMIT. G: two merges in one session. H: conditions `a OR b` without parentheses x all "
        "contents. I: session history before the MERGE (10 histories) x cursor (the one that issued BEGIN / a new one) x "
        "{MERGE failing in a later clause by NOT NULL, by a column/value count mismatch; succeeding MERGE} on a "
        "connection of its own (thorough: x NOT NULL lists, static-fail lists and templates x 4 contents). "
        "J: spelling of the source name at its declaration x at the references (lower / upper / quoted upper case: one "
        "identifier, 3 x 3; quoted lower case with itself) x declaration kind (table, schema-qualified table, alias with / "
        "without AS, subquery alias) x 15 clause lists by where source columns are used (ON only / bare in SET or VALUES / "
        "inside an expression / in a WHEN .. AND condition) x 2 contents (thorough: 4, + follow-up and NOT NULL scenarios). "
        "quick = 16 contents, rotating conditions, 22 spellings, reduced B-H. non-trivial = distinct "
        "(scenario, pre-state, source, clauses, spelling) for which the reference affects >= 1 row or demands an error"
    )
    ctx.assumptions = [
        "contents are set through raw DuckDB, the target is read back through raw DuckDB on another connection",
        "source keys are distinct, so every merge is deterministic (no target row joins two source rows)",
        "clause lists are the ones Snowflake accepts (unconditional clause last of its kind)",
        "Snowflake resolves t.k / s.k against tables written as db1.s1.t / s1.t, and allows an alias-qualified column "
        "on the left of SET",
    ]
    ctx.extra["alphabet"] = {
        "targets": len(ALL_TARGETS), "sources": len(ALL_SOURCES), "kind_lists": len(KIND_LISTS),
        "clause_lists_injective": len(lists_injective()), "spellings": list(SPELLINGS), "set_forms": list(SETS),
        "insert_forms": list(INSERTS), "source_name_spellings": len(SRCNAME), "source_use_lists": {k: len(v) for k, v in SRC_USE_LISTS.items()},
        "conditions": {k: M.sql_expr(v, "t", "s") for k, v in CONDS.items()},
    }  # fmt: skip
    ctx.extra["cases"] = len(cases)
    ctx.pmap(case, cases)
    ctx.exhaustive = True
    ctx.extra["bound"] = f"complete product as stated in rule ({tier} tier): {len(cases)} cases"


def _tup(x):
    return tuple(_tup(i) for i in x) if isinstance(x, list) else x


def replay(payload):
    item = _tup(payload["replay"]["case"])
    acc = core.Acc()
    res = case(item, acc, "quick")
    scenario, tk, sk, steps = item
    three = scenario == "notnull" or scenario.endswith(":t3")
    print("scenario:", scenario, "\ntarget:", target_rows(tk, three), "\nsource:", source_rows(sk))
    for spec, sp in steps:
        print("sql:", render(spec, sp, "t3" if three else "t"))
    print("steps (outcome, violations):", res)
    for k, v in sorted(acc.viol.items()):
        print(k, v["detail"])
    want = (payload.get("clause"), payload.get("class"))
    return want in acc.viol if want[0] else bool(acc.viol)
