"""C16 — execute_string equals one-by-one execution; nop_regexes only no-op matches.

Engine E2 (complete finite products, nothing sampled), differential oracle + an independent lexical reference.

For every composed text two fresh instances with the same fixture are used: the text goes through
`conn.execute_string(text, cursor_class=.., return_cursors=..)` on one (side ES), the statements it was composed
from go one by one through `conn.cursor(cursor_class).execute(stmt)` on the other (side ONE, stopping at the first
statement that raises).  Cursors are observed after all statements ran on both sides (same timing on both sides:
fakesnow computes `description` lazily), then the raw-DuckDB digest (catalog, data, side tables, session context,
variables), the session's own view of table T (uncommitted rows) and whether a transaction is still open are taken.
The number of statements and the exact value of every literal come from mc/ref/sf_split.py (written from Snowflake's
lexical rules; it is also cross-checked against the composition on every text: a disagreement is a harness error).

Sub-products (all written out below; TIER selects the reduced or the full alphabets)
  LIT    templates with a literal slot x literal contents (punctuation, quotes, backslashes, unicode, and white
         space as data: TAB, CR, CRLF, VT/FF, blanks at the ends, constants spanning indented lines) x statement
         layout {one line, several lines with indented continuation lines} x {alone, followed by a sentinel
         statement} x separator/comment styles (incl. indented / tab-indented blocks) with tuple cursors, plus
         Dict cursors on STYLES_QUICK and return_cursors=False on STYLES_RC_FALSE
  LISTS  statement lists (all sequences up to a length over the statement alphabet, plus a longer bound over a core
         alphabet) x styles x cursor class x return_cursors
  KINDS  one statement per supported statement kind (the round trip through parser+generator is per kind)
         x styles x cursor class
  EMPTY  texts without any statement (comments, blanks, semicolons)
  NOP    pattern sets x statements (match at start / only later / other case / no match) x parameters x
         {cursor.execute, execute_string} x cursor class
  NOPP   process / instance histories: a statement kind that fakesnow answers itself with its internal success
         statement (comment on table / column, ALTER .. SET COMMENT, CREATE .. COMMENT, CLUSTER BY, tags, SET / UNSET)
         on table t x a change of what it referred to (comment set another way, CREATE OR REPLACE, DROP, RENAME,
         USE SCHEMA, second connection in the same / another schema, second instance of the process without / with
         its own t) x target {matching statement, non-matching statement} x {execute, execute_string}; the matching
         statement must give the status row and leave the complete ground truth (catalog, data, fakesnow's side
         tables, every session of every instance) exactly as it was; the other one must do what it does without the
         option.  Every work item starts from freshly imported fakesnow modules (fresh_fakesnow)
  FLOW   scripts in which a constant written in one statement is read back by a LATER statement of the same script:
         SET v = <c>; SELECT $v  /  SET v = <c>; SET w = $v; SELECT $w  /  SET v = <c>; INSERT .. VALUES (3, $v);
         SELECT  /  CREATE TABLE .. AS SELECT <c>; SELECT   x constants (string contents incl. an escaped backslash
         followed by an escape letter / a quote / regex punctuation, backslash-escaped and doubled quotes, ; and --
         inside; $$ contents; non-string constants: x'..', numbers, booleans, NULL, a cast) x styles x cursor class
  NOPS   ordered pattern SETS of size 1..3 (quick: size 3 over S_CORE) over S_PATTERNS - regular expressions each of
         which is legal for re.match on its own: anchors, a capturing group, a numbered backreference, named groups
         (the same name in two patterns, a named backreference), inline flags at the start of a pattern ((?s), (?x)),
         top-level alternation without parentheses, a pattern that matches nothing - x S_STMTS (for every pattern a
         statement it matches and a near miss that must really run) executed in order on one instance x
         {cursor.execute, execute_string}
  NOPH   pattern sets x cursor class x prior history of the cursor (new / query unfetched / partly / fully fetched /
         exhausted / failed statement / DML / a matching statement before) x target (matching statements with and
         without parameters, ordinary queries) x fetch mode (fetchall / fetchone until None / fetchmany(2) twice)

Clauses
  C16.count      no statement fails: execute_string returns exactly one cursor per statement of the reference split
                 (return_cursors=True) / an empty result (return_cursors=False)
  C16.result     ... and cursor i has the rows, rowcount, description and sqlstate of statement i executed directly
  C16.digest     final state (digest + session's own view + open transaction) equals that of one-by-one execution,
                 whether or not a statement failed  (=> earlier statements applied, later ones not)
  C16.failure    the first failing statement fails both ways with the same exception class / errno / sqlstate, and
                 a text whose statements all succeed one by one does not raise
  C16.literal    a string constant selected back / stored and selected back / used as a quoted column name arrives
                 with exactly the value the reference reader computes from the source text
  C16.flow       a script whose statements are all legal does not raise, and a constant written in one statement and
                 read back by a later statement of the script arrives with the value the reference reader computes from
                 the source text (strings) / with the value and type `select <constant>` gives (other constants)
  C16.empty      a text without statements returns no cursor and does not raise
  C16.nop.match  a statement matching a pattern returns the single row ('Statement executed successfully.',) in a
                 column named status, raises nothing and leaves digest / session view unchanged
  C16.nop.cursor a statement executed on a cursor that was used before is observed (rows in every fetch mode,
                 rowcount, description, sqlstate) exactly as on a new cursor; a matching one reads as the status row
  C16.nop.other  any other statement gives the same outcome (rows, rowcount, description, exception, final state) as
                 on an instance created without the option

Classes (deterministic, from the input shape and from what one-by-one execution did; never from values/messages)
  LIT    tmpl=<template>,lit=<literal id>[,quote-in-inline-comment=<same-line|own-line>]   (all styles / cursor
         classes of a literal together, except the texts in which a comment *inside* a statement contains an
         apostrophe; same-line = the comment starts on the line of the code before it);
         tmpl=set_var,own-line-comment-before-name for the SET template with a comment on a line of its own between
         SET and the variable name (all literals together)
  KIND   kind=<statement kind>[,quote-in-inline-comment=..]
  LIST   C16.failure: list:unparsable=<none|first-failure|after-first-failure>   (where the statement that does not
         parse stands relative to the first statement that fails one by one);  C16.digest:
         list:unparsable=<none|present>,<effect-before|no-effect-before>   (do the statements before the first
         failing one leave a net effect: net_effect(), a 10-line model of begin/commit/rollback);  else list:no-failure
  EMPTY  text=<token kinds present>
  NOPH   target=<match|other>,prior=<history id>
  FLOW   flow=<script id>,<family>=<constant id>[,quote-in-inline-comment=..]
  NOPS   path=<..>,set:matched-by=<feature kind of the first pattern of the set that matches>@<first|later> (position of
         that pattern in the set; C16.nop.match);  path=<..>,set:unmatched,size=<number of patterns in the set> (statements
         no pattern matches, incl. the fixture's; C16.nop.other);  path=<..>,set:final-state,size=<..>.  The oracle
         for "matches" is Python's re.match(pattern, statement, re.IGNORECASE) for each pattern of the set on its own;
         the statements no pattern matches are run on an instance without the option and must give the same results
         and the same final state.  Only the first diverging statement of a set is a verdict.
  NOPP   history:after=<first statement kind>,change=<change id>        (clauses C16.nop.match / C16.nop.other)
  NOP    path=<execute|execute_string>,params=<yes|no>,patset=<id>,without-option=<ok|parse-error|error>
         (how the statement fares on an instance without the option)

Not demanded
  * the message text of exceptions (parser messages carry line/column of the whole text; engine messages quote the
    re-generated statement);
  * anything about the cursors of the statements before a failing one (execute_string raises, so they are not
    returned — same as the real connector);
  * correctness of the *direct* path: where `cursor.execute` itself misreads a literal, C16.literal is not raised
    against execute_string if it returns the same wrong value (noted in evidence as `direct_path_literal_deviation`);
    the equality clauses still apply (the statement demands equality with one-by-one execution);
  * FLOW: where `select <constant>` as a single statement through cursor.execute already gives another value than
    the reference reader (the engine's reading of the constant) and the script gives that same value, nothing is
    raised (note direct_path_literal_deviation); hex / octal / unicode escapes are not in the alphabet;
  * `//` comments, nested block comments, unterminated constants/comments, `remove_comments=True`;
  * session-variable references inside literals ($name in a constant) — C15's subject;
  * the exact text fakesnow keeps for a session variable: `set v = 'a' /* c */ ;` keeps the re-emitted comment in
    the stored definition when it comes through execute_string; every use of $v gives the same value, so stored
    definitions are compared modulo comments and white space (reference tokenizer);
  * nop: rowcount/description details of the success status beyond the column name; patterns applied to the text of
    a statement with leading white space when it goes through execute_string (leading blanks are not part of a
    statement there); what "matching" means beyond Python's `re.match(pattern, statement, re.IGNORECASE)` on the
    statement as sent (after client-side parameter substitution).
"""
from __future__ import annotations

import itertools
import logging
import re

from mc import core, observe
from mc.ref import sf_literal, sf_split

PID = "C16"
LEVEL = "exploration"

# =====================================================================================================================
# fixture (both sides, executed statement by statement through cursor.execute before the case)
# =====================================================================================================================
FIXTURE = [
    "create table t (k int, v varchar)",
    "insert into t values (1,'a'),(2,'b')",
    "create table s (k int, v varchar)",
    "insert into s values (1,'A'),(3,'C')",
    "create schema s2",
]

# =====================================================================================================================
# literal contents: id -> source text between the single quotes (value is computed by the reference reader)
# =====================================================================================================================
NL = "\n"
TAB = "\t"
BS = "\\"
LITS = {
    "plain": "abc",
    "empty": "",
    "quote2": "it''s",
    "quote2_ends": "''q''",
    "semi": "a;b",
    "semi_end": "ab;",
    "quote_semi_quote": "a'';''b",
    "dashdash": "x -- y",
    "dashdash_nl": "x -- y" + NL + "z;w",
    "block": "p /* q */ r",
    "block_open": "/* open",
    "block_close": "close */",
    "dollar": "a$$b;c$$d",
    "dquote": 'say "hi;"',
    "bs_bs": "a" + BS + BS + "b",
    "bs_only": BS + BS,
    "bs_quote": "q" + BS + "'q;",
    "bs_t": "tab" + BS + "t.",
    # an escaped backslash followed by an escape letter / a quote / regex punctuation: the value holds a backslash
    # that must not be read as the start of an escape when the value is written out and read a second time
    "bs_bs_letters": "a" + BS + BS + "tb" + BS + BS + "nc" + BS + BS + "rd" + BS + BS + "0e",
    "bs_bs_quote2": "it''s " + BS + BS + "'' end",
    "bs_dquote": "say " + BS + '"hi' + BS + '"',
    "bs_bs_semi_dash": "^" + BS + BS + "d+;" + BS + BS + "s*--x",
    "newline": "new" + NL + "line",
    "unicode": "❄ é 日本 \U0001f389",
    "percent": "100% %s",
    # white space is data inside a constant: raw TAB / CR / CRLF / VT / FF, blanks at the ends, runs of blanks,
    # constants that span several lines whose continuation lines are indented (by blanks, by a TAB), blank lines,
    # line breaks at the ends; letter case and unicode normal form are data too
    "tab": "a" + TAB + "b",
    "tab_lead": TAB + "x",
    "pad_spaces": "  pad  ",
    "only_spaces": "   ",
    "multi_spaces": "a  b   c",
    "cr": "a\rb",
    "crlf": "a\r\nb",
    "vt_ff": "a\x0bb\x0cc",
    "indented_lines": "first" + NL + "    second" + NL + "    third",
    "tab_indented_lines": "first" + NL + TAB + "second",
    "blank_line": "a" + NL + NL + "b",
    "nl_ends": NL + "line" + NL,
    "mixed_case": "MiXeD select FROM",
    "nfd": "e\u0301x",
    "unicode_spaces": "a\u00a0b\u2003c\u3000d",  # no-break space, em space, ideographic space
}
LITS_QUICK = [
    "plain", "quote2", "semi_end", "dashdash_nl", "block_open", "dollar", "bs_bs", "bs_quote", "unicode",
    "tab", "pad_spaces", "crlf", "indented_lines", "nl_ends", "unicode_spaces",
]  # fmt: skip

# content of $$...$$ constants (no escapes inside)
DLITS = {
    "d_semi": "d;d",
    "d_quote_comment": "it's -- x /* y */",
    "d_bs": "a" + BS + "tb",
    "d_newline": "multi" + NL + "line;",
    "d_quotes": "'';\"x\"",
    "d_tab": "a" + TAB + "b",
    "d_indented_lines": "begin" + NL + "    end",
    "d_pad_spaces": "  x  ",
    "d_crlf": "a\r\nb",
}
DLITS_QUICK = ["d_semi", "d_quote_comment", "d_bs", "d_tab", "d_indented_lines"]

# content of "..." identifiers (source between the double quotes)
ILITS = {
    "i_semi": "Qu;oted",
    "i_dq": 'a""b',
    "i_comment": "x -- y /* z */",
    "i_quote": "it's",
    "i_lower": "lower",
    "i_pad_spaces": "  a  b ",
    "i_tab": "a" + TAB + "b",
}
ILITS_QUICK = ["i_semi", "i_dq", "i_quote", "i_pad_spaces"]

# templates: id -> (statements with slot {L}, slot family, probe)
#   probe = (index of the cursor whose first row's first column must equal the literal value) | ("desc", index)
#   {NL} marks the places where the statement is broken into lines by a layout (see LAYOUTS)
TEMPLATES = {
    "select": (["select{NL}'{L}'"], "sq", ("row", 0)),
    "select_dollar": (["select{NL}$${L}$$"], "dq", ("row", 0)),
    "select_ident": (['select 1{NL}as "{L}"'], "id", ("desc", 0)),
    "insert": (["insert into t{NL}values (3, '{L}')", "select v{NL}from t{NL}where k = 3"], "sq", ("row", 1)),
    "merge": (
        [
            "merge into t using s on t.k = s.k{NL}when matched then update set v = '{L}'{NL}"
            "when not matched then insert (k, v) values (s.k, s.v)",
            "select v{NL}from t{NL}where k = 1",
        ],
        "sq",
        ("row", 1),
    ),
    "set_var": (["set v ={NL}'{L}'", "select{NL}$v"], "sq", None),  # differential only (value semantics: C15)
}
# how a template statement is laid out: on one line, or over several lines with indented continuation lines (the way
# statements are written in scripts); the literal's own line breaks / indentation are data and independent of it
LAYOUTS = {"oneline": " ", "indented": NL + "    "}


def template_statements(tid, lid, layout, tail):
    tmpl, fam, _ = TEMPLATES[tid]
    stmts = [t.replace("{NL}", LAYOUTS[layout]).replace("{L}", lit_source(fam, lid)) for t in tmpl]
    return stmts + ([SENTINEL] if tail == "sentinel" else [])


# (layout, tail) combinations per tier
LIT_SHAPES = {
    "quick": [("oneline", "alone"), ("indented", "sentinel")],
    "thorough": [(lay, tail) for lay in ("oneline", "indented") for tail in ("alone", "sentinel")],
}
SENTINEL = "select 2"

# ---- FLOW: a constant written in one statement of the script is read back by a LATER statement of the same script
# (through a session variable, through a table).  id -> (statements with slot {LIT} = the whole constant, index of the
# cursor whose first row's first column must be the constant's value, families)
FLOWS = {
    "set_select": (["set v = {LIT}", "select $v"], 1, ("sq", "dq", "const")),
    "set_set_select": (["set v = {LIT}", "set w = $v", "select $w"], 2, ("sq", "dq", "const")),
    "set_insert_select": (["set v = {LIT}", "insert into t values (3, $v)", "select v from t where k = 3"], 2, ("sq", "dq")),
    "ctas_select": (["create table c3 as select {LIT} as v", "select v from c3"], 1, ("sq", "dq")),
}
# constants that are not strings (family const): their value is what `select <constant>` gives (value and type)
CONSTS = {
    "hex": "x'4142'",
    "int": "42",
    "decimal": "1.50",
    "negative": "-0.5",
    "float": "1e3",
    "bool": "true",
    "null": "null",
    "cast_date": "'2020-01-02'::date",
}
FLOW_LITS_QUICK = {
    "sq": LITS_QUICK + ["quote_semi_quote", "dashdash", "bs_only", "bs_t", "bs_bs_letters", "bs_bs_quote2", "bs_dquote", "bs_bs_semi_dash"],
    "dq": DLITS_QUICK,
    "const": list(CONSTS),
}
# (style, cursor class) of the scripts
def flow_variants(tier):
    if tier == "quick":
        return [("semi_sp", "tuple"), ("bc_tricky", "dict"), ("indented_block", "tuple")]
    return [(s, "tuple") for s in STYLES] + [(s, "dict") for s in STYLES_QUICK]


def flow_literal(fam, lid):
    """source text of the whole constant"""
    if fam == "const":
        return CONSTS[lid]
    return ("'%s'" if fam == "sq" else "$$%s$$") % lit_source(fam, lid)


def flow_statements(fid, fam, lid):
    return [t.replace("{LIT}", flow_literal(fam, lid)) for t in FLOWS[fid][0]]

# =====================================================================================================================
# statement alphabet for lists
# =====================================================================================================================
STMTS = {
    "q": "select 'x;y'",
    "n": "select count(*) from t",
    "i": "insert into t values (3, 'x;y')",
    "c": "create table u (a int, b varchar(3))",
    "u": "use schema s2",
    "s": "set v = 'x;y'",
    "v": "select $v",
    "m": "merge into t using s on t.k = s.k when matched then update set v = s.v "
    "when not matched then insert (k, v) values (s.k, s.v)",
    "f": "select * from nope",
    "x": "select 1 +",
    "b": "begin",
    "r": "rollback",
    "k": "commit",
}
# effectful statements (used by the classifier only): they change digest / session state when they succeed
EFFECTFUL = set("icusmb")
LIST_BOUNDS = {
    # tier -> [(alphabet, max length)]  (every sequence of length 0..max over the alphabet)
    "quick": [("qnicusvmfxbrk", 2), ("ivx", 3)],
    "thorough": [("qnicusvmfxbrk", 3), ("iusvfx", 4)],
}

# one statement (or a short list) per statement kind: the round trip is per kind
KINDS = {
    "update": ["update t set v = 'z;' where k = 1"],
    "delete": ["delete from t where k = 2"],
    "delete_all": ["delete from t"],
    "create_comment": ["create table u (a int, b varchar(3)) comment = 'c;'"],
    "create_or_replace": ["create or replace table t (z int)"],
    "ctas": ["create table c3 as select k, v from t where k = 1"],
    "drop": ["drop table s"],
    "create_view": ["create view vv as select k from t where v = 'a;b'", "select * from vv"],
    "use_schema": ["use schema s1"],
    "use_qualified": ["use schema db1.s2"],
    "create_schema_use": ["create schema s3", "use schema s3", "create table x (i int)"],
    "create_database": ["create database d2", "create schema d2.sx", "use schema d2.sx"],
    "use_database": ["create database d2", "use database d2"],
    "set_int": ["set v = 5", "select $v"],
    "unset": ["set v = 5", "unset v"],
    "merge_delete": ["merge into t using s on t.k = s.k when matched then delete"],
    "tx_rollback": ["begin", "insert into t values (9,'n')", "rollback"],
    "tx_commit": ["begin", "insert into t values (9,'n')", "commit"],
    "tx_open": ["begin", "insert into t values (9,'n')"],
    "like": ["select k, v from t where v like 'a%' order by k"],
    "order_limit": ["select k from t where v = 'a' or v = 'b' order by k desc limit 1"],
    "json_path": ["select parse_json('{\"a\": [1, 2]}'):a[0]"],
    "json_dot": ["select v:a.b from (select parse_json('{\"a\":{\"b\":1}}') as v)"],
    "to_decimal": ["select to_decimal('1.5', 10, 1)"],
    "dateadd": ["select dateadd(day, 1, '2020-01-01'::date)"],
    "alter_add": ["alter table t add column c int"],
    "alter_rename": ["alter table t rename to t9"],
    "comment_on": ["comment on table t is 'it''s; ok'"],
    "show_tables": ["show tables in schema s1"],
    "describe": ["describe table t"],
    "truncate": ["truncate table t"],
    "clone": ["create table c2 clone t"],
    "quoted_alias": ['select 1 as "Qu;oted"'],
    "hex": ["select x'41'"],
    "numbers": ["select 1e3, 1.50, -0.0"],
    "array": ["select [1, 2, 3]"],
    "object": ["select {'a': 1}"],
    "object_construct": ["select object_construct('a', 1)"],
    "in_list": ["select 1 where 1 in (1, 2)"],
    "case": ["select case when 1 = 1 then 'y' else 'n' end"],
    "casts": ["select cast('1' as int), '1'::int, try_cast('x' as int)"],
    "group_all": ["select count(*), sum(k) from t group by all"],
    "cte": ["with c as (select 1 as a) select a from c"],
    "join": ["select t.k, s.v from t join s on t.k = s.k order by 1"],
    "qualify": ["select * from t qualify row_number() over (order by k) = 1"],
    "iff_nvl": ["select iff(1 = 1, 'a', 'b'), nvl(null, 1), zeroifnull(null)"],
    "alter_session": ["alter session set timezone = 'UTC'"],
    "insert_select": ["insert into t select k + 10, v from s", "select count(*) from t"],
    "insert_multi": ["insert into t (k, v) values (3, 'c;'), (4, null)"],
    "values": ["select * from (values (1, 'a;'), (2, 'b')) as x (i, j) order by i"],
    "flatten": ["select value from table(flatten(input => parse_json('[1, 2]'))) order by 1"],
    "identifier_fn": ["select * from identifier('t') order by k"],
    "regexp": ["select regexp_replace('a;b', ';', '-')"],
    "concat": ["select 'a' || ';' || 'b', concat('x', ';')"],
    "current": ["select current_database(), current_schema()"],
    "info_schema": ["select table_name from information_schema.tables where table_schema = 'S1' order by 1"],
    "timestamp": ["select '2020-01-02 03:04:05'::timestamp_ntz, to_date('2020-01-02')"],
    "multiline_select": ["select k,\n       v\n  from t\n where v = 'a'\n order by k"],
    "multiline_ddl_dml": [
        "create table ml (\n    a int,\n    b varchar\n)",
        "insert into ml\n    values (1, 'x\n    y'),\n           (2, 'p\tq')",
        "select a,\n       b\n  from ml\n order by a",
    ],
    "tab_separated": ["select\tk\tfrom\tt\torder by k"],
    "crlf_lines": ["select k\r\n  from t\r\n where v = 'a\r\n'\r\n    or k = 2\r\n order by k"],
    "create_types": ["create table ty (a number(10,2), b timestamp_ntz, c variant, d boolean, e float, f date)", "describe table ty"],
}

# =====================================================================================================================
# separator / comment styles: id -> composer(list of statements) -> text
# =====================================================================================================================


def _inline(stmt: str, comment: str, own_line: bool = False) -> str:
    """put a comment right after the statement's first word, on the same line as that word (or on a line of its own),
    in front of whatever white space follows the word"""
    i = next((j for j, ch in enumerate(stmt) if ch in sf_split.WS), len(stmt))
    return stmt[:i] + (NL if own_line else " ") + comment + stmt[i:]


STYLES = {
    "semi_sp": lambda ss: "".join(s + "; " for s in ss).rstrip(" "),
    "semi_tight": lambda ss: ";".join(ss),  # no final semicolon, no blanks
    "semi_double": lambda ss: "".join(s + ";;" for s in ss),
    "blank_lines": lambda ss: "".join(s + ";\n\n\n" for s in ss),
    "ws_mixed": lambda ss: "\n\t " + " \n;\r\n ".join(ss) + " \t",
    "lc_lead": lambda ss: "".join("-- c\n" + s + ";\n" for s in ss),
    "lc_trail_eof": lambda ss: "\n".join(s + "; -- c" for s in ss),  # the text ends inside a line comment
    "lc_tricky": lambda ss: "".join(s + "; -- it's; a 'c' \" $$ /* x\n" for s in ss) + "-- */ y\n",
    "bc_lead": lambda ss: " ".join("/* b */ " + s + ";" for s in ss),
    "bc_tricky": lambda ss: "".join(s + "; /* it's; -- \" $$ \n ' */ " for s in ss) + "/* ; */",
    "bc_before_semi": lambda ss: " ; ".join(s + " /* c */" for s in ss),
    "lc_before_semi": lambda ss: "".join(s + " -- c\n; " for s in ss),
    "inline_bc": lambda ss: "; ".join(_inline(s, "/* mid; */ ") for s in ss) + ";",
    "inline_lc": lambda ss: "; ".join(_inline(s, "-- mid; 'q\n") for s in ss) + ";",
    "inline_lc_own_line": lambda ss: "; ".join(_inline(s, "-- mid; 'q\n", own_line=True) for s in ss) + ";",
    "tail_comments": lambda ss: "".join(s + "; " for s in ss) + "-- end\n;; /* fin */ ; -- x",
    "lead_semis": lambda ss: ";; -- x\n; " + "; ".join(ss),
    # the text as it stands in an indented triple-quoted block: every statement starts on its own indented line
    "indented_block": lambda ss: NL + "".join("        " + s + ";" + NL for s in ss) + "    ",
    "tab_block": lambda ss: "".join(TAB + s + TAB + ";" + NL for s in ss),
}
STYLES_QUICK = ["semi_sp", "semi_tight", "lc_tricky", "bc_tricky", "inline_lc", "inline_lc_own_line", "indented_block"]
STYLES_RC_FALSE = ["semi_sp", "bc_tricky", "inline_lc", "indented_block"]  # styles also run with return_cursors=False
LIST_STYLES = {"quick": ["semi_tight", "bc_tricky"], "thorough": ["semi_tight", "bc_tricky", "indented_block"]}

EMPTY_TEXTS = [
    "",
    " ",
    "\n",
    "\t\r\n ",
    ";",
    ";;",
    " ; ; ",
    "-- c",
    "-- c\n",
    "-- a;b 'q\n",
    "/* c */",
    "/* ; */;",
    "/* it's \n -- */ ; -- x",
    "-- a\n;/* x */;;\n-- b",
    ";\n-- select 1;\n/* select 2; */\n",
]

# =====================================================================================================================
# nop alphabet
# =====================================================================================================================
PATSETS = {
    "none": None,
    "empty": [],
    "call": [r"^CALL\b"],
    "grant_revoke": [r"grant ", r"^\s*revoke"],
    "effect": [r"^truncate\b", r"^delete\s", r"^update t\b"],  # (no fixture statement matches any pattern set)
    "subst": [r"^call x\(1\)"],
}
# id -> (sql, params or None)
NOP_STMTS = {
    "call_lc": ("call my_proc(1)", None),
    "call_uc": ("CALL x()", None),
    "call_x1": ("call x(1)", None),
    "call_lead_blank": (" call x()", None),
    "callx": ("callx()", None),
    "grant_lc": ("grant select on t to role r", None),
    "grant_uc": ("GRANT SELECT ON t TO ROLE r", None),
    "revoke_lead_blank": ("  revoke select on t from role r", None),
    "revoke": ("revoke select on t from role r", None),
    "select_grant_later": ("select 'grant '", None),
    "select_comment_grant": ("select 1 -- grant ", None),
    "insert_grant_later": ("insert into t values (5, 'grant ')", None),
    "insert_t": ("insert into t values (5, 'e')", None),
    "insert_t_uc": ("INSERT INTO t VALUES (5, 'e')", None),
    "insert_s": ("insert into s values (5, 'e')", None),
    "truncate": ("truncate table t", None),
    "delete": ("delete from t where k = 1", None),
    "delete_uc": ("DELETE FROM t", None),
    "update_t": ("update t set v = 'grant ' where k = 1", None),
    "update_s": ("update s set v = 'e' where k = 1", None),
    "select_t": ("select k from t order by k", None),
    "p_call_1": ("call x(%s)", (1,)),
    "p_call_2": ("call x(%s)", (2,)),
    "p_insert_t": ("insert into t values (%s, %s)", (6, "grant ")),
    "p_insert_s": ("insert into s values (%s, %s)", (6, "e")),
    "p_select": ("select %s", ("grant ",)),
    "p_update_t": ("update t set v = %s where k = %s", ("z", 1)),
    "p_update_s": ("update s set v = %s where k = %s", ("z", 1)),
}
NOP_QUICK_STMTS = [
    "call_lc", "call_lead_blank", "grant_uc", "revoke_lead_blank", "revoke", "select_grant_later", "insert_grant_later",
    "insert_t_uc", "truncate", "delete_uc", "update_t", "update_s", "p_call_1", "p_call_2", "p_insert_t", "p_select", "p_update_t",
]  # fmt: skip
STATUS_ROW = ("Statement executed successfully.",)

# ---- NOPH: a statement executed on a cursor that was used before (all statements here leave the state alone, even
# when they are really executed, so every history of an item runs on one instance; verified by the digest)
H_QUERY = "select k from t union all select k from s order by 1"  # 4 rows, not the target's result
H_PRIORS = {
    # id -> operations on the cursor before the target statement
    "new_cursor": [],
    "query_unfetched": [("exec", H_QUERY)],
    "query_fetchone": [("exec", H_QUERY), ("one",)],
    "query_fetchmany2": [("exec", H_QUERY), ("many", 2)],
    "query_fetchall": [("exec", H_QUERY), ("all",)],
    "query_exhausted": [("exec", H_QUERY), ("all",), ("one",)],
    "failed_statement": [("exec", "select * from nope")],
    "dml": [("exec", "update s set v = v where k = 1"), ("all",)],
    "nop_fetched": [("match",), ("all",)],  # a matching statement and its row (only for sets that have one)
    "nop_unfetched": [("match",)],
}
H_PRIORS_QUICK = ["new_cursor", "query_unfetched", "query_fetchone", "query_fetchall", "failed_statement", "nop_fetched"]
# pattern set -> [(statement, params)] that match (state-preserving also when really executed)
H_MATCHING = {
    "none": [],
    "empty": [],
    "call": [("call x()", None), ("call x(%s)", (1,))],
    "grant_revoke": [("grant select on t to role r", None)],
    "effect": [("update t set v = v where k = 1", None)],
    "subst": [("call x(1)", None), ("call x(%s)", (1,))],
}
H_OTHER = [("select v from s order by k", None), ("select v from s where k >= %s order by k", (1,))]
H_MODES = ["all", "one_by_one", "many2"]


def nop_expected_match(patset, sql, params) -> bool:
    """Reference: the statement as sent (parameters substituted client-side as Snowflake constants) matches one of
    the patterns at its start, case-insensitively."""
    pats = PATSETS[patset]
    if not pats:
        return False
    text = sql if params is None else sql % tuple(sf_literal.render(p) for p in params)
    return any(re.match(p, text, re.IGNORECASE) for p in pats)


# ---- NOPP: process / instance histories before a statement that matches (or does not match) a pattern.
# Statement kinds that fakesnow answers with its internal success statement instead of running them (the users of
# transforms.SUCCESS_NOP: comments on tables / columns, clustering keys, tags, session variables) leave their
# arguments with that answer; a statement matching nop_regexes gets the same answer.  So: one of them on table t,
# then a change of what it referred to, then the target.
P_NOPPERS = {
    # id -> statements run first on the first connection (table t of the fixture)
    "comment_on_table": ["comment on table t is 'first'"],
    "alter_set_comment": ["alter table t set comment = 'first'"],
    "alter_column_comment": ["alter table t alter column v comment 'first'"],
    "comment_on_column": ["comment on column t.v is 'first'"],
    "create_table_comment": ["create table tc (a int, b varchar(3) comment 'cb') comment = 'first'"],
    "cluster_by": ["alter table t cluster by (k)"],
    "set_tag": ["alter table t set tag foo = 'bar'"],
    "column_set_tag": ["alter table t modify column v set tag foo = 'bar'"],
    "create_tag": ["create tag foo"],
    "set_variable": ["set hv = 'first'"],
    "unset_variable": ["set hv = 'first'", "unset hv"],
    "all_of_them": [
        "set hv = 'first'", "alter table t cluster by (k)", "alter table t set tag foo = 'bar'",
        "comment on column t.v is 'first'", "alter table t alter column v comment 'first2'",
        "alter table t set comment = 'first'", "comment on table t is 'first2'",
    ],  # fmt: skip
}
P_NOPPERS_QUICK = ["comment_on_table", "alter_set_comment", "alter_column_comment", "cluster_by", "set_variable", "all_of_them"]
P_CHANGES = {
    # id -> (statements on the first connection, where the target runs)
    #   where: "conn1" | ("conn2", schema) second connection of the instance | "instance2" | "instance2_with_t"
    "none": ([], "conn1"),
    # the comment set another way afterwards (each route separately: the route of the first statement itself would
    # refresh whatever that statement left behind)
    "recomment_alter": (["alter table t alter column v comment 'c3'", "alter table t set comment = 'second'"], "conn1"),
    "recomment_comment_on": (["comment on column t.v is 'c2'", "comment on table t is 'third'"], "conn1"),
    "recomment_create": (["create or replace table t (k int, v varchar comment 'cv') comment = 'second'"], "conn1"),
    "drop": (["drop table t"], "conn1"),
    "rename": (["alter table t rename to t9"], "conn1"),
    "use_schema": (["use schema s2"], "conn1"),
    "conn2_same_schema": ([], ("conn2", "s1")),
    "conn2_other_schema": ([], ("conn2", "s2")),
    "drop_conn2": (["drop table t"], ("conn2", "s1")),
    "instance2": ([], "instance2"),
    "instance2_with_t": ([], "instance2_with_t"),
}
P_CHANGES_QUICK = ["none", "recomment_alter", "recomment_comment_on", "drop", "use_schema", "conn2_other_schema", "instance2_with_t"]
P_PATTERNS = [r"^CALL\b"]
P_MATCH = "call refresh_all('a;b')"
P_OTHER = "insert into s values (7, 'n')"  # resolvable or not, depending on the change: same with and without option

# ---- NOPS: pattern SETS.  Every pattern is a regular expression that is legal for re.match on its own; a set is any
# ordered selection of 1..3 distinct patterns.  id -> (kind of regex feature, pattern)
S_PATTERNS = {
    "anchor": ("anchor", r"^call\b"),
    "anchor_dot": ("anchor", r"^select .* from nope$"),  # `.` does not cross a line break, `$` ends it
    "group": ("group", r"^(grant|revoke) "),  # a capturing group
    "backref": ("backref", r"^insert into (\w+) select \* from \1$"),  # group + numbered backreference
    "named": ("named", r"^truncate (?P<obj>table )?t$"),  # a named group ...
    "named2": ("named", r"^update (?P<obj>\w+) set v = (?P=obj)\.v$"),  # ... the same name, with a named backreference
    "flag_s": ("flag", r"(?s)^select 1,.*2$"),  # inline flag at the start: `.` crosses line breaks in this pattern
    "flag_x": ("flag", r"(?x) ^ commit \s* $"),  # inline flag at the start: blanks in this pattern are layout
    "alt": ("alt", r"rollback|release"),  # alternation at top level, no parentheses
    "never": ("never", r"(?!)"),  # matches nothing
}
S_CORE = ["group", "backref", "named", "named2", "flag_s", "alt"]  # quick tier: sets of 3 over these, of 1..2 over all
# statements, executed in this order on one instance (the fixture's t and s)
S_STMTS = [
    "call x()",
    "select 1 from nope",
    "select 1\n from nope",
    "grant select on t to role r",
    "insert into t select * from t",
    "INSERT INTO t SELECT * FROM T",
    "insert into t select * from s",
    "update t set v = t.v",
    "select 1,\n 2",
    "select 1,\n 3",
    "commit",
    "rollback",
    "select 'rollback'",
    "delete from t where k = 1",
    "truncate table s",
    "truncate table t",
    "select count(*) from t",
]


def s_pattern_sets(tier):
    ids = list(S_PATTERNS)
    out = [c for n in (1, 2) for c in itertools.permutations(ids, n)]
    out += list(itertools.permutations(ids if tier != "quick" else S_CORE, 3))
    return out


def s_matching(pset, sql):
    """Reference: ids of the set's patterns that match the statement (Python's own re.match, case-insensitive, each
    pattern on its own), in the order of the set."""
    return [pid for pid in pset if re.match(S_PATTERNS[pid][1], sql, re.IGNORECASE)]

# =====================================================================================================================
# real side
# =====================================================================================================================


def fresh_fakesnow():
    """Every work item starts from freshly imported fakesnow modules: worker processes are reused across items, and
    an item must neither see nor leave module-level state of fakesnow (on a tree that has such state, results would
    otherwise depend on which items a worker happened to run before)."""
    import importlib
    import sys

    for name in [n for n in sys.modules if n == "fakesnow" or n.startswith("fakesnow.")]:
        del sys.modules[name]
    importlib.import_module("fakesnow.instance")
    core.assert_repo()

_NOTSET = object()


def _cursor_class(cls):
    from snowflake.connector.cursor import DictCursor, SnowflakeCursor

    return DictCursor if cls == "dict" else SnowflakeCursor


def _exc(e):
    return (
        f"{type(e).__module__}.{type(e).__name__}",
        getattr(e, "errno", None),
        getattr(e, "sqlstate", None),
        (getattr(e, "msg", None) or str(e)).split("\n")[0][:160],
    )


def observe_cursor(c):
    """(rows, rowcount, description, sqlstate) of an executed cursor; rows of dict cursors as item tuples."""
    try:
        rows = c.fetchall()
        rowtype = type(rows[0]).__name__ if rows else None
        rows = ("rows", rowtype, [tuple(r.items()) if isinstance(r, dict) else r for r in rows])
    except Exception as e:  # noqa: BLE001
        rows = ("err",) + _exc(e)[:3]
    try:
        desc = ("desc", [tuple(d) for d in c.description])
    except Exception as e:  # noqa: BLE001
        desc = ("err",) + _exc(e)[:3]
    return (rows, c.rowcount, desc, c.sqlstate)


def _var_text(v):
    """a variable's stored definition, compared modulo comments and white space (not demanded: its exact text)"""
    if not isinstance(v, str):
        return v
    try:
        return sf_split.normalise(v)
    except ValueError:
        return v


def take_state(fs, conn, views):
    d = dict(observe.digest(fs, [conn], views=views))
    (sess,) = d["sessions"]
    d["sessions"] = (sess[:5] + (tuple((k, _var_text(v)) for k, v in sess[5]),) + sess[6:],)
    return tuple(sorted(d.items()))


def run_side(mode, stmts, text, cls="tuple", rc=True, nop=_NOTSET, params=None, views=False):
    """One execution on a fresh instance. mode 'es' = conn.execute_string(text); 'one' = the statements one by one
    (params, if given, go with the single statement)."""
    import duckdb
    import fakesnow.instance as inst

    logging.disable(logging.WARNING)  # sqlglot's "falling back to Command" chatter
    fs = inst.FakeSnow() if nop is _NOTSET else inst.FakeSnow(nop_regexes=nop)
    try:
        conn = fs.connect(database="db1", schema="s1")
        cur = conn.cursor()
        for s in FIXTURE:
            cur.execute(s)
        pre = take_state(fs, conn, views)
        curs, exc, ret_type = [], None, None
        try:
            if mode == "es":
                ret = conn.execute_string(text, cursor_class=_cursor_class(cls), return_cursors=rc)
                ret_type = type(ret).__name__
                curs = list(ret)
            else:
                for s in stmts:
                    c = conn.cursor(_cursor_class(cls))
                    if params is None:
                        c.execute(s)
                    else:
                        c.execute(s, params)
                    curs.append(c)
        except Exception as e:  # noqa: BLE001
            exc = _exc(e)
        obs = [observe_cursor(c) for c in curs]
        post = take_state(fs, conn, views)
        d = observe.engine_conn(conn)
        d = getattr(d, "_r", d)
        try:
            own = repr(d.execute("select * from db1.s1.t order by all").fetchall())
        except duckdb.Error as e:
            own = "err:" + type(e).__name__
        try:  # last step of the execution, so being intrusive does not matter: is a transaction still open?
            d.execute("ROLLBACK")
            tx = True
        except duckdb.Error:
            tx = False
        return {
            "n": len(curs),
            "curs": [repr(o) for o in obs],
            "raw": obs,
            "exc": exc,
            "pre": repr(pre),
            "state": (repr(post), own, tx),
            "ret_type": ret_type,
        }
    finally:
        try:
            fs.duck_conn.close()
        except Exception:  # noqa: BLE001
            pass


def first_value(raw_obs):
    """first column of the first row of an observed cursor (tuple or dict rows) or a marker"""
    rows = raw_obs[0]
    if rows[0] != "rows" or not rows[2]:
        return ("<no row>", rows[:2])
    r = rows[2][0]
    if not r:
        return ("<empty row>",)
    return r[0][1] if rows[1] == "dict" else r[0]


def first_name(raw_obs):
    d = raw_obs[2]
    if d[0] != "desc" or not d[1]:
        return ("<no description>", d[:2])
    return d[1][0][0]


# =====================================================================================================================
# comparison of one text (differential + reference)
# =====================================================================================================================


def check_split(stmts, text):
    """the reference splitter must see exactly the statements the text was composed from (harness sanity)"""
    pieces = sf_split.split(text)
    got = [p["code"] for p in pieces]
    want = [sf_split.normalise(s) for s in stmts]
    if got != want:
        raise core.HarnessError(f"reference split of {text!r} is {got!r}, composed from {want!r}")
    return pieces


def same_value(a, b):
    return type(a) is type(b) and a == b


def compare_flow(es, idx, ref_value, direct):
    """C16.flow for one script run through execute_string: the constant written in an earlier statement arrives in
    cursor idx with the value ref_value.  direct = ('value', v) | ('raised', exc): what `select <constant>` gives as a
    single statement through cursor.execute; where that already differs from the reference and the script gives the
    same, it is the engine's reading of the constant and not the flow (not demanded, counted as a note)."""
    if es["exc"] is not None:
        if direct[0] == "raised":
            return [("note", "direct_path_literal_deviation", {"expected": ref_value, "both": "raise"})]
        return [("C16.flow", "raised", {"expected": ref_value, "execute_string": es["exc"]})]
    if idx >= len(es["raw"]):
        return []  # C16.count reports it
    got = first_value(es["raw"][idx])
    if same_value(got, ref_value):
        return []
    if direct[0] == "value" and not same_value(direct[1], ref_value) and same_value(got, direct[1]):
        return [("note", "direct_path_literal_deviation", {"expected": ref_value, "both": got})]
    return [("C16.flow", "value", {"expected": ref_value, "execute_string": got, "selected_directly": direct})]


def compare(one, es, n_ref, rc, probe=None, ref_value=None):
    """-> list of (clause, reason, detail). one/es are run_side results."""
    out = []
    same_exc = (one["exc"] is None) == (es["exc"] is None) and (
        one["exc"] is None or one["exc"][:3] == es["exc"][:3]
    )
    if not same_exc:
        out.append(("C16.failure", "exception", {"one_by_one": one["exc"], "execute_string": es["exc"]}))
    if one["state"] != es["state"]:
        out.append(
            (
                "C16.digest",
                "state",
                {"one_by_one": _short_state(one["state"]), "execute_string": _short_state(es["state"])},
            )
        )
    if one["exc"] is None and es["exc"] is None:
        want_n = n_ref if rc else 0
        if es["n"] != want_n:
            out.append(("C16.count", "count", {"expected": want_n, "got": es["n"], "type": es["ret_type"]}))
        elif rc:
            for i, (a, b) in enumerate(zip(es["curs"], one["curs"])):
                if a != b:
                    out.append(("C16.result", f"cursor{i}", {"index": i, "one_by_one": b, "execute_string": a}))
                    break
            if probe is not None:
                kind, idx = probe
                get = first_value if kind == "row" else first_name
                a, b = get(es["raw"][idx]), get(one["raw"][idx])
                if not (type(a) is type(ref_value) and a == ref_value):
                    if repr(a) == repr(b):
                        out.append(("note", "direct_path_literal_deviation", {"expected": ref_value, "both": a}))
                    else:
                        out.append(("C16.literal", kind, {"expected": ref_value, "execute_string": a, "one_by_one": b}))
    return out


def _short_state(st):
    return {"digest_hash": core.h(st[0]), "digest": st[0][:1500], "session_view_of_T": st[1], "tx_open": st[2]}


# =====================================================================================================================
# work items
# =====================================================================================================================


def lit_alphabet(fam, tier):
    if fam == "sq":
        return LITS_QUICK if tier == "quick" else list(LITS)
    if fam == "dq":
        return DLITS_QUICK if tier == "quick" else list(DLITS)
    return ILITS_QUICK if tier == "quick" else list(ILITS)


def lit_source(fam, lid):
    return {"sq": LITS, "dq": DLITS, "id": ILITS}[fam][lid]


def lit_value(fam, lid):
    src = lit_source(fam, lid)
    if fam == "sq":
        v, end = sf_literal.read_string_constant("'" + src + "'")
        assert end == len(src) + 2, (lid, end)
        return v
    if fam == "dq":
        assert "$$" not in src
        return src
    return src.replace('""', '"')


def items(tier):
    out = []
    for tid, (_, fam, _) in TEMPLATES.items():
        for lid in lit_alphabet(fam, tier):
            for layout, tail in LIT_SHAPES[tier]:
                out.append(("LIT", tid, lid, layout, tail))
    seen = set()
    for alpha, maxlen in LIST_BOUNDS[tier]:
        for ln in range(0 if not seen else 1, maxlen + 1):
            for seq in itertools.product(alpha, repeat=ln):
                s = "".join(seq)
                if s not in seen:
                    seen.add(s)
                    out.append(("LIST", s))
    for kid in KINDS:
        out.append(("KIND", kid))
    for i in range(len(EMPTY_TEXTS)):
        out.append(("EMPTY", i))
    for ps in PATSETS:
        for sid in NOP_QUICK_STMTS if tier == "quick" else NOP_STMTS:
            out.append(("NOP", ps, sid))
    for ps in PATSETS:
        for cls in ("tuple", "dict"):
            out.append(("NOPH", ps, cls))
    for nid in P_NOPPERS_QUICK if tier == "quick" else P_NOPPERS:
        for cid in P_CHANGES_QUICK if tier == "quick" else P_CHANGES:
            out.append(("NOPP", nid, cid))
    for fid, (_, _, fams) in FLOWS.items():
        for fam in fams:
            for lid in flow_lit_alphabet(fam, tier):
                out.append(("FLOW", fid, fam, lid))
    for pset in s_pattern_sets(tier):
        out.append(("NOPS", "execute", pset))
        if tier != "quick" or len(pset) <= 2:
            out.append(("NOPS", "execute_string", pset))
    return out


def flow_lit_alphabet(fam, tier):
    if tier == "quick":
        return FLOW_LITS_QUICK[fam]
    return list({"sq": LITS, "dq": DLITS, "const": CONSTS}[fam])


def variants(part, tier):
    """(style, cursor class, return_cursors) combinations explored for every item of a part"""
    if part == "LIT":
        st = STYLES_QUICK if tier == "quick" else list(STYLES)
        if tier == "quick":
            return [(s, "tuple", True) for s in st] + [("bc_tricky", "dict", True), ("semi_sp", "tuple", False)]
        return (
            [(s, "tuple", True) for s in st]
            + [(s, "dict", True) for s in STYLES_QUICK]
            + [(s, "tuple", False) for s in STYLES_RC_FALSE]
        )
    if part == "LIST":
        st = LIST_STYLES[tier]
        if tier == "quick":
            return [(st[0], "tuple", True), (st[1], "dict", True), (st[1], "tuple", False)]
        return [(s, "tuple", True) for s in st] + [(st[0], "dict", True), (st[1], "tuple", False)]
    if part == "KIND":
        if tier == "quick":
            return [("bc_tricky", "tuple", True), ("inline_lc_own_line", "tuple", True), ("semi_sp", "dict", True)]
        st = ["semi_sp", "semi_tight", "bc_tricky", "inline_bc", "inline_lc", "inline_lc_own_line", "indented_block"]
        return [(s, "tuple", True) for s in st] + [(st[0], "dict", True)]
    raise AssertionError(part)


def work(item, acc: core.Acc, tier):
    fresh_fakesnow()
    part = item[0]
    if part == "NOPP":
        return work_nopp(item, acc, tier)
    if part == "NOP":
        return work_nop(item, acc, tier)
    if part == "NOPH":
        return work_noph(item, acc, tier)
    if part == "EMPTY":
        return work_empty(item, acc, tier)
    if part == "FLOW":
        return work_flow(item, acc, tier)
    if part == "NOPS":
        return work_nops(item, acc, tier)
    probe = ref_value = None
    if part == "LIT":
        _, tid, lid, layout, tail = item
        _, fam, probe = TEMPLATES[tid]
        stmts = template_statements(tid, lid, layout, tail)
        if probe is not None:
            ref_value = lit_value(fam, lid)
    elif part == "LIST":
        stmts = [STMTS[k] for k in item[1]]
    else:
        stmts = list(KINDS[item[1]])
    views = part == "KIND"
    ones = {}
    for style, cls, rc in variants(part, tier):
        text = STYLES[style](stmts)
        pieces = check_split(stmts, text)
        if probe is not None and probe[0] == "row":
            # the reference reader applied to the composed text sees the same constant value
            assert pieces[0]["literals"] and pieces[0]["literals"][-1][1] == ref_value, (text, pieces[0])
        if cls not in ones:
            ones[cls] = run_side("one", stmts, None, cls=cls, views=views)
            acc.count("evaluations")
        one = ones[cls]
        es = run_side("es", None, text, cls=cls, rc=rc, views=views)
        acc.count("evaluations")
        acc.count("texts")
        acc.obs((item, style, cls, rc, es["curs"], es["exc"], core.h(es["state"]), core.h(one["state"])))
        acc.outcome((es["n"], es["exc"] and es["exc"][:3], [c[:60] for c in es["curs"]]))
        if stmts and (one["state"][0] != one["pre"] or one["exc"] is not None or len(stmts) > 1):
            acc.nontrivial((tuple(stmts), style, cls, rc))
        bad = compare(one, es, len(pieces), rc, probe, ref_value)
        report(acc, item, style, cls, rc, stmts, text, one, bad, tier)
    acc.sample({"item": item, "statements": stmts, "text_first_style": STYLES[variants(part, tier)[0][0]](stmts)})
    return None


# ---- classifier -----------------------------------------------------------------------------------------------------
CLAUSES = ["C16.failure", "C16.digest", "C16.count", "C16.result", "C16.literal", "C16.flow"]


def first_failure(one):
    """what one-by-one execution says about the list: index of the first failing statement and its kind"""
    if one["exc"] is None:
        return None, "none"
    kind = "parse" if one["exc"][0].startswith("sqlglot.") else "runtime"
    return one["n"], kind


def net_effect(prefix: str) -> bool:
    """Does a prefix of list statements, all of which succeeded, leave a state different from the start?
    (tiny model used only to name classes: u/s act on the session at once; i/c/m are transactional; a transaction
    left open counts as an effect)"""
    tx = pend = eff = False
    for k in prefix:
        if k in "us":
            eff = True
        elif k in "icm":
            if tx:
                pend = True
            else:
                eff = True
        elif k == "b":
            tx = True
        elif k in "rk" and tx:
            eff = eff or (k == "k" and pend)
            pend = tx = False
    return eff or tx


def class_key(clause, item, one, rc=True, text=None):
    """Deterministic class of a case for a clause, or None if the clause cannot be evaluated for the case.
    Names the input shape (template / literal id / statement kind / where the list fails), never values or
    messages.  What one-by-one execution did (index and kind of the first failing statement) is part of the shape."""
    idx, fkind = first_failure(one)
    part = item[0]
    if clause == "C16.flow" and part != "FLOW":
        return None
    if clause in ("C16.count", "C16.result", "C16.literal") and fkind != "none":
        return None  # cursors are not returned when a statement fails
    if clause == "C16.result" and not rc:
        return None
    if clause == "C16.literal" and (part != "LIT" or TEMPLATES[item[1]][2] is None or not rc):
        return None
    # a comment inside a statement that contains an apostrophe (reference tokenizer) is part of the shape
    quote = ""
    if text:
        where = sorted({"own-line" if own else "same-line" for c, own in sf_split.inline_comments(text) if "'" in c})
        quote = ",quote-in-inline-comment=" + "+".join(where) if where else ""
        if part == "LIT" and item[1] == "set_var" and any(own for _, own in sf_split.inline_comments(text)):
            # SET <comment on a line of its own> name = ...: the shape is the statement, whatever the literal
            return "tmpl=set_var,own-line-comment-before-name"
    if part == "LIT":
        return f"tmpl={item[1]},lit={item[2]}{quote}"
    if part == "KIND":
        return f"kind={item[1]}{quote}"
    if part == "FLOW":
        return f"flow={item[1]},{item[2]}={item[3]}{quote}"
    if part != "LIST":
        raise AssertionError(item)
    seq = item[1]
    if clause == "C16.failure":
        # a statement that cannot be parsed: is it the first failing statement, does it come later, or is there none
        unparsable = "none" if "x" not in seq else "first-failure" if seq.index("x") == idx else "after-first-failure"
        return f"list:unparsable={unparsable}"
    if clause == "C16.digest":
        before = "effect-before" if net_effect(seq if idx is None else seq[:idx]) else "no-effect-before"
        return f"list:unparsable={'present' if 'x' in seq else 'none'},{before}"
    return "list:no-failure"


def report(acc, item, style, cls, rc, stmts, text, one, bad, tier):
    failed = {}
    for clause, reason, detail in bad:
        if clause == "note":
            acc.count(reason)
            if not acc.notes:
                acc.note(f"{reason}: e.g. {item} -> {core.jsonable(detail)}"[:300])
            continue
        failed.setdefault(clause, (reason, detail))
    for clause in CLAUSES:
        k = class_key(clause, item, one, rc, text)
        if k is None:
            continue
        acc.member(clause, k, clause in failed)
        if clause in failed:
            reason, detail = failed[clause]
            acc.violation(
                clause,
                k,
                dict(detail, text=text, statements=stmts, style=style, cursor_class=cls, return_cursors=rc),
                {"part": "text", "item": list(item), "statements": stmts, "text": text, "cursor_class": cls,
                 "return_cursors": rc, "views": item[0] == "KIND", "tier": tier},
            )  # fmt: skip


# ---- FLOW -----------------------------------------------------------------------------------------------------------
def flow_reference(fam, lid):
    """-> (reference value or _NOTSET, direct) ; direct = what `select <constant>` gives as one statement through
    cursor.execute.  Strings: the value comes from the reference reader; other constants: from the direct selection."""
    r = run_side("one", ["select " + flow_literal(fam, lid)], None)
    direct = ("raised", r["exc"][:3]) if r["exc"] is not None else ("value", first_value(r["raw"][0]))
    if fam == "const":
        return (direct[1] if direct[0] == "value" else _NOTSET), direct
    return lit_value(fam, lid), direct


def flow_compare(item, one, es, n_ref, ref_value, direct):
    bad = compare(one, es, n_ref, True)
    if ref_value is not _NOTSET:
        bad += compare_flow(es, FLOWS[item[1]][1], ref_value, direct)
    return bad


def work_flow(item, acc, tier):
    _, fid, fam, lid = item
    stmts = flow_statements(fid, fam, lid)
    ref_value, direct = flow_reference(fam, lid)
    acc.count("evaluations")
    ones = {}
    for style, cls in flow_variants(tier):
        text = STYLES[style](stmts)
        pieces = check_split(stmts, text)
        if fam != "const":
            assert pieces[0]["literals"] and pieces[0]["literals"][-1][1] == ref_value, (text, pieces[0])
        if cls not in ones:
            ones[cls] = run_side("one", stmts, None, cls=cls)
            acc.count("evaluations")
        one = ones[cls]
        es = run_side("es", None, text, cls=cls)
        acc.count("evaluations")
        acc.count("texts")
        acc.count("flow_scripts")
        acc.obs((item, style, cls, es["curs"], es["exc"], core.h(es["state"]), core.h(one["state"]), repr(direct)))
        acc.outcome((es["n"], es["exc"] and es["exc"][:3], [c[:60] for c in es["curs"]]))
        acc.nontrivial((tuple(stmts), style, cls, True))
        bad = flow_compare(item, one, es, len(pieces), ref_value, direct)
        report(acc, item, style, cls, True, stmts, text, one, bad, tier)
    acc.sample({"item": item, "statements": stmts, "reference_value": repr(ref_value), "selected_directly": repr(direct)})
    return None


# ---- NOPS -----------------------------------------------------------------------------------------------------------
def run_statement_sequence(pats, stmts, path, cls="tuple"):
    """fixture, then the statements one after the other on ONE instance (each through path, failures recorded and
    passed over) -> {"fixture": [errors], "outcomes": [(exc, [cursor observations])], "state": final state}"""
    import duckdb
    import fakesnow.instance as inst

    logging.disable(logging.WARNING)
    fs = inst.FakeSnow() if pats is None else inst.FakeSnow(nop_regexes=pats)
    try:
        conn = fs.connect(database="db1", schema="s1")
        fixture = []
        for f in FIXTURE:
            try:
                conn.cursor().execute(f)
            except Exception as e:  # noqa: BLE001
                fixture.append((f,) + _exc(e)[:3])
        outcomes = []
        for sql in stmts:
            try:
                if path == "execute_string":
                    curs = list(conn.execute_string(sql + ";", cursor_class=_cursor_class(cls)))
                else:
                    curs = [conn.cursor(_cursor_class(cls)).execute(sql)]
                outcomes.append((None, [observe_cursor(c) for c in curs]))
            except Exception as e:  # noqa: BLE001
                outcomes.append((_exc(e)[:3], []))
        post = take_state(fs, conn, False)
        d = observe.engine_conn(conn)
        d = getattr(d, "_r", d)
        try:
            own = repr(d.execute("select * from db1.s1.t order by all").fetchall())
        except duckdb.Error as e:
            own = "err:" + type(e).__name__
        try:
            d.execute("ROLLBACK")
            tx = True
        except duckdb.Error:
            tx = False
        return {"fixture": fixture, "outcomes": outcomes, "state": (repr(post), own, tx)}
    finally:
        try:
            fs.duck_conn.close()
        except Exception:  # noqa: BLE001
            pass


def status_problems(outcome):
    """is the outcome of one statement the one-row success status?"""
    exc, obs = outcome
    if exc is not None:
        return [("raised", exc)]
    if len(obs) != 1:
        return [("cursors", len(obs))]
    rows = obs[0][0]
    problems = []
    if not (rows[0] == "rows" and len(rows[2]) == 1 and rows[2][0] in (STATUS_ROW, (("status", STATUS_ROW[0]),))):
        problems.append(("rows", rows))
    if first_name(obs[0]) != "status":
        problems.append(("column", first_name(obs[0])))
    return problems


def nops_verdicts(pset, with_opt, without):
    """-> [(clause, class suffix, failed, detail)] for one pattern set: `with_opt` ran all of S_STMTS on an instance
    configured with the set, `without` ran the statements that no pattern of the set matches (reference: s_matching)
    on an instance without the option.  After the first divergence the two instances are no longer in the same state,
    so only the first one is a verdict (later statements are not evaluated)."""
    out = []
    if with_opt["fixture"]:
        return [("C16.nop.other", f"set:unmatched,size={len(pset)}", True,
                 {"what": "statements of the fixture (no pattern matches them) failed", "errors": with_opt["fixture"]})]  # fmt: skip
    j = 0
    any_match = False
    for sql, got in zip(S_STMTS, with_opt["outcomes"]):
        m = s_matching(pset, sql)
        if m:
            any_match = True
            where = "first" if pset.index(m[0]) == 0 else "later"
            cl = ("C16.nop.match", f"set:matched-by={S_PATTERNS[m[0]][0]}@{where}")
            problems = status_problems(got)
        else:
            cl = ("C16.nop.other", f"set:unmatched,size={len(pset)}")
            want = without["outcomes"][j]
            j += 1
            problems = [("differs from an instance without the option", {"with": got, "without": want})] if repr(got) != repr(want) else []
        out.append(cl + (bool(problems), {"statement": sql, "matching_patterns": m, "problems": problems}))
        if problems:
            return out
    differs = with_opt["state"] != without["state"]
    out.append(
        ("C16.nop.match" if any_match else "C16.nop.other", f"set:final-state,size={len(pset)}", differs,
         {"what": "state after all statements differs from that of the unmatched statements alone on an instance without the option",
          "with": _short_state(with_opt["state"]), "without": _short_state(without["state"])} if differs else {})
    )  # fmt: skip
    return out


def work_nops(item, acc, tier):
    _, path, pset = item
    pset = tuple(pset)
    pats = [S_PATTERNS[p][1] for p in pset]
    for cls in ("tuple",) if tier == "quick" else ("tuple", "dict"):
        with_opt = run_statement_sequence(pats, S_STMTS, path, cls)
        without = run_statement_sequence(None, [s for s in S_STMTS if not s_matching(pset, s)], path, cls)
        if without["fixture"]:
            raise core.HarnessError(f"fixture fails without the option: {without['fixture']}")
        acc.count("evaluations", 2)
        acc.count("pattern_set_runs")
        acc.count("pattern_set_statements", len(S_STMTS))
        acc.obs((item, cls, repr(with_opt["outcomes"]), with_opt["fixture"], core.h(with_opt["state"]), core.h(without["state"])))
        acc.outcome(("nops", core.h(repr(with_opt["outcomes"]))))
        for sql in S_STMTS:
            if s_matching(pset, sql):
                acc.nontrivial(("nops", pset, sql, path, cls))
        for clause, k, failed, detail in nops_verdicts(pset, with_opt, without):
            k = f"path={path},{k}"
            acc.member(clause, k, failed)
            if failed:
                acc.violation(
                    clause,
                    k,
                    dict(detail, patterns=pats, path=path, cursor_class=cls),
                    {"part": "nops", "path": path, "pset": list(pset), "tier": tier},
                )
    acc.sample({"item": item, "patterns": pats, "matching": {s: s_matching(pset, s) for s in S_STMTS if s_matching(pset, s)}})
    return None


# ---- EMPTY ----------------------------------------------------------------------------------------------------------
def work_empty(item, acc, tier):
    text = EMPTY_TEXTS[item[1]]
    if sf_split.split(text):
        raise core.HarnessError(f"EMPTY text {text!r} has statements according to the reference")
    one = run_side("one", [], None)
    for cls, rc in (("tuple", True), ("dict", True), ("tuple", False)):
        es = run_side("es", None, text, cls=cls, rc=rc)
        acc.count("evaluations")
        acc.count("texts")
        acc.obs((item, cls, rc, es["n"], es["exc"], core.h(es["state"])))
        acc.outcome(("empty", es["n"], es["exc"] and es["exc"][:3]))
        bad = es["exc"] is not None or es["n"] != 0 or es["state"] != one["state"]
        k = "text=" + empty_class(text)
        acc.member("C16.empty", k, bad)
        if bad:
            acc.violation(
                "C16.empty",
                k,
                {"text": text, "cursors": es["n"], "exception": es["exc"], "state_unchanged": es["state"] == one["state"]},
                {"part": "empty", "text": text, "cursor_class": cls, "return_cursors": rc},
            )
    return None


def empty_class(text):
    kinds = sorted({t[0] for t in sf_split.tokens(text)})
    return "+".join(kinds) if kinds else "nothing"


# ---- NOP ------------------------------------------------------------------------------------------------------------
def work_nop(item, acc, tier):
    _, ps, sid = item
    sql, params = NOP_STMTS[sid]
    pats = PATSETS[ps]
    match = nop_expected_match(ps, sql, params)
    paths = ["execute"]
    if params is None and sql == sql.strip():
        paths.append("execute_string")
    for path in paths:
        for cls in ("tuple", "dict"):
            if tier == "quick" and cls == "dict" and path == "execute_string":
                continue
            if path == "execute":
                with_opt = run_side("one", [sql], None, cls=cls, nop=pats, params=params)
                without = run_side("one", [sql], None, cls=cls, params=params)
            else:
                text = sql + ";"
                with_opt = run_side("es", None, text, cls=cls, nop=pats)
                without = run_side("es", None, text, cls=cls)
            acc.count("evaluations", 2)
            acc.obs((item, path, cls, with_opt["curs"], with_opt["exc"], core.h(with_opt["state"])))
            acc.outcome(("nop", match, with_opt["n"], with_opt["exc"] and with_opt["exc"][:3], with_opt["curs"][:1]))
            if match:
                acc.nontrivial((ps, sid, path, cls))
            rp = {"part": "nop", "patset": ps, "stmt": sid, "path": path, "cursor_class": cls}
            wo = without["exc"]
            wo_kind = "ok" if wo is None else "parse-error" if wo[0].startswith("sqlglot.") else "error"
            k = f"path={path},params={'yes' if params is not None else 'no'},patset={ps},without-option={wo_kind}"
            if match:
                clause = "C16.nop.match"
                problems = nop_match_problems(with_opt)
            else:
                clause = "C16.nop.other"
                problems = []
                if with_opt["exc"] != without["exc"]:
                    problems.append(("exception", with_opt["exc"], without["exc"]))
                if with_opt["curs"] != without["curs"]:
                    problems.append(("cursor", with_opt["curs"], without["curs"]))
                if with_opt["state"] != without["state"]:
                    problems.append(("state", _short_state(with_opt["state"]), _short_state(without["state"])))
            acc.member(clause, k, bool(problems))
            if problems:
                acc.violation(
                    clause,
                    k,
                    {"sql": sql, "params": params, "patterns": pats, "expected_match": match, "problems": problems},
                    rp,
                )
    acc.sample({"item": item, "sql": sql, "params": params, "patterns": pats, "expected_match": match})
    return None


# ---- NOPH ----------------------------------------------------------------------------------------------------------
def _h_apply(cur, op, match_stmt):
    """one operation on a cursor; exceptions are part of the observation"""
    try:
        if op[0] == "exec":
            cur.execute(op[1])
            return ("exec",)
        if op[0] == "match":
            sql, params = match_stmt
            cur.execute(sql) if params is None else cur.execute(sql, params)
            return ("exec",)
        if op[0] == "one":
            return ("one", cur.fetchone())
        if op[0] == "many":
            return ("many", cur.fetchmany(op[1]))
        if op[0] == "all":
            return ("all", cur.fetchall())
    except Exception as e:  # noqa: BLE001
        return ("err",) + _exc(e)[:3]
    raise AssertionError(op)


def _h_observe(cur, target, mode):
    """execute the target on the cursor and read its result in the given mode"""
    sql, params = target
    out = []
    try:
        cur.execute(sql) if params is None else cur.execute(sql, params)
    except Exception as e:  # noqa: BLE001
        return [("err",) + _exc(e)[:3]]
    out.append(("rowcount", cur.rowcount, "sqlstate", cur.sqlstate))
    try:
        out.append(("desc", [tuple(d) for d in cur.description]))
    except Exception as e:  # noqa: BLE001
        out.append(("desc-err",) + _exc(e)[:3])
    try:
        if mode == "all":
            out.append(("all", cur.fetchall()))
            out.append(("then-one", cur.fetchone()))
        elif mode == "one_by_one":
            rows = []
            for _ in range(6):
                r = cur.fetchone()
                rows.append(r)
                if r is None:
                    break
            out.append(("ones", rows))
        else:
            out.append(("many", cur.fetchmany(2), cur.fetchmany(2)))
    except Exception as e:  # noqa: BLE001
        out.append(("fetch-err",) + _exc(e)[:3])
    return out


def h_expected_status(mode, cls):
    """what reading the one-row success status gives in each mode (reference; rowcount/description are compared
    with the new-cursor execution instead)"""
    row = {"status": STATUS_ROW[0]} if cls == "dict" else STATUS_ROW
    if mode == "all":
        return [("all", [row]), ("then-one", None)]
    if mode == "one_by_one":
        return [("ones", [row, None])]
    return [("many", [row], [])]


# ---- NOPP ----------------------------------------------------------------------------------------------------------
def full_state(pairs):
    """complete ground truth of every instance involved: catalog, all data incl. fakesnow's side tables, and every
    session's context / variables (definitions compared modulo comments)"""
    out = []
    for fs, conns in pairs:
        d = dict(observe.digest(fs, conns, views=False))
        d["sessions"] = tuple(
            sess[:5] + (tuple((k, _var_text(v)) for k, v in sess[5]),) + sess[6:] for sess in d["sessions"]
        )
        # comments kept in the engine's own catalog (column comments) are ground truth too
        raw = observe.raw(fs)
        d["engine_comments"] = tuple(
            raw.execute(
                "select database_name, schema_name, table_name, column_name, comment from duckdb_columns() "
                f"where comment is not null and database_name not in {observe.SKIP} "
                "union all select database_name, schema_name, table_name, null, comment from duckdb_tables() "
                f"where comment is not null and database_name not in {observe.SKIP} order by all"
            ).fetchall()
        )
        out.append(tuple(sorted(d.items())))
    return repr(out)


def run_process_history(nopper, change, target, path, cls, with_option=True):
    """[fixture, nopper statements on connection 1] -> [change] -> full state -> target through path -> full state.
    Everything happens in this process on freshly created instances."""
    import fakesnow.instance as inst

    logging.disable(logging.WARNING)
    opts = {"nop_regexes": P_PATTERNS} if with_option else {}
    stmts, where = P_CHANGES[change]
    instances = [inst.FakeSnow(**opts)]
    try:
        setup = []

        def ex(conn, sql):
            try:
                conn.cursor().execute(sql)
            except Exception as e:  # noqa: BLE001
                setup.append((sql,) + _exc(e)[:3])

        c1 = instances[0].connect(database="db1", schema="s1")
        for f in FIXTURE:
            ex(c1, f)
        for sql in P_NOPPERS[nopper]:
            ex(c1, sql)
        for sql in stmts:
            ex(c1, sql)
        pairs = [(instances[0], [c1])]
        actor = c1
        if isinstance(where, tuple):
            actor = instances[0].connect(database="db1", schema=where[1])
            pairs[0][1].append(actor)
        elif where.startswith("instance2"):
            instances.append(inst.FakeSnow(**opts))
            actor = instances[1].connect(database="db1", schema="s1")
            pairs.append((instances[1], [actor]))
            if where == "instance2_with_t":
                for f in FIXTURE:
                    ex(actor, f)
                ex(actor, "alter table t set comment = 'other instance'")
        pre = full_state(pairs)
        curs, exc = [], None
        try:
            if path == "execute_string":
                curs = list(actor.execute_string(target + ";", cursor_class=_cursor_class(cls)))
            else:
                curs = [actor.cursor(_cursor_class(cls)).execute(target)]
        except Exception as e:  # noqa: BLE001
            exc = _exc(e)
        obs = [observe_cursor(c) for c in curs]
        post = full_state(pairs)
        return {"setup_errors": setup, "n": len(curs), "raw": obs, "curs": [repr(o) for o in obs], "exc": exc,
                "pre": pre, "post": post}  # fmt: skip
    finally:
        for fs in instances:
            try:
                fs.duck_conn.close()
            except Exception:  # noqa: BLE001
                pass


def _state_diff(pre, post):
    """where two state reprs differ (for the violation detail)"""
    i = next((j for j, (a, b) in enumerate(zip(pre, post)) if a != b), min(len(pre), len(post)))
    return {"before": pre[max(0, i - 200) : i + 200], "after": post[max(0, i - 200) : i + 200]}


def work_nopp(item, acc, tier):
    _, nid, cid = item
    variants_ = [("execute", "tuple"), ("execute_string", "tuple")]
    if tier != "quick":
        variants_ += [("execute", "dict"), ("execute_string", "dict")]
    k = f"history:after={nid},change={cid}"
    for path, cls in variants_:
        r = run_process_history(nid, cid, P_MATCH, path, cls)
        acc.count("evaluations")
        acc.count("process_histories")
        acc.obs((item, path, cls, "match", r["setup_errors"], r["curs"], r["exc"], core.h(r["pre"]), core.h(r["post"])))
        acc.outcome(("nopp", r["n"], r["exc"] and r["exc"][:3], r["curs"][:1]))
        acc.nontrivial((nid, cid, path, cls, "match"))
        problems = nop_match_problems(dict(r, state=(r["post"],)))
        if r["post"] != r["pre"] and ("digest changed",) in problems:
            problems.append(("what changed", _state_diff(r["pre"], r["post"])))
        acc.member("C16.nop.match", k, bool(problems))
        if problems:
            acc.violation(
                "C16.nop.match",
                k,
                {"patterns": P_PATTERNS, "first": P_NOPPERS[nid], "change": P_CHANGES[cid], "statement": P_MATCH,
                 "path": path, "cursor_class": cls, "setup_errors": r["setup_errors"], "problems": problems},
                {"part": "nopp", "nopper": nid, "change": cid, "tier": tier},
            )  # fmt: skip
        if cls != "tuple":
            continue
        # a statement that does not match: exactly as on instances created without the option
        w = run_process_history(nid, cid, P_OTHER, path, cls)
        wo = run_process_history(nid, cid, P_OTHER, path, cls, with_option=False)
        acc.count("evaluations", 2)
        acc.count("process_histories", 2)
        acc.obs((item, path, "other", w["setup_errors"], w["curs"], w["exc"], core.h(w["post"])))
        if w["post"] != w["pre"] or w["exc"] is not None:
            acc.nontrivial((nid, cid, path, cls, "other"))
        problems = []
        for key in ("setup_errors", "exc", "curs", "pre", "post"):
            if w[key] != wo[key]:
                problems.append((key, w[key] if key not in ("pre", "post") else _state_diff(wo[key], w[key]), wo[key] if key not in ("pre", "post") else None))
        acc.member("C16.nop.other", k, bool(problems))
        if problems:
            acc.violation(
                "C16.nop.other",
                k,
                {"patterns": P_PATTERNS, "first": P_NOPPERS[nid], "change": P_CHANGES[cid], "statement": P_OTHER,
                 "path": path, "problems": problems},
                {"part": "nopp", "nopper": nid, "change": cid, "tier": tier},
            )  # fmt: skip
    acc.sample({"item": item, "first": P_NOPPERS[nid], "change": P_CHANGES[cid], "match": P_MATCH, "other": P_OTHER})
    return None


def work_noph(item, acc, tier):
    """For one pattern set and cursor class: every (prior history, target statement, fetch mode) on one instance.
    Oracle: the target executed on the used cursor is observed exactly as the same target executed on a new cursor
    (rows in every fetch mode, rowcount, description, sqlstate), and a matching target reads as the status row."""
    import fakesnow.instance as inst

    _, ps, cls = item
    logging.disable(logging.WARNING)
    fs = inst.FakeSnow(nop_regexes=PATSETS[ps])
    try:
        conn = fs.connect(database="db1", schema="s1")
        c0 = conn.cursor()
        for f in FIXTURE:
            c0.execute(f)
        pre = repr(take_state(fs, conn, False))
        matching = H_MATCHING[ps]
        targets = [("match", t) for t in matching] + [("other", t) for t in H_OTHER]
        priors = H_PRIORS_QUICK if tier == "quick" else list(H_PRIORS)
        for tkind, target in targets:
            if tkind == "match" and not nop_expected_match(ps, *target):
                raise core.HarnessError(f"{target} does not match {ps} according to the reference")
            for mode in H_MODES:
                fresh = _h_observe(conn.cursor(_cursor_class(cls)), target, mode)
                for pid in priors:
                    ops = H_PRIORS[pid]
                    if any(o[0] == "match" for o in ops) and not matching:
                        continue
                    cur = conn.cursor(_cursor_class(cls))
                    before = [_h_apply(cur, o, matching[0] if matching else None) for o in ops]
                    got = _h_observe(cur, target, mode)
                    acc.count("evaluations")
                    acc.count("cursor_histories")
                    acc.obs((item, tkind, target, mode, pid, repr(before), repr(got)))
                    acc.outcome(("noph", tkind, mode, repr(got)[:120]))
                    if pid != "new_cursor":
                        acc.nontrivial((ps, cls, tkind, target, mode, pid))
                    problems = []
                    if repr(got) != repr(fresh):
                        problems.append(("differs from a new cursor", {"used_cursor": got, "new_cursor": fresh}))
                    if tkind == "match":
                        want = h_expected_status(mode, cls)
                        if repr(got[2:]) != repr(want):
                            problems.append(("not the status row", {"got": got[2:], "expected": want}))
                        if len(got) > 1 and got[1][0] == "desc" and [d[0] for d in got[1][1]] != ["status"]:
                            problems.append(("column name", got[1]))
                    k = f"target={tkind},prior={pid}"
                    acc.member("C16.nop.cursor", k, bool(problems))
                    if problems:
                        acc.violation(
                            "C16.nop.cursor",
                            k,
                            {"patterns": PATSETS[ps], "cursor_class": cls, "prior": ops, "target": target,
                             "fetch_mode": mode, "problems": problems},
                            {"part": "noph", "patset": ps, "cursor_class": cls, "tier": tier},
                        )  # fmt: skip
        post = repr(take_state(fs, conn, False))
        acc.member("C16.nop.cursor", "state-after-all-histories", post != pre)
        if post != pre:
            acc.violation(
                "C16.nop.cursor",
                "state-after-all-histories",
                {"patterns": PATSETS[ps], "note": "statements that match or do not change anything changed the state"},
                {"part": "noph", "patset": ps, "cursor_class": cls, "tier": tier},
            )
    finally:
        try:
            fs.duck_conn.close()
        except Exception:  # noqa: BLE001
            pass
    acc.sample({"item": item, "priors": priors, "matching": matching, "modes": H_MODES})
    return None


def nop_match_problems(r):
    problems = []
    if r["exc"] is not None:
        problems.append(("raised", r["exc"]))
        return problems
    if r["n"] != 1:
        problems.append(("cursors", r["n"]))
        return problems
    raw = r["raw"][0]
    rows = raw[0]
    ok_rows = rows[0] == "rows" and len(rows[2]) == 1 and (
        rows[2][0] == STATUS_ROW or rows[2][0] == (("status", STATUS_ROW[0]),)
    )
    if not ok_rows:
        problems.append(("rows", rows))
    if first_name(raw) != "status":
        problems.append(("column", first_name(raw)))
    if r["state"][0] != r["pre"]:
        problems.append(("digest changed",))
    return problems


# =====================================================================================================================
def run(ctx: core.Ctx):
    its = items(ctx.tier)
    ctx.rule = (
        "complete products, every element executed on two fresh instances (execute_string vs one by one): "
        "LIT = templates x literal contents x LIT_SHAPES (layout, tail) x styles (tuple; Dict on STYLES_QUICK; "
        "return_cursors=False on STYLES_RC_FALSE); "
        "LIST = every statement sequence within LIST_BOUNDS x styles x cursor class/return_cursors variants; "
        "KIND = one list per statement kind x styles; EMPTY = statement-free texts x cursor class/return_cursors; "
        "NOP = pattern sets x statements x {execute, execute_string} x cursor class, with-option vs without-option "
        "instances; NOPP = statement kinds answered by fakesnow's internal success statement x changes of what they "
        "referred to (comment set another way, drop, rename, USE SCHEMA, second connection, second instance) x "
        "{matching, other} statement x {execute, execute_string}; FLOW = scripts in which a constant written in one "
        "statement is read back by a later one (SET -> $v, SET -> SET -> $w, SET -> INSERT -> SELECT, CTAS -> SELECT) x "
        "constants (string contents, $$ contents, non-string constants) x styles x cursor class, against one-by-one "
        "execution and the reference value of the constant; NOPS = ordered pattern sets of size 1..3 over S_PATTERNS "
        "(quick: size 3 over S_CORE) x S_STMTS run in order on one instance x {execute, execute_string}, against an "
        "instance without the option that runs the statements no pattern matches (Python's re.match per pattern); NOPH = pattern sets x cursor class x prior cursor histories x targets x fetch modes, used cursor "
        "vs new cursor; non-trivial = text whose one-by-one execution changes state, fails, or has > 1 statement, and "
        "nop cases the reference says match"
    )
    ctx.assumptions = [
        "the reference splitter (mc/ref/sf_split.py, Snowflake's lexical rules) decides the number of statements; "
        "it is cross-checked against the composition of every text",
        "one-by-one execution through cursor.execute on a second fresh instance is the reference for results and "
        "final state (differential oracle); cursors are observed after the whole list ran on both sides",
        "exception messages are not compared (class, errno, sqlstate are)",
        "results with more than one row are ordered by the statement",
    ]
    ctx.extra["alphabets"] = {
        "templates": list(TEMPLATES),
        "literals": {f: lit_alphabet(f, ctx.tier) for f in ("sq", "dq", "id")},
        "styles_LIT": sorted({v[0] for v in variants("LIT", ctx.tier)}),
        "list_bounds": LIST_BOUNDS[ctx.tier],
        "list_styles": LIST_STYLES[ctx.tier],
        "kinds": len(KINDS),
        "empty_texts": len(EMPTY_TEXTS),
        "patsets": list(PATSETS),
        "nop_statements": NOP_QUICK_STMTS if ctx.quick else list(NOP_STMTS),
        "cursor_history_priors": H_PRIORS_QUICK if ctx.quick else list(H_PRIORS),
        "cursor_history_modes": H_MODES,
        "process_history_first": P_NOPPERS_QUICK if ctx.quick else list(P_NOPPERS),
        "process_history_changes": P_CHANGES_QUICK if ctx.quick else list(P_CHANGES),
        "layouts": sorted({x[0] for x in LIT_SHAPES[ctx.tier]}),
        "flows": list(FLOWS),
        "flow_literals": {f: flow_lit_alphabet(f, ctx.tier) for f in ("sq", "dq", "const")},
        "flow_variants": [list(v) for v in flow_variants(ctx.tier)],
        "set_patterns": {k: v[1] for k, v in S_PATTERNS.items()},
        "pattern_sets": len(s_pattern_sets(ctx.tier)),
        "set_statements": S_STMTS,
    }
    ctx.extra["items"] = len(its)
    ctx.pmap(work, its)
    ctx.exhaustive = True


# =====================================================================================================================
def replay(payload):
    import json

    r = payload["replay"]
    acc = core.Acc()
    if r["part"] == "text":
        item = tuple(r["item"])
        stmts, text, cls, rc = r["statements"], r["text"], r["cursor_class"], r["return_cursors"]
        pieces = check_split(stmts, text)
        probe = ref_value = None
        if item[0] == "LIT":
            _, fam, probe = TEMPLATES[item[1]]
            ref_value = lit_value(fam, item[2]) if probe is not None else None
        one = run_side("one", stmts, None, cls=cls, views=r["views"])
        es = run_side("es", None, text, cls=cls, rc=rc, views=r["views"])
        print("text:", repr(text))
        print("reference split:", [p["code"] for p in pieces])
        print("one by one   :", one["n"], "cursors", one["curs"], "exc", one["exc"], "tx_open", one["state"][2], "T", one["state"][1])  # fmt: skip
        print("execute_string:", es["n"], "cursors", es["curs"], "exc", es["exc"], "tx_open", es["state"][2], "T", es["state"][1])  # fmt: skip
        if item[0] == "FLOW":
            ref_value, direct = flow_reference(item[2], item[3])
            print("reference value:", repr(ref_value), "selected directly:", repr(direct))
            bad = flow_compare(item, one, es, len(pieces), ref_value, direct)
        else:
            bad = compare(one, es, len(pieces), rc, probe, ref_value)
        report(acc, item, "-", cls, rc, stmts, text, one, bad, r.get("tier", "quick"))
        for b in bad:
            print("verdict:", json.dumps(core.jsonable(b))[:1200])
    elif r["part"] == "empty":
        i = EMPTY_TEXTS.index(r["text"])
        work_empty(("EMPTY", i), acc, "quick")
    elif r["part"] == "nopp":
        fresh_fakesnow()
        work_nopp(("NOPP", r["nopper"], r["change"]), acc, r.get("tier", "thorough"))
    elif r["part"] == "noph":
        work_noph(("NOPH", r["patset"], r["cursor_class"]), acc, r.get("tier", "thorough"))
    elif r["part"] == "nop":
        work_nop(("NOP", r["patset"], r["stmt"]), acc, "thorough")
    elif r["part"] == "nops":
        fresh_fakesnow()
        work_nops(("NOPS", r["path"], tuple(r["pset"])), acc, r.get("tier", "thorough"))
    else:
        raise core.HarnessError(f"unknown replay part {r['part']}")
    want = (payload["clause"], payload["class"])
    hit = want in acc.viol
    for k, v in sorted(acc.viol.items()):
        print("violation:", k, json.dumps(v["detail"], sort_keys=True)[:800])
    print("reproduced" if hit else "not reproduced", want)
    return hit
