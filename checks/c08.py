"""C08 — bound parameters arrive as data, whatever they contain.

Engine E2: complete finite product   values x placeholder positions x paramstyles   on the real code, every case
executed twice (with bound parameters / with the value written as a Snowflake constant by the independent renderer
mc/ref/sf_literal.py) and judged against a small Python model of what the statement must do.

Clauses
  C08.value        the value written by / returned from a statement with a bound parameter is the Python value
                   (positions that hand the value back: select list, repeated key, INSERT, UPDATE, next to a session
                   variable, next to comments / string literals holding placeholder text, two adjacent parameters)
  C08.equiv        the statement with a bound parameter selects / deletes exactly the rows that SQL semantics give for
                   that value over ground-truth data (the rows the statement with a correctly quoted literal must
                   select): WHERE =, IN (p, p), IN (list), LIKE next to a literal %%, LIKE subject, DELETE WHERE.
                   Referee before reporting: the same statement with the value delivered as column data.
  C08.structure    no value changes the structure: the result has the width/row count of the benign case and no
                   object other than the statement's target changes (ground truth: raw DuckDB catalog + data)
  C08.executemany  executemany over 0/1/3 parameter sets leaves exactly the rows the sets describe, and the same
                   rows as the sequence of single execute() calls
  C08.paramstyle   a connection keeps the paramstyle it was created under when snowflake.connector.paramstyle is
                   changed afterwards (cursor made before / after the change, second connection under the new style)
  C08.caller_params  execute()/executemany() leave the caller's parameter object (tuple, list, dict, list of rows) exactly
                   as it was (deep copy before, type-strict comparison after) - checked on every binding call of this check
  C08.history      a binding's effect is the value's own, whatever was bound before: for every ordered pair (a, b) of a
                   written-out alphabet of values that Python considers equal although they are different data
                   (1 / True / 1.0 / Decimal('1'), 0 / False / 0.0, Decimal('1.1') / Decimal('1.10'), one instant with
                   two UTC offsets, equal tuples) and ordinary values, b bound after a - on the same cursor, on another
                   cursor of the same connection, on another connection (thorough), in one execute, in one executemany
                   (pairs; triples in thorough) - has exactly (type- and text-strictly) the effect b has on a fresh
                   instance that bound nothing else (untyped select list, cast to varchar, VARCHAR column)
                   Also under this clause: statements that refer to a session variable ($v) with and without bound
                   parameters after one SET, for every variable value that could be mistaken for (part of) a
                   placeholder (%, %%, %s, %d, %(x)s, ?, :1) or needs quoting (quote, backslash, $x), every ordered
                   pair (thorough: triple) of statement kinds, on one cursor and on separate cursors: each statement
                   returns / stores the variable's value and the parameter's value, nothing raises
                   And re-use of the SAME parameter object (tuple / list / dict): execute twice, executemany over
                   [row, row], executemany then execute with one of its rows - the later use behaves exactly like the
                   first and like an equal object built afresh

Not demanded (ambiguous or outside the statement)
  * NaN / Infinity, bytes, the `numeric` paramstyle, lists under qmark (the connector's qmark list = array binding),
    list elements other than str/int (the connector itself renders other element types wrongly), empty parameter
    sequences next to %% (connector and docs disagree), Decimals whose str() uses exponent notation, years < 1000
    (the connector writes them unpadded, Snowflake's reading of that text is undocumented), floats whose shortest
    repr has more than 15 significant digits (client-side they travel as a fixed-point constant, and NUMBER -> FLOAT
    conversion is not documented to be correctly rounded; DuckDB's is not);
  * the Python *type* of an untyped temporal/Decimal/float parameter in a select list: the connector sends these as
    string constants / fixed-point constants, so such values are only placed where the SQL context fixes the type
    (cast in the select list, column of the value's type);
  * int vs Decimal for integral NUMBER results, the sign of a float zero, the UTC offset (as opposed to the instant)
    of a TIMESTAMP_TZ, cursor.rowcount and cursor.description (subjects of C01/C04/C06);
  * DDL / COMMENT statements with parameters: COMMENT ON TABLE t IS 'it''s' fails in fakesnow for the literal
    statement exactly as for the bound one (the comment is re-quoted by hand when it is recorded), which makes it a
    metadata defect (C09), not a binding defect; server-side binds in DDL are undocumented;
  * rowcount / result of executemany (the connector batches INSERTs and reports the total, fakesnow the last);
  * a deviation from the model at a *matching* position (=, IN, LIKE) that the same statement shows when the value is
    delivered as column data (scalar subquery on a raw-loaded table, no quoting involved): that is the operator's
    behaviour (or the model's error), not the binding; it is counted in evidence (`shared_deviation_from_model`) and
    not reported.  A literal statement (independent renderer) that deviates while the bound one is right is only
    counted (`literal_path_deviation`: fakesnow's parser has no \\x00 / \\0 escape, and before the C15 fixes $name
    was inlined inside string constants - C01/C15 territory); the literal execution is evidence in every
    counterexample and the cross-check of the model, not the judge.
"""
from __future__ import annotations

import datetime
import decimal

from mc import core
from mc.ref import sf_literal as L

PID = "C08"
LEVEL = "exploration"

D = decimal.Decimal
UTC = datetime.timezone.utc
TZ530 = datetime.timezone(datetime.timedelta(hours=5, minutes=30))
TZM8 = datetime.timezone(datetime.timedelta(hours=-8))

# ---- value alphabets (written out) ------------------------------------------------------------------------------------
STR = [
    "", "a", "'", "''", '"', "\\", "\\\\", "\\'", "a\\nb", "a\nb", "\t", "%", "%s", "%%", "%(x)s", "$", "$x", "$$",
    "$$x$$", "?", ";", "--", "-- x", "/*", "/* x */", "a;b", "❄", "\u0000x", "\x7f", "é", "\U0001d4b3", "{",
    "{}", "${x}", "\\u0041", "x' or '1'='1", "'); drop table keep; --", "\r\n", "  lead", "trail  ", "a\\", "\\%", "_",
    "a'b\"c\\d",
    # additions to probe p22's list
    "a\u0000b", "%(v)s", "%d", "100%", "$sv", "a' -- ", "\\' or 1=1 --", "ab", "a_b%",
]  # fmt: skip
# strings that are able to break quoting / substitution in at least one conceivable implementation
STR_BREAKERS = ["a", "'", "\\", "\\'", "a\\", "%s", "%(v)s", "$sv", "?", "--", "/*", "\u0000x", "a\nb", "'); drop table keep; --"]  # fmt: skip
INT = [0, 1, -1, 2**63 - 1, -(2**63), 2**63, 2**64 + 1, 10**30, -(10**30), 10**38 - 1]
FLOAT = [0.5, -0.0, 1e-320, 1e308, 0.1, -1234.5625]
DEC = [D("1.10"), D("0"), D("-0.01"), D("12345678901234567890.123456789"), D("99999999999999999999999999999.999999999")]  # fmt: skip
BOOL = [True, False]
DATE = [datetime.date(1582, 10, 15), datetime.date(1969, 12, 31), datetime.date(2024, 2, 29), datetime.date(9999, 12, 31)]  # fmt: skip
TS = [
    datetime.datetime(1969, 12, 31, 23, 59, 59, 1),
    datetime.datetime(2020, 1, 2, 3, 4, 5),
    datetime.datetime(9999, 12, 31, 23, 59, 59, 999999),
]
TSTZ = [
    datetime.datetime(2020, 1, 2, 3, 4, 5, 678901, tzinfo=UTC),
    datetime.datetime(2020, 1, 2, 3, 4, 5, tzinfo=TZ530),
    datetime.datetime(1969, 12, 31, 16, 0, 0, tzinfo=TZM8),
]
TIME = [datetime.time(0, 0, 0), datetime.time(23, 59, 59, 999999), datetime.time(12, 0, 0, 1)]


class Fam:
    def __init__(self, name, sqltype, values, benign, cast, with_null=False):
        self.name, self.sqltype, self.cast = name, sqltype, cast
        self.values = list(values) + ([None] if with_null else [])
        self.b1, self.b2 = benign
        # rows of the matching fixture: id -> value
        self.fx = list(values) + [self.b1, self.b2, None]


FAMS = {
    f.name: f
    for f in [
        Fam("str", "varchar", STR, ("benign", "other"), cast=False, with_null=True),
        Fam("int", "number(38,0)", INT, (42, 43), cast=False, with_null=True),
        Fam("float", "float", FLOAT, (2.25, 3.75), cast=True),
        Fam("dec", "number(38,9)", DEC, (D("7.5"), D("8.25")), cast=True),
        Fam("bool", "boolean", BOOL, (True, False), cast=False),
        Fam("date", "date", DATE, (datetime.date(2001, 2, 3), datetime.date(2002, 3, 4)), cast=True),
        Fam("ts", "timestamp_ntz", TS, (datetime.datetime(2001, 2, 3, 4, 5, 6), datetime.datetime(2002, 3, 4, 5, 6, 7)), cast=True),  # fmt: skip
        Fam("tstz", "timestamp_tz", TSTZ, (datetime.datetime(2001, 2, 3, 4, 5, 6, tzinfo=UTC), datetime.datetime(2002, 3, 4, 5, 6, 7, tzinfo=UTC)), cast=True),  # fmt: skip
        Fam("time", "time", TIME, (datetime.time(1, 2, 3), datetime.time(4, 5, 6)), cast=True),
    ]
}
FAM_ORDER = ["str", "int", "float", "dec", "bool", "date", "ts", "tstz", "time"]

# ---- instance options that have nothing to do with binding: every case must behave as on a default instance -------------
# nop_regexes: statements matching a pattern are skipped; none of the patterns matches a statement of this check
INSTANCE_OPTS = {
    None: {},
    "nop_regexes": {"nop_regexes": [r"^\s*CALL\b.*", r"^\s*GRANT\s+(\w+)\s+ON\b"]},
}
OPT_POS = ("sel", "ins", "where", "merge_ins")  # positions run again on every non-default instance (str family, all styles)

# ---- paramstyles ----------------------------------------------------------------------------------------------------------
# name -> (value of snowflake.connector.paramstyle when the connection is made, placeholder kind, container)
STYLES = {
    "pyformat_seq": ("pyformat", "seq", tuple),
    "pyformat_dict": ("pyformat", "dict", dict),
    "format_seq": ("format", "seq", list),
    "qmark": ("qmark", "qmark", tuple),
}
STYLE_ORDER = ["pyformat_seq", "pyformat_dict", "format_seq", "qmark"]


def bind_kind(style):
    return "server" if style == "qmark" else "client"


class Binder:
    """Builds the text of one statement for a style and collects the parameters."""

    def __init__(self, style):
        self.kind = STYLES[style][1]
        self.container = STYLES[style][2]
        self.seq = []
        self.map = {}

    @property
    def pct(self):  # a literal percent sign in the command text
        return "%" if self.kind == "qmark" else "%%"

    def ph(self, v, name="v"):
        if self.kind == "qmark":
            self.seq.append(v)
            return "?"
        if self.kind == "seq":
            self.seq.append(v)
            return "%s"
        # dict: the same name is reused for the same request (repeated key), a different value needs another name
        if name in self.map and self.map[name] is not v and self.map[name] != v:
            raise AssertionError(f"key {name} bound twice")
        self.map[name] = v
        return f"%({name})s"

    def params(self):
        if self.kind == "dict":
            return dict(self.map)
        return self.container(self.seq)


class Literal:
    """Same interface; writes the value as a Snowflake constant (independent renderer), no parameters."""

    pct = "%"

    def ph(self, v, name="v"):
        return L.render(v)

    def params(self):
        return None


class Column:
    """Same interface; the value under test is delivered as data that never was statement text: a scalar subquery on
    the one-row table pv (loaded through raw DuckDB).  Referee for the matching positions: what the operator does
    with this value when no quoting is involved at all.  Other (benign) values are written as constants."""

    pct = "%"

    def __init__(self, v):
        self.v = v

    def ph(self, v, name="v"):
        if name == "v":
            if isinstance(v, list):
                return "(select v from pv), " + L.render(v[1:])
            return "(select v from pv)"
        return L.render(v)

    def params(self):
        return None


# ---- positions ------------------------------------------------------------------------------------------------------------
def _e(b, F, v, name="v"):
    t = b.ph(v, name)
    return f"cast({t} as {F.sqltype})" if F.cast else t


def p_sel(b, F, v):
    return f"select 7 as a, {_e(b, F, v)} as v, 'z' as z"


def p_sel_rep(b, F, v):
    return f"select {_e(b, F, v)} as v1, 'z' as z, {_e(b, F, v)} as v2"


def p_ins(b, F, v):
    return f"insert into tg (id, v) values (1, {b.ph(v)})"


def p_upd(b, F, v):
    return f"update tg set v = {b.ph(v)} where id = 1"


def p_del(b, F, v):
    return f"delete from tg where v = {b.ph(v)}"


def p_merge_ins(b, F, v):
    return f"merge into tg using (select 1 as id) s on tg.id = s.id when not matched then insert (id, v) values (s.id, {b.ph(v)})"


def p_merge_upd(b, F, v):
    return f"merge into tg using (select 1 as id) s on tg.id = s.id when matched then update set v = {b.ph(v)}"


def p_merge_on(b, F, v):
    return f"merge into tg using (select 1 as k) s on tg.v = {b.ph(v)} when matched then delete"


def p_where(b, F, v):
    return f"select id from fx where v = {b.ph(v)} order by id"


def p_in2(b, F, v):
    return f"select id from fx where v in ({b.ph(v)}, {b.ph(F.b1, 'w')}) order by id"


def p_inlist(b, F, v):
    return f"select id from fx where v in ({b.ph([v, F.b1])}) order by id"


def p_like_pat(b, F, v):
    return f"select id from fx where v like '{b.pct}' || {b.ph(v)} || '{b.pct}' order by id"


def p_like_subj(b, F, v):
    return f"select {b.ph(v)} like 'a{b.pct}' as r"


def p_sessvar(b, F, v):
    return f"select $sw as w, {_e(b, F, v)} as v, $sv as n"


def p_sessvar_pct(b, F, v):
    return f"select $sp as p, {_e(b, F, v)} as v"


def p_comment_lit(b, F, v):
    k = "%(x)s"
    if b.pct == "%%":
        k = "%%(x)s"
    return (
        f"select 'it''s {b.pct}s ?' as a, -- ? {b.pct}s tail\n"
        f" {_e(b, F, v)} as v, /* ? {b.pct}s :1 */ '{k} ? :1' as b"
    )


POS = {
    # name: (builder, kind, families or None=all, uses tg)
    "sel": (p_sel, "value", None),
    "sel_rep": (p_sel_rep, "value", None),
    "ins": (p_ins, "value", None),
    "upd": (p_upd, "value", None),
    "sessvar": (p_sessvar, "value", None),
    "sessvar_pct": (p_sessvar_pct, "value", None),
    "comment_lit": (p_comment_lit, "value", None),
    # the same three roles inside a MERGE (a statement the library takes apart and re-assembles as several statements)
    "merge_ins": (p_merge_ins, "value", None),
    "merge_upd": (p_merge_upd, "value", None),
    "merge_on": (p_merge_on, "match", None),
    "del": (p_del, "match", None),
    "where": (p_where, "match", None),
    "in2": (p_in2, "match", None),
    "inlist": (p_inlist, "match", ("str", "int")),
    "like_pat": (p_like_pat, "match", ("str",)),
    "like_subj": (p_like_subj, "match", ("str",)),
}
POS_ORDER = ["sel", "sel_rep", "ins", "upd", "merge_ins", "merge_upd", "merge_on", "del", "where", "in2", "inlist", "like_pat", "like_subj", "sessvar", "sessvar_pct", "comment_lit"]  # fmt: skip
QUICK_FULL_POS = ("sel", "ins", "merge_ins", "where", "like_pat", "comment_lit")  # quick tier: every string; other positions: breakers
SESSION_SETUP = ["set sv = 5", "set sw = 'w'", "set sp = '100%'"]


def applicable(style, pos, fam):
    fams = POS[pos][2]
    if fams is not None and fam not in fams:
        return False
    if pos == "inlist" and style == "qmark":
        return False  # not demanded: the connector's qmark list is an array bind, not an IN list
    return True


def _eq_sql(a, b):
    return a is not None and b is not None and a == b


def expected(pos, F, v):
    """-> (rows, column families, tg rows before, tg rows after).  Pure Python; knows nothing of fakesnow."""
    tg0 = []
    if pos == "sel":
        return [(7, v, "z")], ("exact", F.name, "exact"), tg0, tg0
    if pos == "sel_rep":
        return [(v, "z", v)], (F.name, "exact", F.name), tg0, tg0
    if pos == "ins":
        return [(1,)], ("exact",), tg0, [(1, v)]
    if pos == "upd":
        tg0 = [(1, F.b1), (2, F.b2)]
        return [(1, 0)], ("exact", "exact"), tg0, [(1, v), (2, F.b2)]
    if pos == "merge_ins":
        return [(1,)], ("exact",), tg0, [(1, v)]
    if pos == "merge_upd":
        tg0 = [(1, F.b1), (2, F.b2)]
        return [(1,)], ("exact",), tg0, [(1, v), (2, F.b2)]
    if pos in ("del", "merge_on"):
        tg0 = [(1, v), (2, F.b2)]
        keep = [r for r in tg0 if not _eq_sql(r[1], v)]
        return [(len(tg0) - len(keep),)], ("exact",), tg0, keep
    if pos == "where":
        return [(i,) for i, x in enumerate(F.fx) if _eq_sql(x, v)], ("exact",), tg0, tg0
    if pos in ("in2", "inlist"):
        return [(i,) for i, x in enumerate(F.fx) if _eq_sql(x, v) or _eq_sql(x, F.b1)], ("exact",), tg0, tg0
    if pos == "like_pat":
        if v is None:
            return [], ("exact",), tg0, tg0
        return [(i,) for i, x in enumerate(F.fx) if x is not None and L.like(x, "%" + v + "%")], ("exact",), tg0, tg0
    if pos == "like_subj":
        return [(None if v is None else L.like(v, "a%"),)], ("exact",), tg0, tg0
    if pos == "sessvar":
        return [("w", v, 5)], ("exact", F.name, "exact"), tg0, tg0
    if pos == "sessvar_pct":
        return [("100%", v)], ("exact", F.name), tg0, tg0
    if pos == "comment_lit":
        return [("it's %s ?", v, "%(x)s ? :1")], ("exact", F.name, "exact"), tg0, tg0
    raise AssertionError(pos)


# ---- value comparison (what "arrives unchanged" means per family; see "not demanded") ---------------------------------
def same(fam, got, exp):
    if exp is None or got is None:
        return exp is None and got is None
    if fam == "exact":
        return type(got) is type(exp) and got == exp
    if fam == "str":
        return type(got) is str and got == exp
    if fam == "int":
        return type(got) in (int, D) and D(got) == D(exp)
    if fam == "float":
        return type(got) is float and got == exp
    if fam == "dec":
        return type(got) in (int, D) and D(got) == exp
    if fam == "bool":
        return type(got) is bool and got == exp
    if fam == "date":
        return type(got) is datetime.date and got == exp
    if fam == "ts":
        return type(got) is datetime.datetime and got.tzinfo is None and got == exp
    if fam == "tstz":
        return isinstance(got, datetime.datetime) and got.tzinfo is not None and got == exp
    if fam == "time":
        return type(got) is datetime.time and got.tzinfo is None and got == exp
    raise AssertionError(fam)


def rows_same(fams, got, exp):
    if not isinstance(got, list) or len(got) != len(exp):
        return False
    for g, e in zip(got, exp):
        if not isinstance(g, tuple) or len(g) != len(e) or not all(same(f, a, b) for f, a, b in zip(fams, g, e)):
            return False
    return True


# ---- classifier: input shape only ----------------------------------------------------------------------------------------
STR_FEATURES = [
    ("nul", lambda s: "\x00" in s),
    ("quote", lambda s: "'" in s),
    ("dquote", lambda s: '"' in s),
    ("backslash", lambda s: "\\" in s),
    ("lf", lambda s: "\n" in s),
    ("cr", lambda s: "\r" in s),
    ("tab", lambda s: "\t" in s),
    ("pct", lambda s: "%" in s),
    ("dollar", lambda s: "$" in s),
    ("qmark", lambda s: "?" in s),
    ("semicolon", lambda s: ";" in s),
    ("dashdash", lambda s: "--" in s),
    ("slashstar", lambda s: "/*" in s),
    ("brace", lambda s: "{" in s),
    ("nonascii", lambda s: any(ord(c) > 126 for c in s)),
    ("empty", lambda s: s == ""),
]


def vclass(fam, v):
    if v is None:
        return "null"
    if fam == "str":
        feats = [n for n, t in STR_FEATURES if t(v)]
        if "nul" in feats:
            return "str:nul"
        return "str:" + ("+".join(feats) or "plain")
    if fam == "int":
        if -(2**63) <= v < 2**63:
            return "int:int64"
        if 2**63 <= v < 2**64:
            return "int:uint64"
        return "int:pos_over_uint64" if v > 0 else "int:neg_over_int64"
    if fam == "float":
        return "float:negzero" if (v == 0 and str(v).startswith("-")) else ("float:subnormal" if 0 < abs(v) < 2.2250738585072014e-308 else "float")
    return fam


NUL_CLIENT = "bind=client,val=str:nul"  # one root cause (NUL inside the statement text), whatever the position


def case_class(style, pos, fam, v):
    if vclass(fam, v) == "str:nul" and bind_kind(style) == "client":
        return NUL_CLIENT
    if pos == "sessvar_pct" and bind_kind(style) == "client":
        # the shape that matters here is the statement (a variable whose value holds a percent sign), not the value
        # (NUL keeps its own class: it fails under client-side binding for a reason of its own)
        return f"pos={pos},bind=client,val={'str:nul' if vclass(fam, v) == 'str:nul' else 'any'}"
    return f"pos={pos},bind={bind_kind(style)},val={vclass(fam, v)}"


# ---- the caller's parameter object is the caller's -------------------------------------------------------------------------
# Every execute()/executemany() of this check that carries parameters goes through guarded(): the parameter object is
# deep-copied before the call and compared type-strictly (repr, container types included) afterwards, whether the call
# returned or raised.  Findings are collected per process and reported by work() after the item (clause
# C08.caller_params, class = container kind x paramstyle).
_CALLS: dict = {}  # class -> [calls, calls that changed the object]
_MUTATED: list = []  # (class, detail)


def container_kind(params, many=False):
    if many:
        if not isinstance(params, (list, tuple)) or not params:
            return "rows:none"
        return f"rows:{type(params).__name__}_of_{type(params[0]).__name__}"
    return type(params).__name__


def guarded(style, sql, params, call, many=False):
    import copy

    if params is None:
        return call()
    snap = copy.deepcopy(params)
    cls = f"container={container_kind(params, many)},style={style}"
    try:
        return call()
    finally:
        changed = type(params) is not type(snap) or repr(params) != repr(snap)
        m = _CALLS.setdefault(cls, [0, 0])
        m[0] += 1
        if changed:
            m[1] += 1
            _MUTATED.append((cls, {"style": style, "call": "executemany" if many else "execute", "sql": sql, "parameter_object_before": repr(snap), "parameter_object_after": repr(params)}))  # fmt: skip


def drain_guard(acc, item, tier):
    for cls, (n, bad) in sorted(_CALLS.items()):
        m = acc.classes.setdefault(("C08.caller_params", cls), [0, 0])
        m[0] += n
        m[1] += bad
        acc.count("parameter_objects_compared", n)
    for cls, detail in _MUTATED:
        it = [x for x in item if not isinstance(x, dict)]
        acc.violation("C08.caller_params", cls, detail, {"kind": "mutitem", "item": it, "tier": tier})
    _CALLS.clear()
    del _MUTATED[:]


# ---- real side ---------------------------------------------------------------------------------------------------------------
def _set_module_style(name):
    import snowflake.connector as sc

    old = sc.paramstyle
    sc.paramstyle = name
    return old


class Env:
    """Fresh in-memory instance; one connection created while snowflake.connector.paramstyle == module style (the
    attribute is restored right after connect, so every later statement already runs under a *different* module
    value for format/qmark connections); fixture tables for one value family, loaded through raw DuckDB."""

    def __init__(self, style, fam, pair=False, opt=None):
        import fakesnow.instance as inst
        from mc import observe

        self.observe = observe
        self.style, self.F, self.opt = style, FAMS[fam], opt
        self.fs = inst.FakeSnow(**INSTANCE_OPTS[opt])
        old = _set_module_style(STYLES[style][0])
        try:
            self.conn = self.fs.connect(database="db1", schema="s1")
        finally:
            _set_module_style(old)
        self.cur = self.conn.cursor()
        self.raw = observe.raw(self.fs)
        F = self.F
        ddl = [
            "create table keep (id int)",
            f"create table fx (id int, v {F.sqltype})",
            f"create table tg (id int, v {F.sqltype})",
            f"create table pv (v {F.sqltype})",
        ]
        if pair:
            ddl.append("create table tp (a varchar, b varchar)")
        for s in ddl + SESSION_SETUP:
            self.cur.execute(s)
        self.raw.execute("insert into db1.s1.keep values (1), (2)")
        self.load("fx", list(enumerate(F.fx)))
        self.base = self.bystanders()

    def close(self):
        try:
            self.fs.duck_conn.close()
        except Exception:  # noqa: BLE001
            pass

    def load(self, table, rows):
        """Ground-truth load (bypasses fakesnow). ints go as text: DuckDB's Python binding turns ints > uint64 into
        doubles."""
        self.raw.execute(f"delete from db1.s1.{table}")
        for r in rows:
            if self.F.name == "int" and table != "tp":
                txt = ", ".join("NULL" if x is None else str(int(x)) for x in r)
                self.raw.execute(f"insert into db1.s1.{table} values ({txt})")
            else:
                self.raw.execute(f"insert into db1.s1.{table} values ({', '.join('?' * len(r))})", list(r))

    def read(self, table="tg"):
        order = "a, b" if table == "tp" else "id"
        return self.raw.execute(f"select * from db1.s1.{table} order by {order}").fetchall()

    def bystanders(self):
        """Everything a statement of this check must leave alone: the set of tables of every database with their
        definitions (DuckDB's normalised CREATE text), and the rows of the bystander tables keep and fx."""
        q = lambda s: self.raw.execute(s).fetchall()  # noqa: E731
        tabs = q("select database_name, schema_name, table_name, sql from duckdb_tables() where not internal order by all")
        keep = q("select * from db1.s1.keep order by all")
        fx = q("select * from db1.s1.fx order by all")
        return core.h((tabs, keep, repr(fx)))

    def execute(self, sql, params, cur=None):
        from mc.util import exc_info

        cur = cur or self.cur
        try:
            guarded(self.style, sql, params, lambda: cur.execute(sql) if params is None else cur.execute(sql, params))
            return ("ok", cur.fetchall())
        except Exception as e:  # noqa: BLE001
            x = exc_info(e)
            return ("err", x[1], x[4][:120])


# A clean instance is kept per worker process and (style, family) and reused by later cases; any case that deviates
# in any way (verdict, literal statement, structure) makes the caller throw the instance away.
_ENVS: dict = {}


def get_env(style, fam, pair=False, opt=None):
    k = (style, fam, pair, opt)
    e = _ENVS.get(k)
    if e is None:
        while len(_ENVS) >= 6:
            _ENVS.pop(next(iter(_ENVS))).close()
        e = _ENVS[k] = Env(style, fam, pair, opt)
    return e


def drop_env(style, fam, pair=False, opt=None):
    e = _ENVS.pop((style, fam, pair, opt), None)
    if e is not None:
        e.close()


def observe_stmt(env, sql, params, tg0, table="tg", cur=None):
    """reset target -> execute -> (outcome, target rows afterwards, bystanders unchanged?)"""
    env.load(table, tg0)
    out = env.execute(sql, params, cur)
    try:
        tg = env.read(table)
        by = env.bystanders() == env.base
    except Exception as e:  # noqa: BLE001  (ground truth unreadable: the instance is broken -> structure violation)
        tg, by = ("unreadable", type(e).__name__), False
    return out, tg, by


def judge(fams, exp_rows, tg_fams, tg_exp, obs, tg_before):
    """-> (value_ok, structure_ok, mode).  structure_ok: nothing but the target changed, the result has the benign
    width, and a statement that raised left the target as it was."""
    out, tg, by = obs
    tg_ok = isinstance(tg, list) and rows_same(tg_fams, tg, tg_exp)
    if out[0] != "ok":
        return False, by and isinstance(tg, list) and rows_same(tg_fams, tg, tg_before), "raise"
    ok = rows_same(fams, out[1], exp_rows)
    width_ok = all(isinstance(r, tuple) and len(r) == len(fams) for r in out[1])
    return ok and tg_ok, by and width_ok, ("ok" if ok and tg_ok else ("rows" if not ok else "state"))


def show(obs):
    out, tg, by = obs
    return {"outcome": out, "target_rows": tg, "bystanders_unchanged": by}


def run_case(env, style, pos, fam, vi, acc, replay):
    """One case: bound execution, literal execution, verdict.  Returns True if the instance must be rebuilt."""
    F = FAMS[fam]
    v = F.values[vi]
    builder, kind, _ = POS[pos]
    rows, fams, tg0, tg1 = expected(pos, F, v)
    tg_fams = ("exact", fam)
    b = Binder(style)
    sql_b = builder(b, F, v)
    sql_l = builder(Literal(), F, v)
    obs_b = observe_stmt(env, sql_b, b.params(), tg0)
    obs_l = observe_stmt(env, sql_l, None, tg0)
    acc.count("evaluations")
    acc.count("statements_executed", 2)
    acc.obs((style, pos, fam, vi, repr(obs_b), repr(obs_l)))
    acc.outcome((pos, bind_kind(style), obs_b[0][0], repr(obs_b[0][1])[:60]))
    nontrivial = (
        (kind == "value" and v is not None and v != "" and v != 0)
        or (kind == "match" and bool(rows) and rows != [(0,)] and rows != [(None,)])
    )
    if nontrivial:
        acc.nontrivial((style, pos, fam, vi))
    v_ok, s_ok, mode = judge(fams, rows, tg_fams, tg1, obs_b, tg0)
    lv_ok, _, _ = judge(fams, rows, tg_fams, tg1, obs_l, tg0)
    cls = case_class(style, pos, fam, v)
    if env.opt and cls != NUL_CLIENT:  # (the NUL class is one root cause whatever the instance)
        cls += f",instance={env.opt}"
    detail = {
        "style": style, "position": pos, "family": fam, "value": v, "sql": sql_b, "params": b.params(),
        "expected_rows": rows, "expected_target": tg1, "bound": show(obs_b), "mode": mode,
        "literal_sql": sql_l, "literal": show(obs_l), "literal_matches_model": lv_ok,
    }  # fmt: skip
    if kind == "value":
        failed = not v_ok
        clause = "C08.value"
    else:
        failed = not v_ok
        clause = "C08.equiv"
        if failed:
            # referee: the same statement with the value delivered as column data (no quoting involved).  If that
            # deviates from the model in exactly the same way, the operator (or the model) is at odds, not the binding.
            env.load("pv", [(v,)])
            sql_c = builder(Column(v), F, v)
            obs_c = observe_stmt(env, sql_c, None, tg0)
            acc.count("statements_executed")
            acc.obs(repr(obs_c))
            detail["column_delivered_sql"] = sql_c
            detail["column_delivered"] = show(obs_c)
            if repr(obs_c) == repr(obs_b):
                failed = False
                acc.count("shared_deviation_from_model")
                acc.note(f"deviation from the model shared with column-delivered data at {cls} (not reported)")
    if v_ok and not lv_ok:
        acc.count("literal_path_deviation")
    acc.member(clause, cls, failed)
    if failed:
        acc.violation(clause, cls, detail, replay)
    acc.member("C08.structure", cls, not s_ok)
    if not s_ok:
        acc.violation("C08.structure", cls, detail, replay)
    return (not v_ok) or not s_ok or not lv_ok


# ---- work items --------------------------------------------------------------------------------------------------------------
def value_indexes(tier, pos, fam):
    F = FAMS[fam]
    idx = list(range(len(F.values)))
    if fam == "str" and tier == "quick" and pos not in QUICK_FULL_POS:
        idx = [i for i in idx if F.values[i] is None or F.values[i] in STR_BREAKERS]
    if pos == "sessvar_pct":
        idx = [i for i in idx if F.values[i] is None or fam != "str" or F.values[i] in STR_BREAKERS]
    if pos in ("inlist", "merge_on"):
        # merge_on: a MERGE for which no row qualifies reports NULL counts whatever way the NULL was written (the status
        # row of MERGE is C12's subject, listed there: counts=null_when_no_row_qualifies); nothing about binding
        idx = [i for i in idx if F.values[i] is not None]
    return idx


def grid(item, acc, tier):
    """item = ('grid', style, pos, fam[, opt]): every value of the family at that position under that style (on an
    instance made with the non-default options INSTANCE_OPTS[opt])."""
    _, style, pos, fam, *rest = item
    opt = rest[0] if rest else None
    n = 0
    for vi in value_indexes(tier, pos, fam):
        env = get_env(style, fam, opt=opt)
        dirty = run_case(env, style, pos, fam, vi, acc, {"kind": "grid", "style": style, "pos": pos, "fam": fam, "vi": vi, "opt": opt})  # fmt: skip
        n += 1
        if dirty:  # never let a deviating case influence the next one: the instance is thrown away
            drop_env(style, fam, opt=opt)
    if n:
        acc.sample({"item": item, "cases": n, "example_sql": POS[pos][0](Binder(style), FAMS[fam], FAMS[fam].values[0])})
    return n


def pair_values(tier):
    if tier == "quick":
        return [s for s in STR if s in STR_BREAKERS]
    return list(STR)


def pairs(item, acc, tier):
    """item = ('pairs', style, which, i): value i of the pair alphabet as first parameter, every value as second,
    in adjacent placeholders (select list / INSERT values)."""
    _, style, which, i = item
    vals = pair_values(tier)
    a = vals[i]
    for j, bval in enumerate(vals):
        env = get_env(style, "str", True)
        dirty = run_pair(env, style, which, a, bval, acc, {"kind": "pairs", "style": style, "which": which, "i": i, "j": j, "tier": tier})  # fmt: skip
        if dirty:
            drop_env(style, "str", True)
    return len(vals)


def run_pair(env, style, which, a, bval, acc, replay):
    def build(b):
        if which == "sel":
            return f"select {b.ph(a, 'a')} as a, {b.ph(bval, 'b')} as b"
        return f"insert into tp (a, b) values ({b.ph(a, 'a')}, {b.ph(bval, 'b')})"

    if which == "sel":
        rows, fams, tp1 = [(a, bval)], ("str", "str"), []
    else:
        rows, fams, tp1 = [(1,)], ("exact",), [(a, bval)]
    b = Binder(style)
    sql_b = build(b)
    sql_l = build(Literal())
    obs_b = observe_stmt(env, sql_b, b.params(), [], table="tp")
    obs_l = observe_stmt(env, sql_l, None, [], table="tp")
    acc.count("evaluations")
    acc.count("statements_executed", 2)
    acc.obs((style, which, a, bval, repr(obs_b), repr(obs_l)))
    acc.outcome(("pair", which, bind_kind(style), obs_b[0][0], repr(obs_b[0][1])[:60]))
    acc.nontrivial((style, which, a, bval))
    v_ok, s_ok, mode = judge(fams, rows, ("str", "str"), tp1, obs_b, [])
    lv_ok, _, _ = judge(fams, rows, ("str", "str"), tp1, obs_l, [])
    va, vb = vclass("str", a), vclass("str", bval)
    cls = f"pos=pair_{which},bind={bind_kind(style)},val={'str:nul' if 'str:nul' in (va, vb) else va + '|' + vb}"
    if "str:nul" in (va, vb) and bind_kind(style) == "client":
        cls = NUL_CLIENT
    detail = {
        "style": style, "position": "pair_" + which, "values": [a, bval], "sql": sql_b, "params": b.params(),
        "expected_rows": rows, "expected_target": tp1, "bound": show(obs_b), "mode": mode, "literal_sql": sql_l,
        "literal": show(obs_l), "literal_matches_model": lv_ok,
    }  # fmt: skip
    if v_ok and not lv_ok:
        acc.count("literal_path_deviation")
    acc.member("C08.value", cls, not v_ok)
    if not v_ok:
        acc.violation("C08.value", cls, detail, replay)
    acc.member("C08.structure", cls, not s_ok)
    if not s_ok:
        acc.violation("C08.structure", cls, detail, replay)
    return not v_ok or not s_ok or not lv_ok


# executemany -----------------------------------------------------------------------------------------------------------------
def many_sets(fam, n):
    """parameter sets (id, value) of size n: n=0 one empty list; n=1 each value; n=3 every cyclic window of three."""
    vals = FAMS[fam].values
    if n == 0:
        return [[]]
    if n == 1:
        return [[(1, v)] for v in vals]
    return [[(k + 1, vals[(i + k) % len(vals)]) for k in range(3)] for i in range(len(vals))]


def many(item, acc, tier):
    """item = ('many', style, stmt, fam, n)"""
    _, style, stmt, fam, n = item
    F = FAMS[fam]
    kind = STYLES[style][1]
    sets_list = many_sets(fam, n)
    for si, sets in enumerate(sets_list):
        env = get_env(style, fam)
        replay = {"kind": "many", "style": style, "stmt": stmt, "fam": fam, "n": n, "si": si}
        dirty = run_many(env, style, kind, stmt, F, sets, acc, replay)
        if dirty:
            drop_env(style, fam)
    return len(sets_list)


def run_many(env, style, kind, stmt, F, sets, acc, replay):
    b = Binder(style)
    if stmt == "ins":
        sql = f"insert into tg (id, v) values ({b.ph(0, 'i')}, {b.ph(0, 'v')})"
        tg0 = []
        tg1 = [(i, v) for i, v in sets]
        mk = lambda i, v: {"i": i, "v": v} if kind == "dict" else STYLES[style][2]((i, v))  # noqa: E731
    else:
        sql = f"update tg set v = {b.ph(0, 'v')} where id = {b.ph(0, 'i')}"
        tg0 = [(1, F.b1), (2, F.b2), (3, F.b1), (4, F.b2)]
        new = dict(sets)
        tg1 = [(i, new.get(i, old)) for i, old in tg0]
        mk = lambda i, v: {"i": i, "v": v} if kind == "dict" else STYLES[style][2]((v, i))  # noqa: E731
    seqparams = [mk(i, v) for i, v in sets]
    from mc.util import exc_info

    env.load("tg", tg0)
    try:
        guarded(style, sql, seqparams, lambda: env.cur.executemany(sql, seqparams), many=True)
        out = ("ok",)
    except Exception as e:  # noqa: BLE001
        x = exc_info(e)
        out = ("err", x[1], x[4][:120])
    tg_many = env.read()
    by = env.bystanders() == env.base
    # the same sets as single execute() calls
    env.load("tg", tg0)
    outs = []
    for p in seqparams:
        outs.append(env.execute(sql, p)[0])
    tg_single = env.read()
    acc.count("evaluations")
    acc.count("statements_executed", 1 + len(seqparams))
    acc.obs((style, stmt, F.name, repr(sets), out, repr(tg_many), repr(tg_single)))
    acc.outcome(("many", stmt, bind_kind(style), out[0], len(sets)))
    if sets:
        acc.nontrivial((style, stmt, F.name, repr(sets)))
    tg_fams = ("exact", F.name)
    ok_model = out[0] == "ok" and rows_same(tg_fams, tg_many, tg1)
    ok_seq = repr(tg_many) == repr(tg_single) and (out[0] == "ok") == all(o == "ok" for o in outs)
    failed = not ok_model  # the model decides; agreement with the single executes is reported in the detail
    vcs = {vclass(F.name, v) for _, v in sets}
    # the value shape of a window is its most demanding member (the shapes that deviate in the grid come first)
    worst = next((c for c in ("str:nul", "int:pos_over_uint64") if c in vcs), "other")
    cls = f"stmt={stmt},sets={len(sets)},bind={bind_kind(style)},fam={F.name},val={worst}"
    if worst == "str:nul" and bind_kind(style) == "client":
        cls = NUL_CLIENT
    detail = {
        "style": style, "statement": sql, "seqparams": seqparams, "expected_target": tg1, "executemany": out,
        "target_after_executemany": tg_many, "target_after_single_executes": tg_single, "single_outcomes": outs,
        "equal_to_single_executes": ok_seq, "bystanders_unchanged": by,
    }  # fmt: skip
    acc.member("C08.executemany", cls, failed)
    if failed:
        acc.violation("C08.executemany", cls, detail, replay)
    if not ok_seq and ok_model:
        # single executes deviate although executemany is right: only possible if execute() itself is wrong for a
        # value, which the grid reports; counted, not reported twice
        acc.count("single_execute_deviation_in_many")
    acc.member("C08.structure", cls, not by)
    if not by:
        acc.violation("C08.structure", cls, detail, replay)
    return failed or not by or not ok_seq


# paramstyle in force = the one configured when the connection was made ---------------------------------------------------
MODULE_STYLES = ["pyformat", "format", "qmark", "numeric"]
PS_CASES = [("sel", "str", "a"), ("sel", "str", "it's 100% ? %s $sv"), ("ins", "str", "?"), ("ins", "str", "%s"), ("sel", "int", 5), ("ins", "str", None), ("where", "str", "%s")]  # fmt: skip
SEQ_STYLE_OF = {"pyformat": "pyformat_seq", "format": "format_seq", "qmark": "qmark"}


def pstyle(item, acc, tier):
    """item = ('pstyle', made_under, changed_to, cursor_when)"""
    import snowflake.connector as sc

    _, made, now, when = item
    original = sc.paramstyle
    styles = [SEQ_STYLE_OF[made]] + (["pyformat_dict"] if made == "pyformat" else [])
    n = 0
    try:
        for style in styles:
            for ci, (pos, fam, v) in enumerate(PS_CASES):
                env = Env(style, fam)  # connection is made while the module attribute == made
                try:
                    cur_before = env.conn.cursor()
                    sc.paramstyle = now
                    env.cur = cur_before if when == "cursor_before" else env.conn.cursor()
                    replay = {"kind": "pstyle", "made": made, "now": now, "when": when, "style": style, "ci": ci}
                    n += 1
                    _ps_case(env, style, pos, fam, v, acc, replay, made, now, when, "first")
                    if now != "numeric":
                        # a second connection on the same instance, made under the new value, uses the new style ...
                        conn2 = env.fs.connect(database="db1", schema="s1")
                        first_cur = env.cur
                        env.cur = conn2.cursor()
                        n += 1
                        _ps_case(env, SEQ_STYLE_OF[now], pos, fam, v, acc, replay, now, now, when, "second")
                        # ... and the first one still its own
                        env.cur = first_cur
                        n += 1
                        _ps_case(env, style, pos, fam, v, acc, replay, made, now, when, "first_again")
                finally:
                    sc.paramstyle = original
                    env.close()
    finally:
        sc.paramstyle = original
    return n


def _ps_case(env, style, pos, fam, v, acc, replay, made, now, when, who):
    F = FAMS[fam]
    builder = POS[pos][0]
    rows, fams, tg0, tg1 = expected(pos, F, v)
    b = Binder(style)
    sql = builder(b, F, v)
    obs = observe_stmt(env, sql, b.params(), tg0)
    acc.count("evaluations")
    acc.count("statements_executed")
    acc.obs((made, now, when, who, style, pos, repr(v), repr(obs)))
    acc.outcome(("pstyle", made, now, obs[0][0], repr(obs[0][1])[:60]))
    acc.nontrivial((made, now, when, who, style, pos, repr(v)))
    v_ok, s_ok, mode = judge(fams, rows, ("exact", fam), tg1, obs, tg0)
    cls = f"made={made},module_now={now},{when},conn={who},placeholders={STYLES[style][1]}"
    detail = {
        "connection_made_under": made, "module_paramstyle_now": now, "cursor": when, "connection": who, "style": style,
        "sql": sql, "params": b.params(), "expected_rows": rows, "expected_target": tg1, "observed": show(obs), "mode": mode,
    }  # fmt: skip
    acc.member("C08.paramstyle", cls, not (v_ok and s_ok))
    if not (v_ok and s_ok):
        acc.violation("C08.paramstyle", cls, detail, dict(replay, who=who))


# ---- histories: two (three) bindings one after the other ----------------------------------------------------------------
# Everything above binds one value per fresh or same-typed context.  State kept between two bindings (a memo of
# converted literals, a prepared statement that is reused, a type remembered per cursor/connection) only shows when
# one cursor - or two cursors of one connection, or two connections - bind two *different pieces of data* one after
# the other, in particular data that Python considers equal (1 == True == 1.0 == Decimal('1'), Decimal('1.1') ==
# Decimal('1.10'), one instant written with two UTC offsets).  Oracle (differential, on the real code): the effect of
# binding b after a is exactly the effect of binding b on a fresh instance that never bound anything else, compared
# type- and text-strictly (repr), at positions where the data's identity is observable (untyped select list, cast to
# varchar, VARCHAR column read back through raw DuckDB).  Nothing is demanded about what that effect is (the grid
# does that), only that it is the value's own.
TZP5 = datetime.timezone(datetime.timedelta(hours=5))
SEQ = [
    # equal and hash-equal in Python, different data
    ("i1", 1), ("true", True), ("f1", 1.0), ("d1", D("1")), ("d1.0", D("1.0")), ("s1", "1"),
    ("i0", 0), ("false", False), ("f0", 0.0), ("f-0", -0.0), ("d0", D("0")), ("d0.00", D("0.00")), ("s0", "0"), ("empty", ""),
    ("d1.1", D("1.1")), ("d1.10", D("1.10")), ("f1.1", 1.1), ("s1.1", "1.1"),
    ("tz_utc", datetime.datetime(2024, 1, 1, 12, 0, 0, tzinfo=UTC)), ("tz+5", datetime.datetime(2024, 1, 1, 17, 0, 0, tzinfo=TZP5)),
    ("tz-8", datetime.datetime(2024, 1, 1, 4, 0, 0, tzinfo=TZM8)), ("ntz", datetime.datetime(2024, 1, 1, 12, 0, 0)),
    ("i2^63", 2**63), ("f2^63", float(2**63)),
    # ordinary values
    ("null", None), ("i2", 2), ("f2", 2.0), ("sa", "a"), ("sq", "a'"), ("strue", "true"),
    ("date", datetime.date(2024, 1, 1)), ("ts0", datetime.datetime(2024, 1, 1, 0, 0, 0)), ("time", datetime.time(12, 0, 0)),
    # sequences for IN (client-side binding only): equal tuples of different data
    ("t12", (1, 2)), ("ttrue2", (True, 2.0)),
]  # fmt: skip
SEQ_QUICK = ["i1", "true", "f1", "d1", "d1.0", "s1", "i0", "false", "f0", "d0", "empty", "d1.1", "d1.10", "f1.1", "tz_utc", "tz+5", "ntz", "null", "i2", "sa", "date", "t12", "ttrue2"]  # fmt: skip
SEQ3 = ["i1", "true", "f1", "d1", "s1", "i0", "false", "d1.1", "d1.10"]  # executemany windows of three (thorough)
SEQ_POS = {
    "sel": lambda p: f"select {p} as v",
    "selv": lambda p: f"select cast({p} as varchar) as v",
    "insv": lambda p: f"insert into tg (id, v) values (1, {p})",
}
SEQ_POS_ORDER = ["sel", "selv", "insv"]


def seq_indexes(tier, style):
    names = SEQ_QUICK if tier == "quick" else [n for n, _ in SEQ]
    idx = [i for i, (n, v) in enumerate(SEQ) if n in names]
    if style == "qmark":  # not demanded: sequences under qmark are array binds
        idx = [i for i in idx if not isinstance(SEQ[i][1], tuple)]
    return idx


def tclass(v):
    if v is None:
        return "null"
    if isinstance(v, datetime.datetime):
        return "tstz" if v.tzinfo is not None else "ts"
    return {bool: "bool", int: "int", float: "float", D: "dec", str: "str", tuple: "tuple", datetime.date: "date", datetime.time: "time"}[type(v)]  # fmt: skip


def relation(a, b):
    """same: the same datum; confusable: equal and hash-equal for Python although different data; distinct."""
    if type(a) is type(b) and repr(a) == repr(b):
        return "same"
    try:
        return "confusable" if (a == b and hash(a) == hash(b)) else "distinct"
    except TypeError:
        return "distinct"


def seq_class(hist, pos, style, a, b):
    return f"hist={hist},pos={pos},bind={bind_kind(style)},first={tclass(a)},second={tclass(b)},rel={relation(a, b)}"


def _connect(env):
    old = _set_module_style(STYLES[env.style][0])
    try:
        return env.fs.connect(database="db1", schema="s1")
    finally:
        _set_module_style(old)


def seq_bind(env, cur, style, pos, v):
    """Bind v at pos through cur -> (outcome, rows of the VARCHAR target read through raw DuckDB)."""
    b = Binder(style)
    sql = SEQ_POS[pos](b.ph(v))
    env.load("tg", [])
    out = env.execute(sql, b.params(), cur)
    return (out, env.read("tg"))


def seqbase(item, acc, tier):
    """item = ('seqbase', style, vi): the value's own effect - a fresh instance that binds nothing but this value, a
    fresh cursor per position."""
    _, style, vi = item
    v = SEQ[vi][1]
    env = Env(style, "str")
    try:
        conn = _connect(env)
        out = {pos: seq_bind(env, conn.cursor(), style, pos, v) for pos in SEQ_POS_ORDER}
    finally:
        env.close()
    acc.count("statements_executed", len(SEQ_POS_ORDER))
    acc.obs((style, vi, repr(out)))
    return out


def _stored(base_v):
    """the VARCHAR text a single INSERT of the value stores (None if that INSERT does not succeed)"""
    out, tg = base_v["insv"]
    if out[0] == "ok" and len(tg) == 1:
        return (tg[0][1],)
    return None


def seq_pair(env, style, ai, bi, base, acc, tier, replay):
    """All histories 'a was bound before b' for one ordered pair, on one fresh connection (and a second one)."""
    a, b = SEQ[ai][1], SEQ[bi][1]
    n = 0
    conn = _connect(env)
    conn2 = _connect(env) if tier != "quick" else None

    def verdict(hist, pos, got, want, extra):
        nonlocal n
        n += 1
        acc.count("evaluations")
        acc.obs((style, hist, pos, ai, bi, repr(got)))
        acc.outcome(("seq", hist, pos, bind_kind(style), repr(got)[:60]))
        if ai != bi:
            acc.nontrivial((style, hist, pos, ai, bi))
        cls = seq_class(hist, pos, style, a, b)
        failed = repr(got) != repr(want)
        acc.member("C08.history", cls, failed)
        if failed:
            detail = dict(extra, style=style, history=hist, position=pos, first=[SEQ[ai][0], a], second=[SEQ[bi][0], b],
                          observed=got, own_effect_on_a_fresh_instance=want)  # fmt: skip
            acc.violation("C08.history", cls, detail, dict(replay, hist=hist, pos=pos))

    try:
        # one cursor binds a, then b
        cur = conn.cursor()
        first = seq_bind(env, cur, style, "sel", a)
        acc.count("statements_executed")
        verdict("same_cursor", "first", first, base[ai]["sel"], {"note": "effect of the first binding on a new cursor"})
        for pos in SEQ_POS_ORDER:
            verdict("same_cursor", pos, seq_bind(env, cur, style, pos, b), base[bi][pos], {"sql": SEQ_POS[pos]("<p>")})
            acc.count("statements_executed")
        # two cursors of the same connection
        c1, c2 = conn.cursor(), conn.cursor()
        seq_bind(env, c1, style, "sel", a)
        acc.count("statements_executed")
        for pos in SEQ_POS_ORDER:
            verdict("two_cursors", pos, seq_bind(env, c2, style, pos, b), base[bi][pos], {"sql": SEQ_POS[pos]("<p>")})
            acc.count("statements_executed")
        # two connections of the same instance (thorough)
        if conn2 is not None:
            seq_bind(env, conn.cursor(), style, "sel", a)
            c3 = conn2.cursor()
            acc.count("statements_executed")
            for pos in SEQ_POS_ORDER:
                verdict("two_conns", pos, seq_bind(env, c3, style, pos, b), base[bi][pos], {"sql": SEQ_POS[pos]("<p>")})
                acc.count("statements_executed")
        if not isinstance(a, tuple) and not isinstance(b, tuple):
            # one execute binding both
            sa, sb = base[ai]["sel"][0], base[bi]["sel"][0]
            if sa[0] == "ok" and sb[0] == "ok" and len(sa[1]) == 1 and len(sb[1]) == 1:
                bd = Binder(style)
                sql = f"select {bd.ph(a, 'a')} as a, {bd.ph(b, 'b')} as b"
                got = env.execute(sql, bd.params(), conn.cursor())
                acc.count("statements_executed")
                verdict("one_execute", "sel2", got, ("ok", [(sa[1][0][0], sb[1][0][0])]), {"sql": sql, "params": bd.params()})
            # one executemany binding a's row, then b's row
            sta, stb = _stored(base[ai]), _stored(base[bi])
            if sta is not None and stb is not None:
                got = seq_many(env, style, conn.cursor(), [(101, a), (102, b)])
                verdict("executemany", "insv", got, (("ok",), [(101, sta[0]), (102, stb[0])]), {"sets": [(101, a), (102, b)]})
    finally:
        for c in (conn, conn2):
            if c is not None:
                try:
                    c.close()
                except Exception:  # noqa: BLE001
                    pass
    return n


def seq_many(env, style, cur, sets):
    from mc.util import exc_info

    kind = STYLES[style][1]
    bd = Binder(style)
    sql = f"insert into tg (id, v) values ({bd.ph(0, 'i')}, {bd.ph(0, 'v')})"
    seqparams = [{"i": i, "v": v} if kind == "dict" else STYLES[style][2]((i, v)) for i, v in sets]
    env.load("tg", [])
    try:
        guarded(style, sql, seqparams, lambda: cur.executemany(sql, seqparams), many=True)
        out = ("ok",)
    except Exception as e:  # noqa: BLE001
        x = exc_info(e)
        out = ("err", x[1], x[4][:120])
    return (out, env.read("tg"))


def seq(item, acc, tier):
    """item = ('seq', style, bi, base): every first value a of the tier's alphabet before the second value b."""
    _, style, bi, base = item
    env = Env(style, "str")
    n = 0
    try:
        for ai in seq_indexes(tier, style):
            n += seq_pair(env, style, ai, bi, base, acc, tier, {"kind": "seq", "style": style, "ai": ai, "bi": bi, "tier": tier})  # fmt: skip
    finally:
        env.close()
    acc.sample({"item": ["seq", style, SEQ[bi][0]], "second_bindings_checked": n})
    return n


def seq3(item, acc, tier):
    """item = ('seq3', style, ai, base): one executemany over every ordered triple (a, b, c) of SEQ3 starting with a."""
    _, style, ai, base = item
    idx = [i for i, (nm, _) in enumerate(SEQ) if nm in SEQ3]
    env = Env(style, "str")
    n = 0
    try:
        for bi in idx:
            for ci in idx:
                conn = _connect(env)
                sets = [(101, SEQ[ai][1]), (102, SEQ[bi][1]), (103, SEQ[ci][1])]
                want = (("ok",), [(k, _stored(base[i])[0]) for (k, _), i in zip(sets, (ai, bi, ci))])
                got = seq_many(env, style, conn.cursor(), sets)
                conn.close()
                n += 1
                acc.count("evaluations")
                acc.count("statements_executed", 3)
                acc.obs((style, ai, bi, ci, repr(got)))
                acc.nontrivial((style, "seq3", ai, bi, ci))
                rels = sorted({relation(x[1], y[1]) for x in sets for y in sets if x is not y})
                cls = f"hist=executemany3,pos=insv,bind={bind_kind(style)},types={'+'.join(sorted({tclass(v) for _, v in sets}))},rel={'+'.join(rels)}"
                failed = repr(got) != repr(want)
                acc.member("C08.history", cls, failed)
                if failed:
                    detail = {"style": style, "history": "executemany3", "sets": sets, "observed": got, "rows_each_value_stores_on_its_own": want}  # fmt: skip
                    acc.violation("C08.history", cls, detail, {"kind": "seq3", "style": style, "ai": ai, "bi": bi, "ci": ci})
    finally:
        env.close()
    return n


# ---- histories with a session variable in the statement ------------------------------------------------------------------
# A statement may refer to a session variable AND carry bound parameters.  The variable is inlined as text, the
# parameters are substituted into text (client-side styles) or bound by the engine (qmark): any state kept about a
# variable's text between two statements, and any variable value that looks like (part of) a placeholder, can make a
# parameter stop being data or the variable stop being its value.  Enumerated completely: variable value x parameter
# value x paramstyle x ordered pairs (thorough: triples) of statement kinds {no parameters, SELECT with parameter,
# INSERT with parameter, ...} after one SET on a fresh connection, on one cursor and on three cursors of the connection.
# Oracle (absolute): every statement of the history returns / stores the variable's value and the parameter's value;
# nothing raises.  A variable value that does not even arrive through `select $v` on a fresh connection that never
# binds anything is C15's subject: its histories are skipped and counted (`variable_not_delivered_without_parameters`).
VARVALS = [
    ("plain", "plain"), ("pct", "%"), ("pct", "%%"), ("pct", "50%"), ("pct", "a%b%"),
    ("ph_format", "%s"), ("ph_format", "%d"), ("ph_format", "x%sy"), ("ph_pyformat", "%(x)s"), ("ph_pyformat", "%(p)s"),
    ("ph_qmark", "?"), ("ph_numeric", ":1"), ("quote", "it's"), ("backslash", "a\\b"), ("dollar", "$x"), ("number", 5),
]  # fmt: skip
VAR_PARAMS = ["p", "%s", "it's \\ $v ? 100%", 7, None, "%(p)s", "50%%"]
VAR_PARAMS_QUICK = ["p", "%s", "it's \\ $v ? 100%", 7]
VSTMT = {
    "N_sel": lambda b, p: "select $v as x",
    "P_sel": lambda b, p: f"select $v as x, {b.ph(p, 'p')} as y",
    "P_ins": lambda b, p: f"insert into tp (a, b) values ($v, {b.ph(p, 'p')})",
    "N_ins": lambda b, p: "insert into tp (a, b) values ($v, 'lit')",
    # executemany over two equal parameter sets (its result / rowcount is not demanded, the stored rows are)
    "M_ins": lambda b, p: f"insert into tp (a, b) values ($v, {b.ph(p, 'p')})",
}
VSTMT_QUICK = ["N_sel", "P_sel", "P_ins", "M_ins"]
VSTMT_ALL = ["N_sel", "P_sel", "P_ins", "N_ins", "M_ins"]


def _as_varchar(x):
    return x if x is None or isinstance(x, str) else str(x)


def var_expected(kind, val, p):
    """-> (result rows, families of the result columns, rows of tp afterwards).  Pure model."""
    vf = "str" if isinstance(val, str) else "int"
    pf = "int" if isinstance(p, int) else "str"
    if kind == "N_sel":
        return [(val,)], (vf,), []
    if kind == "P_sel":
        return [(val, p)], (vf, pf), []
    if kind == "P_ins":
        return [(1,)], ("exact",), [(_as_varchar(val), _as_varchar(p))]
    if kind == "N_ins":
        return [(1,)], ("exact",), [(_as_varchar(val), "lit")]
    if kind == "M_ins":
        return [(1,)], ("exact",), [(_as_varchar(val), _as_varchar(p))] * 2
    raise AssertionError(kind)


def var_step(env, cur, style, kind, val, p):
    b = Binder(style)
    sql = VSTMT[kind](b, p)
    params = b.params() if kind[0] in "PM" else None
    cur = cur or env.cur
    env.load("tp", [])
    rows, fams, tp1 = var_expected(kind, val, p)
    if kind == "M_ins":
        from mc.util import exc_info

        many = [params, b.params()]
        try:
            guarded(style, sql, many, lambda: cur.executemany(sql, many), many=True)
            out = ("ok", rows)  # the result of executemany is not demanded
        except Exception as e:  # noqa: BLE001
            x = exc_info(e)
            out = ("err", x[1], x[4][:120])
    else:
        out = env.execute(sql, params, cur)
    obs = (out, env.read("tp"), True)
    ok, _, mode = judge(fams, rows, ("str", "str"), tp1, obs, [])
    return ok, mode, sql, params, obs, rows, tp1


def var_histories(tier):
    kinds = VSTMT_QUICK if tier == "quick" else VSTMT_ALL
    h = [(a, b) for a in kinds for b in kinds]
    if tier != "quick":
        h += [(a, b, c) for a in VSTMT_QUICK for b in VSTMT_QUICK for c in VSTMT_QUICK]
    return h


def vseq(item, acc, tier):
    """item = ('vseq', style, vvi): one variable value; every parameter value x history x cursor mode."""
    _, style, vvi = item
    vkind, val = VARVALS[vvi]
    env = Env(style, "str", pair=True)
    n = 0
    try:
        # is the variable's value delivered at all, without any parameter anywhere?
        conn = _connect(env)
        cur = conn.cursor()
        set_sql = f"set v = {L.render(val)}"
        s0 = env.execute(set_sql, None, cur)
        ok0, _, _, _, obs0, _, _ = var_step(env, cur, style, "N_sel", val, None)
        conn.close()
        acc.count("statements_executed", 2)
        acc.obs((style, vvi, s0, repr(obs0)))
        if not ok0:
            acc.count("variable_not_delivered_without_parameters")
            acc.note(f"session variable value kind {vkind} ({val!r}) does not arrive through select $v without parameters (C15 territory): its histories are skipped")  # fmt: skip
            return 0
        for pi, p in enumerate(VAR_PARAMS_QUICK if tier == "quick" else VAR_PARAMS):
            for hist in var_histories(tier):
                for cursors in ("one", "each"):
                    conn = _connect(env)
                    try:
                        c0 = conn.cursor()
                        env.execute(set_sql, None, c0)
                        acc.count("statements_executed")
                        for k, kind in enumerate(hist):
                            cur = c0 if cursors == "one" else conn.cursor()
                            ok, mode, sql, params, obs, rows, tp1 = var_step(env, cur, style, kind, val, p)
                            n += 1
                            acc.count("evaluations")
                            acc.count("statements_executed")
                            acc.obs((style, vvi, pi, hist, cursors, k, repr(obs)))
                            acc.outcome(("vseq", kind, bind_kind(style), obs[0][0], repr(obs[0][1])[:60]))
                            acc.nontrivial((style, vvi, pi, hist, cursors, k))
                            cls = f"hist=var:{'>'.join(hist)},step={k + 1},cursors={cursors},style={style},var={vkind}"
                            acc.member("C08.history", cls, not ok)
                            if not ok:
                                detail = {
                                    "style": style, "set": set_sql, "variable_value": val, "parameter": p, "history": list(hist),
                                    "failing_step": k + 1, "cursors": cursors, "sql": sql, "params": params, "mode": mode,
                                    "expected_rows": rows, "expected_tp": tp1, "observed": show(obs),
                                }  # fmt: skip
                                acc.violation("C08.history", cls, detail, {"kind": "vseq", "style": style, "vvi": vvi, "tier": tier})
                    finally:
                        try:
                            conn.close()
                        except Exception:  # noqa: BLE001
                            pass
    finally:
        env.close()
    acc.sample({"item": ["vseq", style, vkind, val], "statements_judged": n})
    return n


# ---- histories: the SAME parameter object bound again ---------------------------------------------------------------------
# execute twice with one tuple / list / dict object; executemany over [row, row] with one row object; executemany and
# then execute with one of its row objects.  The later use must behave exactly like the first, and like a separately
# built equal object (repr-strict), for every container kind x paramstyle x value of the history alphabet and a few
# strings that need quoting.
REBIND_EXTRA = [("sq2", "it's"), ("sbs", "a\\b"), ("sph", "%s ?")]
CONTAINERS = {"pyformat_seq": ("tuple", "list"), "format_seq": ("tuple", "list"), "qmark": ("tuple", "list"), "pyformat_dict": ("dict",)}


def rebind_values(tier, style):
    vals = [SEQ[i] for i in seq_indexes(tier, style) if not isinstance(SEQ[i][1], tuple)]
    return vals + REBIND_EXTRA


def mk_params(container, names, values):
    if container == "dict":
        return dict(zip(names, values))
    return tuple(values) if container == "tuple" else list(values)


def rebind(item, acc, tier):
    """item = ('rebind', style, container)"""
    import copy

    _, style, container = item
    env = Env(style, "str")
    n = 0

    def verdict(hist, pos, v, got, want, extra):
        nonlocal n
        n += 1
        acc.count("evaluations")
        acc.obs((style, container, hist, pos, repr(v), repr(got)))
        acc.outcome(("rebind", hist, pos, bind_kind(style), repr(got)[:60]))
        acc.nontrivial((style, container, hist, pos, repr(v)))
        cls = f"hist=rebind:{hist},pos={pos},container={container},style={style},val={tclass(v)}"
        failed = repr(got) != repr(want)
        acc.member("C08.history", cls, failed)
        if failed:
            detail = dict(extra, style=style, container=container, history=hist, position=pos, value=v, later_use=got, first_use_or_equal_fresh_object=want)  # fmt: skip
            acc.violation("C08.history", cls, detail, {"kind": "mutitem", "item": list(item), "tier": tier})

    try:
        bi = Binder(style)
        ins = f"insert into tg (id, v) values ({bi.ph(0, 'i')}, {bi.ph(0, 'v')})"
        for name, v in rebind_values(tier, style):
            for pos in SEQ_POS_ORDER:
                conn = _connect(env)
                cur = conn.cursor()
                b = Binder(style)
                sql = SEQ_POS[pos](b.ph(v))
                obj = mk_params(container, ["v"], [v])
                obs = []
                for _ in range(2):
                    env.load("tg", [])
                    obs.append((env.execute(sql, obj, cur), env.read("tg")))
                acc.count("statements_executed", 2)
                verdict("execute_twice", pos, v, obs[1], obs[0], {"sql": sql, "parameter_object": repr(mk_params(container, ["v"], [v]))})
                conn.close()
            # own effect of one INSERT of the row, with an object used once
            conn = _connect(env)
            env.load("tg", [])
            env.execute(ins, mk_params(container, ["i", "v"], [101, v]), conn.cursor())
            own = env.read("tg")
            conn.close()
            conn = _connect(env)
            row = mk_params(container, ["i", "v"], [101, v])
            got = _many(env, style, conn.cursor(), ins, [row, row])
            verdict("executemany_same_row_twice", "insv", v, got, (("ok",), own + own), {"sql": ins, "row": repr(copy.deepcopy(mk_params(container, ["i", "v"], [101, v])))})  # fmt: skip
            conn.close()
            conn = _connect(env)
            cur = conn.cursor()
            row = mk_params(container, ["i", "v"], [101, v])
            other = mk_params(container, ["i", "v"], [102, "z"])
            first = _many(env, style, cur, ins, [row, other])
            out = env.execute(ins, row, cur)
            got = (first[0], out[0], env.read("tg"))
            verdict("executemany_then_execute_row", "insv", v, got, (("ok",), "ok", own + own + [(102, "z")]), {"sql": ins})
            conn.close()
            acc.count("statements_executed", 6)
    finally:
        env.close()
    return n


def _many(env, style, cur, sql, seqparams):
    from mc.util import exc_info

    env.load("tg", [])
    try:
        guarded(style, sql, seqparams, lambda: cur.executemany(sql, seqparams), many=True)
        out = ("ok",)
    except Exception as e:  # noqa: BLE001
        x = exc_info(e)
        out = ("err", x[1], x[4][:120])
    return (out, env.read("tg"))


WORK = {"grid": grid, "pairs": pairs, "many": many, "pstyle": pstyle, "seqbase": seqbase, "seq": seq, "seq3": seq3, "vseq": vseq, "rebind": rebind}


def work(item, acc, tier):
    item = tuple(item)
    if item[0] in ("seq", "seq3") and not isinstance(item[3], dict):
        raise core.HarnessError(f"{item[0]} item without its table of own effects")
    import snowflake.connector as sc

    before = sc.paramstyle
    try:
        return WORK[item[0]](item, acc, tier)
    finally:
        drain_guard(acc, item, tier)
        if sc.paramstyle != before:  # belt and braces: the module attribute is always restored
            sc.paramstyle = before
            raise core.HarnessError(f"snowflake.connector.paramstyle not restored by {item!r}")


def items_for(tier):
    items = []
    for style in STYLE_ORDER:
        for pos in POS_ORDER:
            for fam in FAM_ORDER:
                if applicable(style, pos, fam):
                    items.append(("grid", style, pos, fam))
    for opt in INSTANCE_OPTS:
        if opt is not None:
            for style in STYLE_ORDER:
                for pos in OPT_POS:
                    items.append(("grid", style, pos, "str", opt))
    for style in STYLE_ORDER:
        for which in ("sel", "ins"):
            for i in range(len(pair_values(tier))):
                items.append(("pairs", style, which, i))
    for style in STYLE_ORDER:
        for stmt in ("ins", "upd"):
            for fam in FAM_ORDER:
                for n in (0, 1, 3):
                    items.append(("many", style, stmt, fam, n))
    for made in ("pyformat", "format", "qmark"):
        for now in MODULE_STYLES:
            if now != made:
                for when in ("cursor_before", "cursor_after"):
                    items.append(("pstyle", made, now, when))
    return items


def run(ctx: core.Ctx):
    ctx.rule = (
        "complete product: every value of 9 written-out families (strings: adversarial list; ints, floats, Decimals, "
        "bools, NULL, date/timestamp/timestamp_tz/time edges) x 13 placeholder positions x 4 paramstyles "
        "(pyformat tuple, pyformat dict with repeated keys, format list, qmark), each executed once with bound "
        "parameters and once with the value written as a Snowflake constant by the independent renderer, judged "
        "against a Python model (matching positions: a deviation is reported only if the same statement with the "
        "value delivered as column data does not show it); plus all ordered pairs of strings in two adjacent placeholders (select / insert) x 4 "
        "styles; executemany (insert / update) over 0, 1 and 3 parameter sets x family x style; paramstyle changed "
        "after connect (made under 3 x changed to 3 others incl. numeric x cursor made before/after x 7 cases, plus a second connection under the new value); "
        "histories: all ordered pairs (a, b) of the value alphabet SEQ (Python-equal but different data, and ordinary values) x 4 styles, b bound after a on "
        "the same cursor / a second cursor / a second connection (thorough) at 3 identity-revealing positions, in one execute, in one executemany "
        "(thorough: all ordered triples of 9 values), each compared by repr with b's own effect on a fresh instance; "
        "variable histories: 16 session-variable values x parameter values x 4 styles x all ordered pairs (thorough: and triples) of statement kinds "
        "(select $v / select $v, p / insert $v, p / thorough: insert $v) after one SET on a fresh connection x (one cursor | a cursor per statement), judged against the model; re-binding the same parameter object (execute twice / executemany [row, row] / executemany then execute a row) "
        "x container kind (tuple, list, dict) x style x history values; every binding call of the whole check also compares the caller's parameter object with a deep copy taken before. Quick tier: strings reduced to the breaker list except at "
        "positions sel/ins/where/like_pat/comment_lit, pairs over the breaker list. Non-trivial = case whose value is "
        "not NULL/empty/zero (value positions) or whose expected row set is non-empty (matching positions)."
    )
    ctx.assumptions = [
        "ground truth is read and fixtures are loaded through a raw DuckDB cursor that bypasses fakesnow",
        "a fresh instance is built after every case that deviates in any way, so cases cannot influence each other",
        "histories: a fresh connection per ordered pair on a fresh instance per second value; the reference effect of a value is taken on a fresh instance that binds only that value",
        "the reference renderer/reader/LIKE evaluator are unit-tested against hand-written Snowflake constants in selftest/test_c08.py",
        "see module docstring for what is not demanded",
    ]
    items = items_for(ctx.tier)
    res = ctx.pmap(work, items, chunk=1)
    # histories: first every value's own effect (fresh instance each), then every ordered pair against it
    base_items = [("seqbase", style, vi) for style in STYLE_ORDER for vi in seq_indexes(ctx.tier, style)]
    base = {style: {} for style in STYLE_ORDER}
    for it, out in ctx.pmap(work, base_items, chunk=1):
        base[it[1]][it[2]] = out
    seq_items = [("seq", style, bi, base[style]) for style in STYLE_ORDER for bi in seq_indexes(ctx.tier, style)]
    if ctx.tier != "quick":
        seq_items += [("seq3", style, ai, base[style]) for style in STYLE_ORDER for ai, (nm, _) in enumerate(SEQ) if nm in SEQ3]
    res = res + ctx.pmap(work, seq_items, chunk=1)
    var_items = [("vseq", style, vvi) for style in STYLE_ORDER for vvi in range(len(VARVALS))]
    res = res + ctx.pmap(work, var_items, chunk=1)
    rebind_items = [("rebind", style, c) for style in STYLE_ORDER for c in CONTAINERS[style]]
    res = res + ctx.pmap(work, rebind_items, chunk=1)
    items = items + base_items + seq_items + var_items + rebind_items
    ctx.exhaustive = True
    kinds = {}
    for it, n in res:
        kinds[it[0]] = kinds.get(it[0], 0) + (n or 0)
    ctx.extra["cases_by_kind"] = kinds
    ctx.extra["work_items"] = len(items)
    ctx.extra["alphabet"] = {
        "strings": len(STR), "string_breakers": len(STR_BREAKERS), "values_per_family": {f: len(FAMS[f].values) for f in FAM_ORDER},
        "positions": POS_ORDER, "styles": STYLE_ORDER, "pair_alphabet": len(pair_values(ctx.tier)),
        "executemany_set_sizes": [0, 1, 3], "module_paramstyles": MODULE_STYLES,
        "history_values": [SEQ[i][0] for i in seq_indexes(ctx.tier, "pyformat_seq")], "history_positions": SEQ_POS_ORDER,
        "variable_values": [v for _, v in VARVALS], "variable_history_parameters": VAR_PARAMS_QUICK if ctx.tier == "quick" else VAR_PARAMS,
        "variable_histories": [">".join(h) for h in var_histories(ctx.tier)], "variable_history_cursors": ["one", "each"],
        "history_modes": ["same_cursor", "two_cursors", "one_execute", "executemany"] + ([] if ctx.tier == "quick" else ["two_conns", "executemany3"]),
    }  # fmt: skip
    ctx.extra["bound"] = "full product of the written-out alphabets for this tier"


# ---- replay -------------------------------------------------------------------------------------------------------------------
def replay(payload):
    import json

    r = payload["replay"]
    acc = core.Acc()
    k = r["kind"]
    if k == "grid":
        env = Env(r["style"], r["fam"], opt=r.get("opt"))
        try:
            run_case(env, r["style"], r["pos"], r["fam"], r["vi"], acc, r)
        finally:
            env.close()
    elif k == "pairs":
        vals = pair_values(r["tier"])
        env = Env(r["style"], "str", pair=True)
        try:
            run_pair(env, r["style"], r["which"], vals[r["i"]], vals[r["j"]], acc, r)
        finally:
            env.close()
    elif k == "many":
        env = Env(r["style"], r["fam"], opt=r.get("opt"))
        try:
            run_many(env, r["style"], STYLES[r["style"]][1], r["stmt"], FAMS[r["fam"]], many_sets(r["fam"], r["n"])[r["si"]], acc, r)  # fmt: skip
        finally:
            env.close()
    elif k == "pstyle":
        work(("pstyle", r["made"], r["now"], r["when"]), acc, "quick")
    elif k == "vseq":
        vseq(("vseq", r["style"], r["vvi"]), acc, r["tier"])
    elif k == "mutitem":
        it = list(r["item"])
        if it[0] in ("seq", "seq3"):
            st = it[1]
            it = it[:3] + [{vi: seqbase(("seqbase", st, vi), core.Acc(), r["tier"]) for vi in seq_indexes(r["tier"], st)}]
        work(tuple(it), acc, r["tier"])
    elif k in ("seq", "seq3"):
        idx = [r["ai"], r["bi"]] + ([r["ci"]] if k == "seq3" else [])
        base = {vi: seqbase(("seqbase", r["style"], vi), core.Acc(), "thorough") for vi in sorted(set(idx))}
        if k == "seq":
            env = Env(r["style"], "str")
            try:
                seq_pair(env, r["style"], r["ai"], r["bi"], base, acc, r["tier"], r)
            finally:
                env.close()
        else:
            full = {i: base.get(i) or base[r["ai"]] for i in range(len(SEQ))}  # only the triple's own entries are read
            seq3(("seq3", r["style"], r["ai"], full), acc, "thorough")
    else:
        raise core.HarnessError(f"unknown replay kind {k}")
    want = (payload["clause"], payload["class"])
    hit = want in acc.viol
    for (clause, cls), v in sorted(acc.viol.items()):
        if (clause, cls) == want or k not in ("pstyle", "seq3", "vseq", "mutitem"):
            print(f"{clause} / {cls}")
            print(json.dumps(v["detail"], indent=1, sort_keys=True, default=repr)[:4000])
    print("verdict:", "VIOLATION reproduced" if hit else "ok (not reproduced)")
    return hit
