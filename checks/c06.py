"""C06 — cursor.description matches the result of every executed statement.

Engine: E2 over statement kinds x E1 over the fetch sequence.  The model state is the cursor's fetch state
(rows, index) of mc/ref/c06_model.FetchModel; `description` and `describe()` are self-loops on it.  For every statement
of the alphabet the real cursor is driven through the traces

    control   execute, fetchall                                   (description never read: the reference result)
    before    execute, description, description, fetchall           read point "before any fetch"
    mid       execute, fetchone, description, fetchall              read point "mid-fetch"
    after     execute, fetchall, fetchone, description, fetchone    read point "after exhaustion"
    dictmid   the mid trace on a DictCursor                         (names = DictCursor keys)
    reuse     execute WARM_UP, description, execute, description, fetchall   (the cursor has described something else before)
    describe  describe(sql, params) on a fresh cursor, nothing executed before

and, second part, through HISTORIES in which ONE cursor executes the same statement text again after what it returns has
changed — other bound values of another type, USE SCHEMA / DATABASE towards same-named tables of another shape, session
variables, ALTER TABLE ADD / DROP / RENAME COLUMN, CREATE OR REPLACE TABLE / VIEW in between (executed on the same cursor
with or without reading description, or on another cursor) — or in which the caller mutates its parameter object after
execute(); the final description is judged against the rows then handed out, the model's names / declared types of the
final statement, and a fresh cursor of the same connection (C06.reexecute / C06.as_executed).

Bound parameters are a factor of their own (kind `bind`): the product BIND_STATEMENTS x BIND_STYLES takes every statement
kind that can carry a bound value (SELECT / WITH / set operation, CREATE [OR REPLACE] TABLE AS SELECT in its variants,
CREATE VIEW AS, INSERT VALUES / SELECT, UPDATE [FROM], DELETE [USING], MERGE, and the kinds that hold no expression: SET,
SHOW LIKE, COMMENT, DEFAULT) under every way of binding (%s, %(name)s, format, ? with a tuple, ? with a list), plus
executemany(); each goes through the seven traces above.  Combinations fakesnow / DuckDB do not accept (a ? in a view
definition, in SET / SHOW / COMMENT) do not execute and are only counted.  The histories `next_after_bound` /
`bound_after_query` (statement kind x style x next statement) read the description of the statement executed NEXT on the
same cursor — without binds, or with another number of them — and of a bound statement after a described query.

Each trace runs on its own connection; statements that change state get a fresh instance per trace, state-preserving ones share one
fixture instance per worker (guarded by the ground-truth digest).  The session context is taken immediately before and
after every read, the raw-DuckDB digest (mc/observe) at the end of every trace and around describe().

Oracle clauses
  C06.available              description can be read (no exception) after the successful statement, at every read point
  C06.length                 one entry per result column: len(description) = width of the tuple rows, = the number of
                             select items where the model knows it
  C06.names                  names = DictCursor keys in order (repeated names: first occurrence, a dict holds a key once);
                             for an empty result, = the names the select list defines (aliases / column references)
  C06.type_value             every fetched non-NULL value is of the Python type the entry's type code / precision / scale
                             stands for (c06_model.value_consistency)
  C06.type_declared          for SELECT * and type-preserving forms over a declared column: type code, precision and
                             scale are those of the declared type (c06_model.declared_mismatch)
  C06.read_point             the description read mid-fetch / after exhaustion / a second time equals the one read before
                             any fetch
  C06.reexecute              on a cursor that executed and described another statement before, description is the one of
                             the statement executed last (= the description of the before trace) and the rows are its rows
  C06.as_executed            after the caller changed (set / append / pop / clear) the list or dict it passed to execute(),
                             description still describes the statement with the values bound at execute() time (= a fresh
                             cursor executing the same text with those values) and can still be read
  C06.describe_available     describe(sql, params) returns (no exception) for a statement that executes successfully
  C06.describe_equal         describe(sql, params) == description after execute(sql, params)
  C06.describe_not_executed  describe leaves the digest and the session context unchanged (nothing was executed), and
                             opens no transaction
  C06.read_pending           rows fetched before + after the read = the rows of the control trace, in order
  C06.read_digest            the digest at the end of a trace that read description (after COMMIT / ROLLBACK for the
                             in-transaction statements) equals that of the control trace, which did not
  C06.read_session           current database / schema (reported and DuckDB's), variables are unchanged by the read

Values: every fixture column and every expression family also produces its type's falsy / identity value (0 in FIXED of
scale 0 and scale > 0 — stored, computed, aggregated, as status counter, bound —, 0.0, '', FALSE, empty binary, epoch /
midnight, empty JSON containers), and Python types are compared exactly (`type(x) is`: Decimal('0') is not an int).

Not demanded
  * is_nullable, internal_size, display_size (only through describe == description, where both come from fakesnow)
  * the name of an unaliased expression column (Snowflake derives it from the expression text)
  * the precision of REAL / TIME / TIMESTAMP entries; type codes for NULL-only columns
  * OBJECT / ARRAY columns may be reported as VARIANT (the statement names VARIANT only); the Python representation of
    semi-structured values (C11) beyond "a str holding JSON, or not a connector type at all"
  * what the status row of DML / DDL says (C04), whether the statement itself is accepted (a statement that does not
    execute is outside the property: counted under statements_not_executed, never judged)
  * that the *value* types are the ones Snowflake would compute (AVG of integers is a float here, NUMBER(38,6) there):
    only that description and values agree with each other

Class keys: `<kind>:<form>[:<type group>]` of the statement — the input shape, written next to each statement of the
alphabet; `,at=<read points>` is appended only when some but not all read points fail.  C06.describe_available uses the
single class `stmt=non_query` for every statement that is not a SELECT / WITH query (one root cause), and the single
class `stmt=query,cursor=dict` for describe() called on a DictCursor.  Histories use `hist:<form>`.  The bind product uses
`bind:<parameter style>:<statement kind>` (`executemany_<kind>` for executemany) and
`hist:next_after_bound:<style>:<kind>` / `hist:bound_after_query:<style>:<kind>`.
"""
from __future__ import annotations

import contextlib
import copy
import datetime
import decimal

from mc import core, observe
from mc.ref import c06_model as M

PID = "C06"
LEVEL = "model_checking"

D = decimal.Decimal

# ---- fixture ------------------------------------------------------------------------------------------------------------
_LIT = {
    "bool": "true",
    "fixed0": "7",
    "fixedS": "1.5",
    "float": "2.5",
    "text": "'a'",
    "date": "'2020-01-02'",
    "time": "'01:02:03'",
    "ntz": "'2020-01-02 03:04:05'",
    "tz": "'2020-01-02 03:04:05+01:00'",
    "binary": "to_binary('ABCD', 'hex')",
}
_JLIT = {"any": "parse_json('{\"k\": 1}')", "object": "object_construct('k', 1)", "array": "array_construct(1, 2)"}


# every type's falsy / identity value (row 3 of ty): Decimal('0') == 0 == False == 0.0, '' and b'' are falsy, the epoch
# and midnight are the zero points of the temporal types, [] / {} the empty documents — a conversion written with a
# truthiness test, or compared with ==, gets exactly these wrong
_LIT0 = {
    "bool": "false",
    "fixed0": "0",
    "fixedS": "0.0",
    "float": "0.0",
    "text": "''",
    "date": "'1970-01-01'",
    "time": "'00:00:00'",
    "ntz": "'1970-01-01 00:00:00'",
    "tz": "'1970-01-01 00:00:00+00:00'",
    "binary": "to_binary('', 'hex')",
}
_JLIT0 = {"any": "parse_json('[]')", "object": "parse_json('{}')", "array": "parse_json('[]')"}


def _lit(t):
    return _LIT.get(t["family"]) or _JLIT[t["json_kind"]]


def _lit0(t):
    return _LIT0.get(t["family"]) or _JLIT0[t["json_kind"]]


TY_COLS = [(f"C{i}", t["sql"]) for i, t in enumerate(M.TYPES)]

# tables known to the model: name -> [(column name, declared type)]
TABLES = {
    "t": [("A", "INT"), ("B", "VARCHAR")],
    "u": [("ID", "INT"), ("X", "NUMBER(10,2)"), ("F", "FLOAT"), ("D", "DATE")],
    "src": [("A", "INT"), ("B", "VARCHAR")],
    "ty": [("ID", "INT")] + TY_COLS,
    "vw": [("A", "INT"), ("B", "VARCHAR")],
    "z": [("ID", "INT"), ("N", "NUMBER(12,0)"), ("D", "NUMBER(12,2)"), ("F", "FLOAT"), ("S", "VARCHAR"), ("B", "BOOLEAN"), ("BIN", "BINARY"), ("V", "VARIANT")],
    "s2.t2": [("K", "INT")],
}

FIXTURE_TY = [
    "create table ty (id int, " + ", ".join(f"{n} {ty}" for n, ty in TY_COLS) + ")",
    "insert into ty select 1, " + ", ".join(_lit(t) for t in M.TYPES),
    "insert into ty select 2, " + ", ".join("null" for _ in M.TYPES),
    "insert into ty select 3, " + ", ".join(_lit0(t) for t in M.TYPES),
    # z: the zero of each kind next to ordinary values, NULLs and negatives
    "create table z (id int, n number(12,0), d number(12,2), f float, s varchar, b boolean, bin binary, v variant)",
    "insert into z select 1, 250, 2.50, 1.5, 's', true, to_binary('AB', 'hex'), parse_json('{\"k\": 1}')",
    "insert into z select 2, 0, 0.00, 0.0, '', false, to_binary('', 'hex'), parse_json('0')",
    "insert into z select 3, null, null, null, null, null, null, null",
    "insert into z select 4, -7, -0.07, -1.5, ' ', false, to_binary('00', 'hex'), parse_json('{}')",
    "create table j (id int, v variant)",
    "insert into j select 1, parse_json('{\"a\": {\"b\": 2}, \"k\": \"s\", \"arr\": [1, 2]}')",
]
# every statement that changes state gets a fresh instance per trace, with this part of the fixture only (none of
# them refers to ty / j; creating the 40 column table through fakesnow costs more than everything else together)
FIXTURE_BASE = [
    "create table t (a int, b varchar)",
    "insert into t values (1, 'x'), (2, 'y'), (3, 'z')",
    "create table u (id int, x number(10,2), f float, d date)",
    "insert into u values (1, 1.50, 0.5, '2020-01-01'), (2, 2.25, 1.5, '2020-01-02'), (3, 10.00, 2.5, '2020-02-29')",
    "create table src (a int, b varchar)",
    "insert into src values (1, 'm'), (9, 'n')",
    "create view vw as select a, b from t",
    "create schema s2",
    "create table s2.t2 (k int)",
    "create database db2",
]

NOP_REGEXES = [r"^\s*CALL\b", r"^\s*GRANT\b", r"^\s*ALTER\s+SESSION\b", r"^\s*CREATE\s+STAGE\b"]

# ---- alphabet -----------------------------------------------------------------------------------------------------------
STATEMENTS: list = []
_SIDS: set = set()


def S(sid, kind, form, sql, **kw):
    """One statement of the alphabet.  kw: params, style, nop, pre, names, ncols, decl, volatile, pure, post, thorough, many"""
    assert sid not in _SIDS, sid
    _SIDS.add(sid)
    st = {
        "sid": sid,
        "kind": kind,
        "cls": f"{kind}:{form}",
        "sql": sql,
        "params": None,
        "style": "pyformat",
        "nop": False,
        "pre": [],
        "names": None,
        "ncols": None,
        "decl": None,
        "volatile": False,
        "pure": kind in ("query", "show", "seeded"),
        "post": None,
        "thorough": False,
        "many": False,  # executemany(sql, params): params is the sequence of parameter sets
        # a query in the sense of describe(): SELECT / WITH ... SELECT (decided from the statement text)
        "is_query": sql.lstrip().lower().startswith(("select", "with")),
    }
    st.update(kw)
    if st["pre"] and not all(p.lower().startswith("set ") for p in st["pre"]):
        st["pure"] = False
    STATEMENTS.append(st)
    return st


def Q(sid, form, items, tail="", kind="query", **kw):
    """A query given by its select items [(expr, alias|None)] so that the model knows column count and names."""
    items = [(i, None) if isinstance(i, str) else i for i in items]
    sel = ", ".join(e if a is None else f"{e} as {a}" for e, a in items)
    names = M.select_names(items)
    return S(sid, kind, form, f"select {sel} {tail}".strip(), names=names, ncols=len(items), **kw)


def STAR(sid, form, sql, tables, **kw):
    cols = [c for tb in tables for c in TABLES[tb]]
    return S(sid, "query", form, sql, names=[c[0] for c in cols], ncols=len(cols), decl=[c[1] for c in cols], **kw)


def _build():
    # -- literals ----------------------------------------------------------------------------------------------------
    for sid, e in [
        ("int", "1"), ("neg", "-1"), ("over_int32", "2147483648"), ("dec", "1.5"), ("dec_scale3", "0.125"),
        ("float", "1.5e0"), ("str", "'a'"), ("empty_str", "''"), ("true", "true"), ("false", "false"),
        ("date", "'2020-01-01'::date"), ("time", "'01:02:03'::time"), ("ntz", "'2020-01-01 00:00:00'::timestamp_ntz"),
        ("tz", "'2020-01-01 00:00:00+00:00'::timestamp_tz"), ("ts", "'2020-01-01 00:00:00'::timestamp"),
        ("date_kw", "date '2020-01-01'"), ("hex", "x'AB'"), ("to_binary", "to_binary('AB', 'hex')"),
    ]:
        Q(f"lit_{sid}", "literal", [(e, "x")])
    Q("lit_over_int64", "literal_over_int64", [("9223372036854775808", "x")])
    Q("lit_38_digits", "literal_over_int64", [("12345678901234567890123456789012345678", "x")])
    Q("lit_unaliased", "literal", ["1", "'a'"])
    Q("lit_quoted_alias", "alias_quoted", [("1", '"lower"'), ("2", "UP"), ("3", "mixed"), ("4", '"with space"')])
    Q("lit_multi", "literal", [("1", "a"), ("1.5", "b"), ("'s'", "c"), ("true", "d"), ("null", "e")])
    # -- zero / identity values: the value every truthiness test and every == comparison gets wrong ---------------------------
    for sid, e in [
        ("int", "0"), ("dec1", "0.0"), ("dec2", "0.00"), ("float", "0e0"), ("number_38_0", "0::number(38,0)"), ("number_10_0", "0::number(10,0)"),
        ("number_10_2", "0::number(10,2)"), ("cast_float", "0::float"), ("cast_int", "0::int"), ("cast_bigint", "0::bigint"),
        ("to_number", "to_number('0')"), ("to_decimal", "to_decimal('0')"), ("to_decimal_10_2", "to_decimal('0', 10, 2)"),
        ("try_to_decimal", "try_to_decimal('0', 10, 0)"), ("date_epoch", "'1970-01-01'::date"), ("time_midnight", "'00:00:00'::time"),
        ("ntz_epoch", "'1970-01-01 00:00:00'::timestamp_ntz"), ("tz_epoch", "'1970-01-01 00:00:00+00:00'::timestamp_tz"),
        ("to_timestamp_0", "to_timestamp(0)"), ("binary_empty", "to_binary('', 'hex')"), ("str_empty", "''"), ("false", "false"),
        ("json_0", "parse_json('0')"), ("json_false", "parse_json('false')"), ("json_empty_str", "parse_json('\"\"')"),
        ("json_empty_array", "parse_json('[]')"), ("json_empty_object", "parse_json('{}')"), ("json_null", "parse_json('null')"),
        ("array_construct_empty", "array_construct()"), ("object_construct_empty", "object_construct()"),
    ]:
        Q(f"zero_lit_{sid}", "zero_literal", [(e, "x")])
    Q("zero_lit_row", "zero_literal", [("0", "a"), ("5", "b"), ("0::number(38,0)", "c"), ("7::number(38,0)", "d"), ("0.00", "e"), ("to_number('0')", "f"), ("to_number('5')", "g")])
    for sid, e, frm in [
        ("sub_int", "a - a", "t"), ("sub_dec", "x - x", "u"), ("sub_float", "f - f", "u"), ("mul_dec", "x * 0", "u"), ("mod", "a % 1", "t"),
        ("cast_p0", "(a - 1)::number(10,0)", "t"), ("cast_38_0", "(a - 1)::number(38,0)", "t"), ("cast_dec", "(a - 1)::number(10,2)", "t"),
        ("sum_minus", "sum(a) - 6", "t"), ("sum_zero_int", "sum(a - a)", "t"), ("sum_zero_dec", "sum(x - x)", "u"), ("sum_zero_float", "sum(f - f)", "u"),
        ("avg_zero", "avg(a - a)", "t"), ("min_zero", "min(a - 1)", "t"), ("count_none", "count(*)", "t where a > 100"),
        ("count_if_none", "count_if(a > 100)", "t"), ("win_sum_zero", "sum(a - a) over ()", "t"), ("win_row_number_0", "row_number() over (order by a) - 1", "t"),
        ("length_empty", "length('')", None), ("round_zero", "round(x - x, 1)", "u"), ("abs_zero", "abs(a - a)", "t"), ("datediff_zero", "datediff(day, d, d)", "u"),
        ("coalesce_zero", "coalesce(null, 0)", None), ("iff_zero", "iff(a > 1, 0, a)", "t"), ("zeroifnull", "zeroifnull(null)", None),
    ]:
        Q(f"zero_expr_{sid}", "zero_expression", [(e, "x")], f"from {frm} order by 1" if frm and " where " not in frm else (f"from {frm}" if frm else ""))
    STAR("zero_star_z", "zero_table", "select * from z order by id", ["z"])
    STAR("zero_star_z_row", "zero_table", "select * from z where id = 2", ["z"])
    Q("zero_cols_z", "zero_table", ["id", "n", "d"], "from z order by id", decl=["INT", "NUMBER(12,0)", "NUMBER(12,2)"])
    Q("zero_sum_z_row", "zero_table", [("sum(n)", "total"), ("sum(d)", "cents"), ("sum(id)", "ids"), ("sum(f)", "fl")], "from z where id = 2")
    Q("zero_sum_z", "zero_table", [("sum(n) - 243", "zero"), ("sum(n)", "total"), ("max(n)", "mx"), ("min(abs(n))", "mn")], "from z")
    Q("zero_group_z", "zero_table", [("b", None), ("sum(n)", "total"), ("count(n)", "cnt")], "from z group by b order by 1")
    Q("zero_win_z", "zero_table", [("id", None), ("sum(n) over (order by id)", "running"), ("lag(n) over (order by id)", "prev")], "from z order by id")
    Q("zero_case_z", "zero_table", [("case when n = 0 then n else d end", "x"), ("nvl(n, 0)", "y"), ("n * d", "p")], "from z order by id")
    S("zero_union_z", "query", "zero_table", "select n as x from z where id = 2 union all select n from z where id = 1", names=["X"], ncols=1, decl=["NUMBER(12,0)"])
    # -- NULL --------------------------------------------------------------------------------------------------------
    Q("null_bare", "null", ["null"])
    Q("null_alias", "null", [("null", "x")])
    for ty in ("int", "varchar", "number(10,2)", "float", "date", "timestamp_ntz", "boolean", "variant"):
        Q(f"null_cast_{ty.split('(')[0]}", "null", [(f"null::{ty}", "x")])
    Q("null_case", "null", [("case when false then 1 end", "x")])
    Q("null_row", "null", [("a", None), ("null", "n")], "from t order by a")
    # -- arithmetic --------------------------------------------------------------------------------------------------
    for sid, e, frm in [
        ("add_int", "a + 1", "t"), ("sub_int", "a - 1", "t"), ("mul_int", "a * 2", "t"), ("div_int", "a / 2", "t"),
        ("mod_int", "a % 2", "t"), ("neg_int", "-a", "t"), ("add_dec", "x + 1", "u"), ("mul_dec", "x * 2", "u"),
        ("div_dec", "x / 2", "u"), ("mul_float", "f * 2", "u"), ("add_int_dec", "id + x", "u"),
        ("add_int_float", "id + f", "u"), ("add_lit", "1 + 1", None), ("mul_lit_dec", "2 * 1.5", None),
        ("div_lit", "1 / 3", None), ("paren", "(a + 1) * 2", "t"),
    ]:
        Q(f"arith_{sid}", "arithmetic", [(e, "x")], f"from {frm} order by 1" if frm else "")
    # -- aggregates ---------------------------------------------------------------------------------------------------
    for sid, e, frm, form in [
        ("count_star", "count(*)", "t", "agg"), ("count_col", "count(a)", "t", "agg"),
        ("count_distinct", "count(distinct b)", "t", "agg"), ("sum_int", "sum(a)", "t", "agg_sum_int"),
        ("sum_dec", "sum(x)", "u", "agg"), ("sum_float", "sum(f)", "u", "agg"), ("avg_int", "avg(a)", "t", "agg"),
        ("avg_dec", "avg(x)", "u", "agg"), ("avg_float", "avg(f)", "u", "agg"), ("min_int", "min(a)", "t", "agg"),
        ("min_str", "min(b)", "t", "agg"), ("min_dec", "min(x)", "u", "agg"), ("min_float", "min(f)", "u", "agg"),
        ("min_date", "min(d)", "u", "agg"), ("max_int", "max(a)", "t", "agg"), ("max_str", "max(b)", "t", "agg"),
        ("max_date", "max(d)", "u", "agg"), ("sum_case", "sum(case when a > 1 then 1 else 0 end)", "t", "agg_sum_int"),
        ("median", "median(a)", "t", "agg"), ("stddev", "stddev(a)", "t", "agg"), ("count_if", "count_if(a > 1)", "t", "agg_sum_int"),
        ("any_value", "any_value(b)", "t where a = 1", "agg"), ("listagg", "listagg(b, ',') within group (order by a)", "t", "agg"),
        ("max_by", "max_by(b, a)", "t", "agg"), ("approx_cd", "approx_count_distinct(a)", "t", "agg"),
    ]:
        Q(f"agg_{sid}", form, [(e, "x")], f"from {frm}")
    Q("agg_unaliased", "agg", ["count(*)", "min(a)"], "from t")
    Q("agg_sum_empty", "agg_sum_int", [("sum(a)", "x")], "from t where a > 100")
    Q("agg_group", "agg", [("b", None), ("count(*)", "n")], "from t group by b order by b")
    Q("agg_group_sum_dec", "agg", [("id", None), ("sum(x)", "s")], "from u group by id order by id")
    Q("agg_having", "agg", [("b", None), ("max(a)", "m")], "from t group by b having max(a) > 1 order by b")
    # -- window ---------------------------------------------------------------------------------------------------------
    for sid, e, frm, form in [
        ("row_number", "row_number() over (order by a)", "t", "window"), ("rank", "rank() over (order by a)", "t", "window"),
        ("dense_rank", "dense_rank() over (order by a)", "t", "window"), ("ntile", "ntile(2) over (order by a)", "t", "window"),
        ("sum_int", "sum(a) over ()", "t", "window_sum_int"), ("sum_int_running", "sum(a) over (order by a)", "t", "window_sum_int"),
        ("sum_dec", "sum(x) over (order by id)", "u", "window"), ("avg", "avg(a) over ()", "t", "window"),
        ("count", "count(*) over ()", "t", "window"), ("lag", "lag(a) over (order by a)", "t", "window"),
        ("lead_str", "lead(b) over (order by a)", "t", "window"), ("first_value", "first_value(b) over (order by a)", "t", "window"),
        ("last_value", "last_value(b) over (order by a)", "t", "window"), ("min_dec", "min(x) over ()", "u", "window"),
        ("partition", "row_number() over (partition by b order by a)", "t", "window"),
        ("percent_rank", "percent_rank() over (order by a)", "t", "window"), ("cume_dist", "cume_dist() over (order by a)", "t", "window"),
        ("frame", "max(a) over (order by a rows between 1 preceding and current row)", "t", "window"),
    ]:
        Q(f"win_{sid}", form, [(e, "x")], f"from {frm} order by 1")
    # -- cast ----------------------------------------------------------------------------------------------------------
    for sid, e, frm in [
        ("int_varchar", "a::varchar", "t"), ("int_float", "a::float", "t"), ("int_number_10_2", "a::number(10,2)", "t"),
        ("int_number_5_0", "a::number(5,0)", "t"), ("str_varchar5", "b::varchar(5)", "t"), ("lit_int", "'1'::int", None),
        ("dec_int", "x::int", "u"), ("float_number", "f::number(10,1)", "u"), ("int_boolean", "a::boolean", "t"),
        ("date_ntz", "d::timestamp_ntz", "u"), ("date_varchar", "d::varchar", "u"), ("cast_fn", "cast(a as string)", "t"),
        ("try_cast", "try_cast('1' as int)", None), ("to_number", "to_number('12')", None),
        ("to_decimal", "to_decimal('1.5', 10, 2)", None), ("try_to_decimal", "try_to_decimal('1.5', 10, 2)", None),
        ("try_to_decimal_bad", "try_to_decimal('x', 10, 2)", None), ("to_varchar", "to_varchar(a)", "t"),
        ("to_char_date", "to_char(d, 'YYYY-MM-DD')", "u"), ("to_date", "to_date('2020-01-02')", None),
        ("to_date_col", "to_date(d)", "u"), ("to_timestamp_ntz", "to_timestamp_ntz('2020-01-02 03:04:05')", None),
        ("to_timestamp", "to_timestamp('2020-01-02 03:04:05')", None), ("to_timestamp_epoch", "to_timestamp(0)", None),
        ("to_time", "to_time('01:02:03')", None), 
        ("int_variant", "a::variant", "t"), 
        ("str_binary", "to_binary(b, 'utf-8')", "t"), ("number_38_0", "a::number(38,0)", "t"), ("bigint", "a::bigint", "t"),
    ]:
        Q(f"cast_{sid}", "cast", [(e, "x")], f"from {frm} order by 1" if frm else "")
    # -- concatenation ---------------------------------------------------------------------------------------------------
    for sid, e in [("op", "b || 'x'"), ("op_int", "a || b"), ("fn", "concat(b, 'x')"), ("fn_int", "concat(a, b)"), ("ws", "concat_ws('-', b, b)")]:
        Q(f"concat_{sid}", "concat", [(e, "x")], "from t order by 1")
    # -- CASE and predicates -----------------------------------------------------------------------------------------------
    for sid, e, frm in [
        ("str", "case when a > 1 then 'big' else 'small' end", "t"), ("int_null", "case when a > 1 then a end", "t"),
        ("simple_dec", "case id when 1 then x else 0 end", "u"), ("iff", "iff(a > 1, 1, 0)", "t"),
        ("coalesce", "coalesce(b, 'n')", "t"), ("nvl", "nvl(a, 0)", "t"), ("nullif", "nullif(a, 1)", "t"),
        ("nvl2", "nvl2(a, 'y', 'n')", "t"), ("decode", "decode(a, 1, 'one', 'other')", "t"), ("zeroifnull", "zeroifnull(a)", "t"),
        ("gt", "a > 1", "t"), ("in", "a in (1, 2)", "t"), ("like", "b like 'x%'", "t"), ("is_null", "a is null", "t"),
        ("not", "not (a > 1)", "t"), ("between", "a between 1 and 2", "t"), ("and", "a > 1 and b = 'y'", "t"),
        ("greatest", "greatest(a, 2)", "t"), ("least", "least(x, 2)", "u"),
    ]:
        Q(f"case_{sid}", "case", [(e, "x")], f"from {frm} order by 1")
    # -- function results (scalar), incl. the rewritten ones --------------------------------------------------------------
    for sid, e, frm in [
        ("length", "length(b)", "t"), ("upper", "upper(b)", "t"), ("substr", "substr(b, 1, 1)", "t"), ("left", "left(b, 1)", "t"),
        ("replace", "replace(b, 'x', 'y')", "t"), ("round_dec", "round(x, 1)", "u"), ("round_float", "round(f)", "u"),
        ("abs", "abs(a)", "t"), ("floor_dec", "floor(x)", "u"), ("ceil_float", "ceil(f)", "u"), ("mod", "mod(a, 2)", "t"),
        ("power", "power(a, 2)", "t"), ("sqrt", "sqrt(a)", "t"), ("ln", "ln(a)", "t"),
        ("contains", "contains(b, 'x')", "t"), ("startswith", "startswith(b, 'x')", "t"),
        ("lpad", "lpad(b, 3, '0')", "t"), ("repeat", "repeat(b, 2)", "t"), ("reverse", "reverse(b)", "t"), ("ascii", "ascii(b)", "t"),
        ("chr", "chr(65)", None), ("split_part", "split_part('a,b', ',', 1)", None),
        ("trim", "trim(b)", "t"), ("ltrim_chars", "ltrim(b, 'x')", "t"), ("regexp_replace", "regexp_replace(b, 'x', 'y')", "t"),
        ("regexp_substr", "regexp_substr(b, '[a-z]')", "t"), ("regexp_like", "regexp_like(b, '[a-z]')", "t"),
        ("sha2", "sha2('a')", None), ("sha2_256", "sha2('a', 256)", None),
        ("md5", "md5('a')", None), 
        ("dateadd_date", "dateadd(day, 1, d)", "u"), ("dateadd_str", "dateadd(day, 1, '2020-01-01')", None),
        ("dateadd_ts", "dateadd(hour, 1, '2020-01-01 00:00:00'::timestamp)", None), ("datediff", "datediff(day, d, '2020-03-01')", "u"),
        ("date_trunc", "date_trunc('month', d)", "u"), ("year", "year(d)", "u"), ("extract", "extract(year from d)", "u"),
        ("last_day", "last_day(d)", "u"), ("dayname", "dayname(d)", "u"), ("date_part", "date_part(month, d)", "u"),
        ("date_from_parts", "date_from_parts(2020, 1, 2)", None),
        ("current_database", "current_database()", None), ("current_schema", "current_schema()", None),
    ]:
        Q(f"fn_{sid}", "function", [(e, "x")], f"from {frm} order by 1" if frm else "")
    Q("fn_hash", "function_hash", [("hash(a)", "x")], "from t order by a")
    Q("fn_sign", "function_sign", [("sign(a)", "x")], "from t order by a")
    for sid, e in [("current_date", "current_date"), ("current_date_fn", "current_date()"), ("current_timestamp", "current_timestamp"),
                   ("current_time", "current_time"), ("random_unseeded", "random()")]:
        Q(f"fn_{sid}", "function_volatile", [(e, "x")], volatile=True)
    Q("fn_uuid_string", "function_uuid", [("uuid_string()", "x")], volatile=True)
    # -- semi-structured constructors and navigation -------------------------------------------------------------------------
    for sid, e, frm, form in [
        ("array_construct", "array_construct(1, 2)", None, "array_constructor"), ("array_construct_empty", "array_construct()", None, "array_constructor"),
        ("array_construct_str", "array_construct('a', 'b')", None, "array_constructor"), ("array_literal", "[1, 2]", None, "array_constructor"),
        ("array_agg", "array_agg(a)", "t", "semi"), ("array_agg_within", "array_agg(a) within group (order by a desc)", "t", "semi"),
        ("split", "split('a,b', ',')", None, "semi"), ("object_construct", "object_construct('a', 1, 'b', 'x')", None, "semi"),
        ("object_literal", "{'a': 1}", None, "semi"),
        ("parse_json_obj", "parse_json('{\"a\": 1}')", None, "semi"), ("parse_json_arr", "parse_json('[1, 2]')", None, "semi"),
        ("parse_json_num", "parse_json('1')", None, "semi"), ("try_parse_json", "try_parse_json('{\"a\": 1}')", None, "semi"),
        ("to_json", "to_json(parse_json('{\"a\": 1}'))", None, "semi"),
        ("array_size", "array_size(parse_json('[1, 2]'))", None, "array_size"), ("array_size_constructed", "array_size(array_construct(1, 2))", None, "array_size"),
        ("path_colon", "v:k", "j", "semi"), ("path_nested", "v:a.b", "j", "semi"), ("path_cast_int", "v:a.b::int", "j", "semi"),
        ("path_cast_varchar", "v:k::varchar", "j", "semi"), ("path_bracket", "v['k']", "j", "semi"), ("path_index", "v:arr[0]", "j", "semi"),
        ("get_path", "get_path(v, 'a.b')", "j", "semi"), ("path_upper", "upper(v:k)", "j", "semi"), ("variant_col", "v", "j", "semi"),
        ("array_index", "array_construct('a', 'b')[0]", None, "semi"), ("object_index", "object_construct('k', 'v1')['k']", None, "semi"),
        ("typeof", "typeof(parse_json('1'))", None, "semi"),
    ]:
        Q(f"semi_{sid}", form, [(e, "x")], f"from {frm}" if frm else "")
    Q("semi_lateral_flatten", "semi", [("id", None), ("f.value", None)], "from j, lateral flatten(input => v:arr) f order by 2")
    Q("semi_flatten_cast", "semi", [("f.value::int", "n")], "from j, lateral flatten(input => v:arr) f order by 1")
    # -- SELECT * and plain column references --------------------------------------------------------------------------------
    STAR("star_ty", "star", "select * from ty order by id", ["ty"])
    STAR("star_ty_nulls", "star", "select * from ty where id = 2", ["ty"])
    STAR("star_ty_empty", "star", "select * from ty where id > 100", ["ty"])
    STAR("star_t", "star", "select * from t order by a", ["t"])
    STAR("star_u", "star", "select * from u order by id", ["u"])
    STAR("star_view", "star", "select * from vw order by a", ["vw"])
    STAR("star_qualified", "star", "select * from db1.s1.t order by a", ["t"])
    STAR("star_other_schema_empty", "star", "select * from s2.t2", ["s2.t2"])
    STAR("star_join_dup", "star_dup_names", "select * from t join src on t.a = src.a order by 1", ["t", "src"])
    STAR("star_alias", "star", "select t.* from t order by a", ["t"])
    STAR("star_subquery", "star", "select * from (select a, b from t) order by a", ["t"])
    STAR("star_limit", "star", "select * from t order by a limit 2", ["t"])
    STAR("star_cte", "star", "with q as (select * from t) select * from q order by a", ["t"])
    Q("cols_t", "columns", ["a", "b"], "from t order by a", decl=["INT", "VARCHAR"])
    Q("cols_lower_upper", "columns", ["A", "b"], "from T order by a", decl=["INT", "VARCHAR"])
    Q("cols_qualified", "columns", ["t.a", "s1.t.b"], "from s1.t order by a", decl=["INT", "VARCHAR"])
    Q("cols_u", "columns", ["id", "x", "f", "d"], "from u order by id", decl=["INT", "NUMBER(10,2)", "FLOAT", "DATE"])
    Q("cols_alias", "columns", [("a", "k"), ("b", '"v"')], "from t order by a", decl=["INT", "VARCHAR"])
    Q("cols_dup", "columns_dup_names", ["a", "a"], "from t order by a", decl=["INT", "INT"])
    Q("cols_dup_alias", "columns_dup_names", [("a", None), ("b", "a")], "from t order by 1", decl=["INT", "VARCHAR"])
    Q("cols_empty", "columns", ["a", "b"], "from t where a > 100", decl=["INT", "VARCHAR"])
    Q("cols_star_extra", "columns", [("t.a", None), ("1", "one")], "from t order by a")
    Q("cols_distinct", "columns", ["b"], "from (select distinct b from t) order by b", decl=["VARCHAR"])
    Q("cols_where_in_subquery", "columns", ["a"], "from t where a in (select a from src) order by a", decl=["INT"])
    Q("cols_exists", "columns", ["a"], "from t where exists (select 1 from src where src.a = t.a) order by a", decl=["INT"])
    Q("cols_join", "columns", ["t.a", "src.b"], "from t join src on t.a = src.a order by 1", decl=["INT", "VARCHAR"])
    Q("cols_left_join", "columns", [("t.a", None), ("src.b", "sb")], "from t left join src on t.a = src.a order by 1", decl=["INT", "VARCHAR"])
    Q("cols_identifier", "columns", ["a"], "from identifier('t') order by a", decl=["INT"])
    Q("cols_qualify", "columns", ["a"], "from t qualify row_number() over (order by a) = 1", decl=["INT"])
    Q("cols_info_schema", "info_schema", ["table_name", "table_type"], "from information_schema.tables where table_schema = 'S1' order by 1")
    Q("cols_info_schema_columns", "info_schema", ["column_name", "data_type", "ordinal_position"], "from information_schema.columns where table_name = 'T' order by 3")
    S("values_2", "query", "values", "select * from values (1, 'a'), (2, 'b') order by 1", names=["COLUMN1", "COLUMN2"], ncols=2)
    S("values_1", "query", "values", "select column1 from values (1.5), (2.5) order by 1", names=["COLUMN1"], ncols=1)
    # -- set operations / CTE / subquery -------------------------------------------------------------------------------------
    S("set_union_all", "query", "setop", "select a as x from t union all select a from src order by 1", names=["X"], ncols=1)
    S("set_union", "query", "setop", "select a as x from t union select a from src order by 1", names=["X"], ncols=1)
    S("set_intersect", "query", "setop", "select a as x from t intersect select a from src", names=["X"], ncols=1)
    S("set_except", "query", "setop", "select a as x from t except select a from src order by 1", names=["X"], ncols=1)
    S("set_union_mixed", "query", "setop", "select a as x from t union all select x from u order by 1", names=["X"], ncols=1)
    S("cte_agg", "query", "cte", "with q as (select b, count(*) as n from t group by b) select b, n from q order by b", names=["B", "N"], ncols=2)
    S("cte_two", "query", "cte", "with p as (select a from t), q as (select a from src) select p.a as pa, q.a as qa from p join q on p.a = q.a", names=["PA", "QA"], ncols=2)
    S("subquery_scalar", "query", "subquery", "select a, (select max(a) from src) as m from t order by a", names=["A", "M"], ncols=2)
    # -- seeded RANDOM / SAMPLE ----------------------------------------------------------------------------------------------
    Q("seeded_random", "random_seeded", [("random(42)", "r")], kind="seeded")
    Q("seeded_random_unaliased", "random_seeded", ["random(42)"], kind="seeded")
    Q("seeded_random_rows", "random_seeded_multi", [("a", None), ("random(7)", "r")], "from t order by a", kind="seeded")
    S("seeded_random_cte", "seeded", "random_seeded", "with q as (select random(3) as r) select r from q", names=["R"], ncols=1)
    Q("seeded_random_two", "random_seeded_multi", [("random(1)", "r1"), ("1", "one")], kind="seeded")
    Q("seeded_sample_seed", "sample", ["a"], "from t sample (50) seed (1)", kind="seeded", decl=["INT"])
    Q("seeded_sample_100", "sample", ["a"], "from t sample (100) order by a", kind="seeded", decl=["INT"])
    Q("seeded_tablesample", "sample", ["a", "b"], "from t tablesample bernoulli (100) order by a", kind="seeded", decl=["INT", "VARCHAR"])
    Q("seeded_sample_rows", "sample", ["a"], "from t sample (3 rows) order by a", kind="seeded", decl=["INT"])
    Q("seeded_sample_repeatable", "sample", ["a"], "from t tablesample (50) repeatable (1)", kind="seeded", decl=["INT"])
    # -- DML --------------------------------------------------------------------------------------------------------------------
    for sid, form, sql in [
        ("insert_1", "insert", "insert into t values (7, 'q')"),
        ("insert_3", "insert", "insert into t values (7, 'q'), (8, 'r'), (9, 's')"),
        ("insert_cols", "insert", "insert into t (a) values (7)"),
        ("insert_select", "insert", "insert into t select a, b from src"),
        ("insert_select_0", "insert", "insert into t select a, b from src where a > 100"),
        ("insert_qualified", "insert", "insert into db1.s2.t2 values (1)"),
        ("insert_typed", "insert", "insert into u values (4, 4.25, 4.5, '2021-01-01')"),
        ("update_1", "update", "update t set b = 'k' where a = 1"),
        ("update_all", "update", "update t set b = 'k'"),
        ("update_0", "update", "update t set b = 'k' where a > 100"),
        ("update_expr", "update", "update u set x = x + 1 where id = 2"),
        ("update_from", "update", "update t set b = src.b from src where t.a = src.a"),
        ("delete_1", "delete", "delete from t where a = 1"),
        ("delete_all", "delete", "delete from t"),
        ("delete_0", "delete", "delete from t where a > 100"),
        ("delete_using", "delete", "delete from t using src where t.a = src.a"),
        ("truncate", "truncate", "truncate table t"),
        ("merge_upsert", "merge", "merge into t using src on t.a = src.a when matched then update set b = src.b when not matched then insert (a, b) values (src.a, src.b)"),
        ("merge_update", "merge", "merge into t using src on t.a = src.a when matched then update set b = src.b"),
        ("merge_insert", "merge", "merge into t using src on t.a = src.a when not matched then insert (a, b) values (src.a, src.b)"),
        ("merge_delete", "merge", "merge into t using src on t.a = src.a when matched then DELETE"),
        ("merge_insert_0", "merge", "merge into t using (select a, b from src where a = 1) s on t.a = s.a when matched then update set b = s.b when not matched then insert (a, b) values (s.a, s.b)"),
        ("merge_update_0", "merge", "merge into t using (select a, b from src where a = 9) s on t.a = s.a when matched then update set b = s.b when not matched then insert (a, b) values (s.a, s.b)"),
        ("merge_delete_0", "merge", "merge into t using (select a, b from src where a = 9) s on t.a = s.a when matched then DELETE when not matched then insert (a, b) values (s.a, s.b)"),
        ("merge_none", "merge", "merge into t using (select a, b from src where a > 100) s on t.a = s.a when matched then update set b = s.b"),
    ]:
        S(f"dml_{sid}", "dml", form, sql)
    # -- DDL --------------------------------------------------------------------------------------------------------------------
    for sid, form, sql in [
        ("create_table", "create_table", "create table n1 (a int, b varchar(10))"),
        ("create_table_types", "create_table", "create table n1 (a number(10,2), b float, c date, d timestamp_ntz, e variant, f boolean, g binary)"),
        ("create_or_replace_table", "create_table", "create or replace table t (x int)"),
        ("create_table_if_not_exists_new", "create_table", "create table if not exists n1 (a int)"),
        ("create_table_if_not_exists_old", "create_table", "create table if not exists t (a int)"),
        ("create_transient_table", "create_table", "create transient table n1 (a int)"),
        ("create_temporary_table", "create_table", "create temporary table n1 (a int)"),
        ("create_table_qualified", "create_table", "create table db1.s2.n1 (a int)"),
        ("create_table_pk", "create_table", "create table n1 (a int primary key, b varchar not null)"),
        ("create_table_comment", "create_table", "create table n1 (a int comment 'c') comment = 'tc'"),
        ("create_table_default", "create_table", "create table n1 (a int default 1, b varchar default 'x')"),
        ("ctas", "create_table", "create table n1 as select a, b from t"),
        ("ctas_or_replace", "create_table", "create or replace table n1 as select 1 as a"),
        ("create_table_clone", "create_table", "create table n1 clone t"),
        ("create_table_like", "create_table", "create table n1 like t"),
        ("create_view", "create_view", "create view n1 as select a from t"),
        ("create_or_replace_view", "create_view", "create or replace view vw as select a from t"),
        ("create_schema", "create_schema", "create schema n1"),
        ("create_schema_if_not_exists", "create_schema", "create schema if not exists s2"),
        ("create_schema_qualified", "create_schema", "create schema db2.n1"),
        ("create_or_replace_schema", "create_schema", "create or replace schema n1"),
        ("create_database", "create_database", "create database n1"),
        ("create_database_if_not_exists", "create_database", "create database if not exists db2"),
        ("drop_table", "drop", "drop table src"),
        ("drop_table_if_exists_missing", "drop", "drop table if exists nope"),
        ("drop_table_qualified", "drop", "drop table db1.s2.t2"),
        ("drop_view", "drop", "drop view vw"),
        ("drop_view_if_exists_missing", "drop", "drop view if exists nope"),
        ("drop_schema", "drop", "drop schema s2"),
        ("drop_schema_cascade", "drop", "drop schema s2 cascade"),
        ("drop_schema_if_exists_missing", "drop", "drop schema if exists nope"),
        ("drop_current_schema", "drop", "drop schema s1 cascade"),
        ("alter_add_column", "alter", "alter table t add column c int"),
        ("alter_add_column_varchar", "alter", "alter table t add column c varchar(5)"),
        ("alter_drop_column", "alter", "alter table t drop column b"),
        ("alter_rename_column", "alter", "alter table t rename column b to c"),
        ("alter_rename_table", "alter", "alter table t rename to n1"),
        ("alter_set_comment", "comment", "alter table t set comment = 'c'"),
        ("alter_cluster_by", "alter", "alter table t cluster by (a)"),
        ("alter_column_type", "alter", "alter table t alter column b set data type varchar(20)"),
        ("comment_on_table", "comment", "comment on table t is 'x'"),
        ("comment_on_table_qualified", "comment", "comment on table db1.s1.t is 'x'"),
        ("comment_on_column", "comment_column", "comment on column t.a is 'x'"),
        ("create_tag", "tag", "create tag n1"),
        ("alter_set_tag", "tag", "alter table t set tag n1 = 'v'"),
    ]:
        S(f"ddl_{sid}", "ddl", form, sql)
    # -- USE --------------------------------------------------------------------------------------------------------------------
    for sid, sql in [
        ("schema", "use schema s2"), ("schema_same", "use schema s1"), ("schema_qualified", "use schema db1.s2"),
        ("schema_other_db", "use schema db2.main"), ("database", "use database db2"), ("database_same", "use database db1"),
        ("schema_quoted", 'use schema "S2"'),
    ]:
        S(f"use_{sid}", "use", "use", sql)
    # -- transactions -------------------------------------------------------------------------------------------------------------
    S("tx_begin", "tx", "effective", "begin")
    S("tx_begin_transaction", "tx", "effective", "begin transaction")
    S("tx_commit_open", "tx", "effective", "commit", pre=["begin", "insert into t values (50, 'tx')"])
    S("tx_commit_open_empty", "tx", "effective", "commit", pre=["begin"])
    S("tx_rollback_open", "tx", "effective", "rollback", pre=["begin", "insert into t values (50, 'tx')"])
    S("tx_rollback_open_empty", "tx", "effective", "rollback", pre=["begin"])
    S("tx_commit_idle", "tx", "idle", "commit")
    S("tx_rollback_idle", "tx", "idle", "rollback")
    # statements executed (and described) inside an open transaction; afterwards the transaction is rolled back /
    # committed and the final digest compared with the control trace: the read neither committed nor rolled back
    _intx = ["begin", "insert into t values (50, 'tx')"]
    for post in ("rollback", "commit"):
        Q(f"intx_select_{post}", "select", ["a", "b"], "from t order by a", kind="intx", pre=_intx, post=post, decl=["INT", "VARCHAR"])
        S(f"intx_insert_{post}", "intx", "insert", "insert into t values (51, 'in')", pre=_intx, post=post)
        S(f"intx_update_{post}", "intx", "update", "update t set b = 'k' where a = 50", pre=_intx, post=post)
        S(f"intx_create_table_{post}", "intx", "create_table", "create table n1 (a int)", pre=_intx, post=post)
    # -- session variables -----------------------------------------------------------------------------------------------------------
    S("var_set_int", "var", "set", "set v = 1")
    S("var_set_str", "var", "set", "set v = 'a'")
    S("var_set_dec", "var", "set", "set v = 1.5")
    S("var_set_existing", "var", "set", "set v0 = 6", pre=["set v0 = 5"])
    S("var_set_multi", "var", "set_multi", "set (v1, v2) = (1, 'b')")
    S("var_unset", "var", "unset", "unset v0", pre=["set v0 = 5"])
    Q("var_select", "var_use", [("$v0", "x")], kind="query", pre=["set v0 = 5"])
    Q("var_select_expr", "var_use", [("$v0 + 1", "x")], kind="query", pre=["set v0 = 5"])
    Q("var_select_str", "var_use", [("$s0", "x")], kind="query", pre=["set s0 = 'abc'"])
    Q("var_where", "var_use", ["a"], "from t where a = $v0", kind="query", pre=["set v0 = 2"], decl=["INT"])
    # -- SHOW / DESCRIBE ---------------------------------------------------------------------------------------------------------------
    for sid, form, sql in [
        ("tables", "show_tables", "show tables"), ("terse_tables", "show_tables", "show terse tables"),
        ("tables_in_schema", "show_tables", "show tables in schema s2"), ("tables_in_db_schema", "show_tables", "show tables in db1.s1"),
        ("tables_in_database", "show_tables", "show tables in database db1"), ("tables_like", "show_tables", "show tables like 'T%'"),
        ("objects", "show_objects", "show objects"), ("terse_objects", "show_objects", "show terse objects"),
        ("objects_in_schema", "show_objects", "show objects in schema s2"), ("objects_in_database", "show_objects", "show objects in database db1"),
        ("schemas", "show_schemas", "show schemas"), ("terse_schemas", "show_schemas", "show terse schemas"),
        ("schemas_in_database", "show_schemas", "show schemas in database db2"),
        ("databases", "show_databases", "show databases"),
        ("users", "show_users", "show users"),
        ("primary_keys", "show_keys", "show primary keys"), ("unique_keys", "show_keys", "show unique keys"),
        ("imported_keys", "show_keys", "show imported keys"), ("primary_keys_in_table", "show_keys", "show primary keys in table t"),
        ("primary_keys_in_schema", "show_keys", "show primary keys in schema"),
        ("describe_table", "describe", "describe table t"), ("desc_table", "describe", "desc table t"),
        ("describe_table_ty", "describe", "describe table ty"), ("describe_table_schema", "describe", "describe table s2.t2"),
        ("describe_table_qualified", "describe", "describe table db1.s1.u"), ("describe_view", "describe", "describe view vw"),
        ("desc_view", "describe", "desc view vw"),
    ]:
        S(f"show_{sid}", "show", form, sql)
    # -- no-op'd statements (connection created with nop_regexes=NOP_REGEXES) -----------------------------------------------------------
    for sid, sql in [
        ("call", "call my_proc(1)"), ("call_upper", "CALL OTHER_PROC()"), ("grant", "grant select on table t to role r1"),
        ("alter_session", "alter session set timezone = 'UTC'"), ("create_stage", "create stage st1"),
    ]:
        S(f"nop_{sid}", "nop", "matched", sql, nop=True)
    S("nop_call_param", "nop", "matched", "call my_proc(%s)", nop=True, params=(1,))
    Q("nop_unmatched_select", "unmatched", [("a", None), ("1", "one")], "from t order by a", kind="nop", nop=True)
    S("nop_unmatched_insert", "nop", "unmatched", "insert into t values (7, 'q')", nop=True)
    # -- parametrised statements -----------------------------------------------------------------------------------------------------------
    pvals = [
        ("int", 1), ("str", "a"), ("float", 1.5), ("none", None), ("bool", True), ("decimal", D("1.50")),
        ("date", datetime.date(2020, 1, 2)), ("datetime", datetime.datetime(2020, 1, 2, 3, 4, 5)), ("str_quote", "it's"),
        ("big_int", 2**40), ("zero", 0), ("zero_float", 0.0), ("zero_decimal", D("0")), ("zero_decimal_scaled", D("0.00")), ("empty_str", ""),
        ("false", False), ("epoch_date", datetime.date(1970, 1, 1)), ("epoch_datetime", datetime.datetime(1970, 1, 1, 0, 0, 0)),
    ]
    for style, ph in (("pyformat", "%s"), ("qmark", "?")):
        for lbl, v in pvals:
            Q(f"param_{style}_{lbl}", f"{style}_select", [(ph, "x")], kind="param", style=style, params=(v,))
        Q(f"param_{style}_two", f"{style}_select", [(ph, "x"), (ph, "y")], kind="param", style=style, params=(1, "a"))
        Q(f"param_{style}_where", f"{style}_select", ["a", "b"], f"from t where a = {ph} order by a", kind="param", style=style, params=(2,), decl=["INT", "VARCHAR"])
        Q(f"param_{style}_where_0", f"{style}_select", ["a"], f"from t where b = {ph}", kind="param", style=style, params=("nope",), decl=["INT"])
        Q(f"param_{style}_mixed", f"{style}_select", [("a", None), (ph, "p")], f"from t where a in ({ph}, {ph}) order by a", kind="param", style=style, params=("k", 1, 2))
        Q(f"param_{style}_cast", f"{style}_select", [(f"{ph}::number(10,2)", "x")], kind="param", style=style, params=(1,))
        Q(f"param_{style}_cast_zero", f"{style}_select", [(f"{ph}::number(38,0)", "x"), (f"{ph}::number(10,2)", "y")], kind="param", style=style, params=(0, 0))
        Q(f"param_{style}_sum_zero", f"{style}_select", [(f"sum(a) - {ph}", "x")], "from t", kind="param", style=style, params=(6,))
        Q(f"param_{style}_sum", "sum_int", [("sum(a)", "x")], f"from t where a > {ph}", kind="param", style=style, params=(0,))
        S(f"param_{style}_insert", "param", f"{style}_dml", f"insert into t values ({ph}, {ph})", style=style, params=(7, "q"))
        S(f"param_{style}_insert_select", "param", f"{style}_dml", f"insert into t select a, {ph} from src", style=style, params=("q",))
        S(f"param_{style}_update", "param", f"{style}_dml", f"update t set b = {ph} where a = {ph}", style=style, params=("k", 1))
        S(f"param_{style}_update_0", "param", f"{style}_dml", f"update t set b = {ph} where a = {ph}", style=style, params=("k", 100))
        S(f"param_{style}_delete", "param", f"{style}_dml", f"delete from t where a = {ph}", style=style, params=(1,))
        S(f"param_{style}_star", "param", f"{style}_select", f"select * from t where a >= {ph} order by a", style=style, params=(2,),
          names=["A", "B"], ncols=2, decl=["INT", "VARCHAR"])
    Q("param_pyformat_named", "pyformat_select", [("%(v)s", "x"), ("%(w)s", "y")], kind="param", params={"v": 1, "w": "a"})
    Q("param_pyformat_named_where", "pyformat_select", ["a"], "from t where a = %(v)s", kind="param", params={"v": 2}, decl=["INT"])
    Q("param_pyformat_percent", "pyformat_select", ["a"], "from t where b like 'x%%' and a = %s", kind="param", params=(1,), decl=["INT"])
    _build_binds()


# ---- statement kind x parameter style ----------------------------------------------------------------------------------------------
# Every statement kind that can carry a bound value (and the kinds that cannot, which then do not execute and are only
# counted), each with every way a value can be bound.  `{p}` marks a bind; the values are given in placeholder order.
# (stmt kind, variant, template, values, what the model knows: names / decl of a query)
BIND_STATEMENTS = [
    # queries
    ("select", "item_where", "select a, {p} as p from t where a > {p} order by a", ["k", 1], dict(names=["A", "P"], decl=["INT", None])),
    ("select", "cte", "with q as (select a from t where a > {p}) select a from q order by a", [1], dict(names=["A"], decl=["INT"])),
    ("select", "setop", "select a from t where a = {p} union all select a from src where a = {p} order by 1", [1, 9], dict(names=["A"])),
    ("select", "subquery", "select a from (select a, {p} as p from t) where p = {p} order by a", ["k", "k"], dict(names=["A"], decl=["INT"])),
    ("select", "limit", "select a from t order by a limit {p}", [2], dict(names=["A"], decl=["INT"])),
    ("select", "values", "select * from values ({p}, {p})", [1, "a"], dict(names=["COLUMN1", "COLUMN2"])),
    ("select", "empty", "select a, b from t where a > {p}", [100], dict(names=["A", "B"], decl=["INT", "VARCHAR"])),
    ("select", "view", "select a from vw where b = {p}", ["y"], dict(names=["A"], decl=["INT"])),
    # CREATE TABLE ... AS SELECT
    ("ctas", "where", "create table n1 as select a, b from t where a > {p}", [1], {}),
    ("ctas", "item", "create table n1 as select a, {p} as p from t", ["k"], {}),
    ("ctas", "item_where", "create table n1 as select a, {p} as p from t where a > {p}", [1.5, 1], {}),
    ("ctas", "or_replace", "create or replace table t as select a, {p} as p from src", ["k"], {}),
    ("ctas", "or_replace_new", "create or replace table n1 as select a from t where a > {p}", [1], {}),
    ("ctas", "if_not_exists_new", "create table if not exists n1 as select a from t where a > {p}", [1], {}),
    ("ctas", "if_not_exists_old", "create table if not exists t as select a from src where a > {p}", [1], {}),
    ("ctas", "temporary", "create temporary table n1 as select a from t where a > {p}", [1], {}),
    ("ctas", "transient", "create transient table n1 as select a from t where a > {p}", [1], {}),
    ("ctas", "qualified", "create table db1.s2.n1 as select a from t where a > {p}", [1], {}),
    ("ctas", "cte", "create table n1 as with q as (select a from t where a > {p}) select a from q", [1], {}),
    ("ctas", "empty", "create table n1 as select a from t where a > {p}", [100], {}),
    # CREATE VIEW ... AS SELECT (a bind in a view definition: inlined under client-side binding only)
    ("create_view", "where", "create view n1 as select a from t where a > {p}", [1], {}),
    ("create_view", "or_replace", "create or replace view vw as select a, {p} as p from t", ["k"], {}),
    # INSERT
    ("insert", "values", "insert into t values ({p}, {p})", [7, "q"], {}),
    ("insert", "values_multi", "insert into t values ({p}, {p}), ({p}, {p})", [7, "q", 8, "r"], {}),
    ("insert", "columns", "insert into t (a) values ({p})", [7], {}),
    ("insert", "select", "insert into t select a, {p} from src where a > {p}", ["q", 0], {}),
    ("insert", "select_0", "insert into t select a, b from src where a > {p}", [100], {}),
    ("insert", "qualified", "insert into db1.s2.t2 values ({p})", [1], {}),
    # UPDATE
    ("update", "set_where", "update t set b = {p} where a = {p}", ["k", 1], {}),
    ("update", "set_all", "update t set b = {p}", ["k"], {}),
    ("update", "where_0", "update t set b = 'k' where a > {p}", [100], {}),
    ("update", "from", "update t set b = src.b || {p} from src where t.a = src.a and src.a < {p}", ["k", 5], {}),
    # DELETE
    ("delete", "where", "delete from t where a = {p}", [1], {}),
    ("delete", "where_0", "delete from t where a > {p}", [100], {}),
    ("delete", "using", "delete from t using src where t.a = src.a and src.a < {p}", [5], {}),
    ("delete", "in_subquery", "delete from t where a in (select a from src where a < {p})", [5], {}),
    # MERGE
    ("merge", "upsert", "merge into t using src on t.a = src.a when matched then update set b = {p} when not matched then insert (a, b) values (src.a, {p})", ["u", "i"], {}),
    ("merge", "using_subquery", "merge into t using (select a, b from src where a > {p}) s on t.a = s.a when matched then update set b = s.b when not matched then insert (a, b) values (s.a, s.b)", [0], {}),
    ("merge", "update", "merge into t using src on t.a = src.a when matched then update set b = {p}", ["u"], {}),
    ("merge", "insert", "merge into t using src on t.a = src.a when not matched then insert (a, b) values (src.a, {p})", ["i"], {}),
    ("merge", "delete", "merge into t using src on t.a = src.a and src.a < {p} when matched then delete", [5], {}),
    ("merge", "none", "merge into t using (select a, b from src where a > {p}) s on t.a = s.a when matched then update set b = s.b", [100], {}),
    # statements a value is bound into although they hold no expression (accepted under client-side binding at most)
    ("set", "value", "set v = {p}", [1], {}),
    ("show", "like", "show tables like {p}", ["T%"], {}),
    ("comment", "on_table", "comment on table t is {p}", ["c"], {}),
    ("comment", "alter_set", "alter table t set comment = {p}", ["c"], {}),
    ("create_table", "default", "create table n1 (a int default {p})", [1], {}),
    # a no-op'd statement (connection with nop_regexes) carrying a value
    ("nop", "call", "call my_proc({p}, {p})", [1, "a"], dict(nop=True)),
]
# (style, paramstyle of the connection, placeholder of bind i, parameter object of the values); numeric (:1) binds are
# not accepted by fakesnow at all and are left out
BIND_STYLES = [
    ("pyformat", "pyformat", lambda i: "%s", tuple),
    ("pyformat_named", "pyformat", lambda i: f"%(p{i})s", lambda vs: {f"p{i}": v for i, v in enumerate(vs)}),
    ("format", "format", lambda i: "%s", tuple),
    ("qmark", "qmark", lambda i: "?", tuple),
    ("qmark_list", "qmark", lambda i: "?", list),
]
# executemany(): the statement once per parameter set; what description describes is the last execution
BIND_MANY = [
    ("insert", "values", "insert into t values ({p}, {p})", [[7, "q"], [8, "r"], [9, "s"]]),
    ("insert", "select", "insert into t select a, {p} from src where a > {p}", [["q", 0], ["r", 100]]),
    ("update", "set_where", "update t set b = {p} where a = {p}", [["k", 1], ["l", 100]]),
    ("delete", "where", "delete from t where a = {p}", [[1], [2]]),
    ("merge", "update", "merge into t using src on t.a = src.a when matched then update set b = {p}", [["u"], ["w"]]),
    ("select", "where", "select a, b from t where a > {p} order by a", [[100], [1]]),
]
# quick tier: the styles that differ in mechanism (inlined into the text / named / handed to the engine)
QUICK_BIND_STYLES = ("pyformat", "pyformat_named", "qmark")


def _fill(template, ph):
    parts = template.split("{p}")
    return "".join(part + (ph(i) if i < len(parts) - 1 else "") for i, part in enumerate(parts))


def _build_binds():
    for style, connstyle, ph, mk in BIND_STYLES:
        thorough = style not in QUICK_BIND_STYLES
        for skind, variant, template, values, known in BIND_STATEMENTS:
            kw = dict(known)
            if "names" in kw:
                kw["ncols"] = len(kw["names"])
            S(f"bind_{style}_{skind}_{variant}", "bind", f"{style}:{skind}", _fill(template, ph), style=connstyle, params=mk(values),
              pure=skind == "select", thorough=thorough, **kw)
        if style in ("pyformat_named", "qmark_list"):
            continue  # executemany takes a sequence of sequences
        for skind, variant, template, seq in BIND_MANY:
            S(f"bindmany_{style}_{skind}_{variant}", "bind", f"{style}:executemany_{skind}", _fill(template, ph), style=connstyle,
              params=[mk(v) for v in seq], many=True, pure=skind == "select", thorough=thorough)


# ---- column type x expression form (thorough: every declared type; quick: one type per type group) --------------------------------------
NUMERIC = ("fixed0", "fixedS", "float")
ORDERED_FAMS = ("fixed0", "fixedS", "float", "text", "date", "time", "ntz", "tz")
ALL = None
# (form, select items template, tail, type preserving?, families it is defined for)
FORMS = [
    ("col", "{c}", "from ty order by id", True, ALL),
    ("alias", "{c} as x", "from ty order by id", True, ALL),
    ("min", "min({c}) as x", "from ty", True, ORDERED_FAMS),
    ("max", "max({c}) as x", "from ty", True, ORDERED_FAMS),
    ("count", "count({c}) as x", "from ty", False, ALL),
    ("sum", "sum({c}) as x", "from ty", False, NUMERIC),
    ("avg", "avg({c}) as x", "from ty", False, NUMERIC),
    ("sum_zero", "sum({c}) as x", "from ty where id = 3", False, NUMERIC),
    ("max_zero", "max({c}) as x", "from ty where id = 3", True, ORDERED_FAMS),
    ("count_null", "count({c}) as x", "from ty where id = 2", False, ALL),
    ("zero_row", "{c} as x", "from ty where id = 3", True, ALL),
    ("cast_varchar", "{c}::varchar as x", "from ty order by id", False, ALL),
    ("cast_self", "{c}::{T} as x", "from ty order by id", True, ALL),
    ("null_cast", "null::{T} as x", "", True, ALL),
    ("case", "case when id <> 2 then {c} end as x", "from ty order by id", True, ALL),
    ("coalesce", "coalesce({c}, {c}) as x", "from ty order by id", True, ALL),
    ("iff", "iff(id = 1, {c}, null) as x", "from ty order by id", True, ALL),
    ("first_value", "first_value({c}) over (order by id) as x", "from ty order by id", True, ALL),
    ("lag", "lag({c}) over (order by id) as x", "from ty order by id", True, ALL),
    ("subquery", "x", "from (select id, {c} as x from ty) order by id", True, ALL),
    ("cte", None, None, True, ALL),
    ("union", None, None, True, ALL),
    ("distinct", "distinct {c} as x", "from ty where id = 1", True, ALL),
    ("group_by", "{c} as x, count(*) as n", "from ty group by {c} order by n, 1", True, ORDERED_FAMS + ("bool",)),
    ("where_param", "{c} as x", "from ty where id = %s", True, ALL),
]
INT_SYNONYMS = ("INT", "INTEGER", "BIGINT", "SMALLINT", "TINYINT", "BYTEINT")


def tgroup(t) -> str:
    """type group used in class keys: the family, with the scale-0 fixed types split by how they are written"""
    if t["family"] == "fixed0":
        if t["sql"] in INT_SYNONYMS:
            return "int_synonym"
        return "number_default" if "(" not in t["sql"] else "number_p_0"
    if t["family"] == "json":
        return t["json_kind"] if t["json_kind"] != "any" else "variant"
    return t["family"]


QUICK_TYPES = ("BOOLEAN", "INT", "NUMBER(10,0)", "NUMBER(10,2)", "FLOAT", "VARCHAR", "DATE", "TIMESTAMP_TZ", "BINARY", "VARIANT")


def _build_product():
    for i, t in enumerate(M.TYPES):
        c, T = f"c{i}", t["sql"]
        for form, sel, tail, preserving, fams in FORMS:
            if fams is not None and t["family"] not in fams:
                continue
            if form == "cte":
                sql = f"with q as (select id, {c} as x from ty) select x from q order by id"
            elif form == "union":
                sql = f"select {c} as x from ty where id = 1 union all select {c} from ty where id = 3"
            else:
                sql = f"select {sel.format(c=c, T=T)} {tail.format(c=c, T=T)}".strip()
            two = form == "group_by"
            S(
                f"ty_{form}_{i}",
                "typed",
                f"{form}:{tgroup(t)}",
                sql,
                names=[c.upper()] if form == "col" else (["X", "N"] if two else ["X"]),
                ncols=2 if two else 1,
                decl=([T, None] if two else [T]) if preserving else None,
                params=(1,) if form == "where_param" else None,
                pure=True,
                thorough=T not in QUICK_TYPES,
            )


_build()
_build_product()
BY_SID = {s["sid"]: s for s in STATEMENTS}

READ_POINTS = ("before", "mid", "after")
TRACES = ("control", "before", "mid", "after", "dictmid", "reuse", "describe")
WARM_UP = "select 'w' as warm, 1.5 as up"  # what a reused cursor executed and described before


# ---- histories: ONE cursor executes the same statement text again after what it returns has changed -------------------------
# steps (all on one connection):
#   ("x",  sql, params)   execute on the cursor under test, then read description
#   ("x-", sql, params)   execute on the cursor under test, description not read
#   ("o",  sql, params)   execute on another cursor of the same connection
#   ("d",  sql, params)   cursor_under_test.describe(sql, params)
#   ("mut", op, ...)      the caller changes the parameter object it passed to the last "x"/"x-"/"d" step:
#                         set0 <v> | setkey <k> <v> | append <v> | pop | clear
# params: None | list | dict (the caller's own mutable object; the runner hands the cursor this very object) |
#         "@same" (the object of the previous execute, as a caller with one bind buffer does).
# The last step decides what is judged: after "x"/"x-" (+ "mut") the description of the cursor under test against the rows
# it then hands out, against what the model knows of the final statement (names / ncols / decl) and against a fresh cursor
# of the same connection executing the same text with the values bound at execute() time; after "d" the describe() result
# against that fresh cursor's description.
FIXTURE_HIST = [
    "create table s2.t (a varchar, b number(10,2), c int)",
    "insert into s2.t values ('y', 2.50, 3)",
    "create schema db2.s1",
    "create table db2.s1.t (x float)",
    "insert into db2.s1.t values (0.5)",
]
HISTORIES: list = []
_HIDS: set = set()
# one statement with bound values per statement kind, executable twice (the reference cursor executes it again)
HIST_BOUND = [
    ("select", "select a, {p} as p from t where a > {p} order by a", ["k", 1]),
    ("ctas", "create or replace table n1 as select a, {p} as p from t where a > {p}", ["k", 1]),
    ("insert", "insert into t select a, {p} from src where a > {p}", ["q", 0]),
    ("update", "update t set b = {p} where a = {p}", ["k", 1]),
    ("delete", "delete from t where a = {p}", [100]),
    ("merge", "merge into t using src on t.a = src.a when matched then update set b = {p} when not matched then insert (a, b) values (src.a, {p})", ["u", "i"]),
]
SEL_T = "select * from t order by 1"


def H(hid, form, steps, style="pyformat", names=None, ncols=None, decl=None):
    assert hid not in _HIDS, hid
    _HIDS.add(hid)
    steps = [tuple(st) if st[0] == "mut" else (st + (None,))[:3] for st in steps]
    HISTORIES.append({"hid": hid, "cls": f"hist:{form}", "style": style, "steps": steps, "names": names,
                      "ncols": ncols if ncols is not None else (len(names) if names else None), "decl": decl, "volatile": False})


def _build_histories():
    # (a) the same text with other bound values, of another type
    one = "select ? as x"
    retypes = [
        ("int_str", [1], ["one"]), ("int_float", [1], [1.5]), ("int_decimal", [1], [D("2.50")]), ("str_int", ["one"], [1]),
        ("float_date", [1.5], [datetime.date(2020, 1, 2)]), ("none_str", [None], ["one"]), ("bool_int", [True], [7]),
        ("decimal_datetime", [D("2.50")], [datetime.datetime(2020, 1, 2, 3, 4, 5)]),
    ]
    for lbl, p1, p2 in retypes:
        H(f"retype_{lbl}", "params_retype", [("x", one, p1), ("x", one, p2)], style="qmark", names=["X"])
    H("retype_int_zero_decimal", "params_retype", [("x", one, [1]), ("x", one, [D("0")])], style="qmark", names=["X"])
    H("retype_str_zero", "params_retype", [("x", one, ["one"]), ("x", one, [0])], style="qmark", names=["X"])
    H("retype_three", "params_retype", [("x", one, [1]), ("x", one, ["one"]), ("x", one, [1.5])], style="qmark", names=["X"])
    H("retype_first_unread", "params_retype", [("x-", one, [1]), ("x", one, ["one"])], style="qmark", names=["X"])
    H("retype_tuple", "params_retype", [("x", one, (1,)), ("x", one, ("one",))], style="qmark", names=["X"])
    H("retype_two_binds", "params_retype", [("x", "select a, ? as p from t where a = ?", ["k", 1]), ("x", "select a, ? as p from t where a = ?", [2.5, 2])],
      style="qmark", names=["A", "P"], decl=["INT", None])
    H("retype_bind_buffer", "params_retype", [("x", one, [1]), ("mut", "set0", "one"), ("x", one, "@same")], style="qmark", names=["X"])
    H("retype_describe", "params_retype_describe", [("d", one, [1]), ("d", one, ["one"])], style="qmark", names=["X"])
    H("retype_describe_after_execute", "params_retype_describe", [("x", one, [1]), ("d", one, ["one"])], style="qmark", names=["X"])
    H("retype_pyformat", "params_retype_pyformat", [("x", "select %s as x", [1]), ("x", "select %s as x", ["one"])], names=["X"])
    H("retype_pyformat_named", "params_retype_pyformat", [("x", "select %(v)s as x", {"v": 1}), ("x", "select %(v)s as x", {"v": 1.5})], names=["X"])
    H("retype_cast", "params_retype", [("x", "select ?::varchar as x", [1]), ("x", "select ?::varchar as x", [1.5])], style="qmark", names=["X"])
    # (b) the session context changes in between: same-named tables of another shape in another schema / database
    s2 = dict(names=["A", "B", "C"], decl=["VARCHAR", "NUMBER(10,2)", "INT"])
    for how in ("x-", "x", "o"):
        H(f"use_schema_{how}", "use_schema", [("x", SEL_T), (how, "use schema s2"), ("x", SEL_T)], **s2)
    H("use_schema_qualified", "use_schema", [("x", SEL_T), ("x-", "use schema db1.s2"), ("x", SEL_T)], **s2)
    H("use_schema_back", "use_schema", [("x", SEL_T), ("x-", "use schema s2"), ("x", SEL_T), ("x-", "use schema s1"), ("x", SEL_T)],
      names=["A", "B"], decl=["INT", "VARCHAR"])
    H("use_schema_cols", "use_schema", [("x", "select a, b from t"), ("x-", "use schema s2"), ("x", "select a, b from t")],
      names=["A", "B"], decl=["VARCHAR", "NUMBER(10,2)"])
    H("use_schema_agg", "use_schema", [("x", "select max(a) as m from t"), ("x-", "use schema s2"), ("x", "select max(a) as m from t")],
      names=["M"], decl=["VARCHAR"])
    H("use_schema_describe", "use_schema_describe", [("d", SEL_T), ("x-", "use schema s2"), ("d", SEL_T)], **s2)
    H("use_schema_first_unread", "use_schema", [("x-", SEL_T), ("x-", "use schema s2"), ("x", SEL_T)], **s2)
    for how in ("x-", "o"):
        H(f"use_database_{how}", "use_database", [("x", SEL_T), (how, "use database db2"), (how, "use schema s1"), ("x", SEL_T)], names=["X"], decl=["FLOAT"])
    H("use_database_qualified_schema", "use_database", [("x", SEL_T), ("x-", "use schema db2.s1"), ("x", SEL_T)], names=["X"], decl=["FLOAT"])
    H("use_schema_param", "use_schema", [("x", "select * from t where 1 = ?", [1]), ("x-", "use schema s2"), ("x", "select * from t where 1 = ?", [1])], style="qmark", **s2)
    # session variables are session context too
    H("variable_retype", "variable", [("x-", "set v = 1"), ("x", "select $v as x"), ("x-", "set v = 'one'"), ("x", "select $v as x")], names=["X"])
    H("variable_table", "variable", [("x-", "set tb = 't'"), ("x", "select * from identifier($tb) order by 1"), ("x-", "set tb = 'u'"),
                                      ("x", "select * from identifier($tb) order by 1")], names=["ID", "X", "F", "D"], decl=["INT", "NUMBER(10,2)", "FLOAT", "DATE"])
    # (c) the catalog changes in between
    sel = "select * from t order by a"
    for how in ("x-", "x", "o"):
        H(f"add_column_{how}", "alter_add_column", [("x", sel), (how, "alter table t add column c float"), ("x", sel)], names=["A", "B", "C"], decl=["INT", "VARCHAR", "FLOAT"])
    H("add_column_filled", "alter_add_column", [("x", sel), ("x-", "alter table t add column c float"), ("x-", "update t set c = 0.5"), ("x", sel)],
      names=["A", "B", "C"], decl=["INT", "VARCHAR", "FLOAT"])
    H("add_column_describe", "alter_add_column_describe", [("d", sel), ("x-", "alter table t add column c float"), ("d", sel)], names=["A", "B", "C"], decl=["INT", "VARCHAR", "FLOAT"])
    for how in ("x-", "o"):
        H(f"drop_column_{how}", "alter_drop_column", [("x", sel), (how, "alter table t drop column b"), ("x", sel)], names=["A"], decl=["INT"])
        H(f"rename_column_{how}", "alter_rename_column", [("x", sel), (how, "alter table t rename column b to c"), ("x", sel)], names=["A", "C"], decl=["INT", "VARCHAR"])
        H(f"replace_table_{how}", "replace_table", [("x", SEL_T), (how, "create or replace table t (x float, y int)"), (how, "insert into t values (1.5, 2)"), ("x", SEL_T)],
          names=["X", "Y"], decl=["FLOAT", "INT"])
    H("replace_table_ctas", "replace_table", [("x", SEL_T), ("x-", "create or replace table t as select b, a, 1.5 as k from src"), ("x", SEL_T)], names=["B", "A", "K"])
    H("drop_create_table", "replace_table", [("x", SEL_T), ("x-", "drop table t"), ("x-", "create table t (x date)"), ("x-", "insert into t values ('2020-01-02')"), ("x", SEL_T)],
      names=["X"], decl=["DATE"])
    H("replace_view", "replace_view", [("x", "select * from vw order by 1"), ("x-", "create or replace view vw as select b, a, 1.5 as k from t"), ("x", "select * from vw order by 1")],
      names=["B", "A", "K"])
    H("replace_table_param", "replace_table", [("x", "select * from t where 1 = ?", [1]), ("x-", "create or replace table t (x float, y int)"), ("x-", "insert into t values (1.5, 2)"),
                                               ("x", "select * from t where 1 = ?", [1])], style="qmark", names=["X", "Y"], decl=["FLOAT", "INT"])
    H("rename_table_swap", "replace_table", [("x", SEL_T), ("x-", "alter table t rename to t_old"), ("x-", "alter table u rename to t"), ("x", SEL_T)],
      names=["ID", "X", "F", "D"], decl=["INT", "NUMBER(10,2)", "FLOAT", "DATE"])
    # the same status-row statement twice, and a status row after a query of the same cursor
    H("same_insert_twice", "same_dml", [("x", "insert into t values (7, 'q')"), ("x", "insert into t values (7, 'q')")])
    H("same_select_twice", "same_query", [("x", sel), ("x", sel)], names=["A", "B"], decl=["INT", "VARCHAR"])
    # (d) the caller changes its parameter object after execute() and before description is read
    muts = [("set0_str", ("mut", "set0", "one")), ("set0_float", ("mut", "set0", 1.5)), ("append", ("mut", "append", 2)), ("pop", ("mut", "pop")), ("clear", ("mut", "clear"))]
    for lbl, m in muts:
        H(f"mutate_{lbl}", "mutate_params", [("x-", one, [1]), m], style="qmark", names=["X"])
        H(f"mutate_read_{lbl}", "mutate_params", [("x", one, [1]), m], style="qmark", names=["X"])
    H("mutate_two_binds", "mutate_params", [("x", "select ? as x, x as amount from u where x = ?", [D("2.25"), D("2.25")]), ("mut", "set0", 2.5)], style="qmark", names=["X", "AMOUNT"], decl=[None, "NUMBER(10,2)"])
    H("mutate_where_clear", "mutate_params", [("x-", "select id, f from u where id = ?", [2]), ("mut", "clear")], style="qmark", names=["ID", "F"], decl=["INT", "FLOAT"])
    H("mutate_wide_int", "mutate_params", [("x-", one, [2**70]), ("mut", "set0", "one")], style="qmark", names=["X"])
    H("mutate_dml_clear", "mutate_params_dml", [("x-", "insert into t values (?, ?)", [7, "q"]), ("mut", "clear")], style="qmark")
    H("mutate_dml_set0", "mutate_params_dml", [("x-", "update t set b = ? where a = ?", ["k", 1]), ("mut", "set0", 5)], style="qmark")
    H("mutate_describe", "mutate_params_describe", [("x-", one, [1]), ("mut", "set0", "one"), ("d", one, [1])], style="qmark", names=["X"])
    H("mutate_pyformat_list", "mutate_params_pyformat", [("x-", "select %s as x", [1]), ("mut", "set0", "one")], names=["X"])
    H("mutate_pyformat_dict", "mutate_params_pyformat", [("x-", "select %(v)s as x", {"v": 1}), ("mut", "setkey", "v", "one")], names=["X"])
    H("mutate_pyformat_dict_clear", "mutate_params_pyformat", [("x", "select %(v)s as x", {"v": 1}), ("mut", "clear")], names=["X"])
    # (e) statement kind x parameter style x what the cursor executes next: the description of the NEXT statement (without
    #     binds, or with another number of them) after a statement with bound values, read or not; and the other way round,
    #     a statement with bound values on a cursor that has described a query with / without binds before
    nexts = [
        ("select", "select a, b from t order by a", None, dict(names=["A", "B"], decl=["INT", "VARCHAR"])),
        ("status", "insert into src values (5, 'v')", None, {}),
        ("bound_select", "select a, {p} as p, {p} as q from src where a > {p} order by a", [1.5, "k", 0], dict(names=["A", "P", "Q"], decl=["INT", None, None])),
    ]
    for style, ph in (("pyformat", lambda i: "%s"), ("qmark", lambda i: "?")):
        for skind, template, values in HIST_BOUND:
            for nlbl, ntemplate, nvalues, known in nexts:
                for how in ("x-", "x"):
                    H(f"next_{style}_{skind}_{nlbl}_{how}", f"next_after_bound:{style}:{skind}",
                      [(how, _fill(template, ph), list(values)), ("x", _fill(ntemplate, ph), nvalues and list(nvalues))], style=style, **known)
            for plbl, ptemplate, pvalues, _ in nexts[::2]:
                H(f"bound_after_{style}_{skind}_{plbl}", f"bound_after_query:{style}:{skind}",
                  [("x", _fill(ptemplate, ph), pvalues and list(pvalues)), ("x", _fill(template, ph), list(values))], style=style,
                  **(dict(names=["A", "P"], decl=["INT", None]) if skind == "select" else {}))


_build_histories()
BY_HID = {h["hid"]: h for h in HISTORIES}


def statements(tier):
    return [s for s in STATEMENTS if tier != "quick" or not s["thorough"]]


# ---- real side ------------------------------------------------------------------------------------------------------------
_WORK: dict = {}


def _connect(fs, style):
    import snowflake.connector

    old = snowflake.connector.paramstyle
    try:
        snowflake.connector.paramstyle = style
        return fs.connect(database="db1", schema="s1")
    finally:
        snowflake.connector.paramstyle = old


def _new_instance(nop, full):
    import fakesnow.instance as inst

    fs = inst.FakeSnow(nop_regexes=list(NOP_REGEXES) if nop else None)
    conn = _connect(fs, "pyformat")
    cur = conn.cursor()
    for s in (FIXTURE_TY if full else []) + FIXTURE_BASE:
        cur.execute(s)
    return fs


def _close(fs):
    with contextlib.suppress(Exception):
        fs.duck_conn.close()


@contextlib.contextmanager
def _env(st):
    """(fs, conn) for one trace: the worker's shared fixture instance for state-preserving statements (dropped if its
    digest ever differs from the fixture digest), a fresh instance otherwise; always a fresh connection."""
    hold = {}
    if st["pure"] and not st["nop"]:
        if "fs" not in _WORK:
            fs = _new_instance(False, True)
            _WORK["fs"] = fs
            _WORK["digest"] = _digest(fs)
        fs = _WORK["fs"]
        hold["start"] = _WORK["digest"]
        try:
            yield fs, _connect(fs, st["style"]), hold
        finally:
            if (hold.get("final") or _digest(fs)) != _WORK["digest"]:
                _close(_WORK.pop("fs"))
    else:
        fs = _new_instance(st["nop"], False)
        try:
            yield fs, _connect(fs, st["style"]), hold
        finally:
            _close(fs)


def _digest(fs):
    return core.h(observe.digest(fs))


def _err(e):
    return (f"{type(e).__module__}.{type(e).__name__}", str(getattr(e, "msg", None) or e).split("\n")[0][:160])


def _meta(d):
    """ResultMetadata list -> plain tuples (all seven fields)"""
    return [(m.name, m.type_code, m.display_size, m.internal_size, m.precision, m.scale, m.is_nullable) for m in d]


def _session(conn):
    return observe.session_state(conn)


def _params(st):
    """the parameter object handed to the cursor: the caller's own copy (a list stays a list)"""
    p = st["params"]
    if st["many"]:
        return [copy.copy(x) for x in p]
    return copy.copy(p)


def run_trace(st, trace):
    """Drive one trace on the real code; returns a plain dict (no verdicts here)."""
    from snowflake.connector.cursor import DictCursor, SnowflakeCursor

    out = {"trace": trace}
    with _env(st) as (fs, conn, hold):
        for p in st["pre"]:
            conn.cursor().execute(p)
        cur = conn.cursor(DictCursor if trace == "dictmid" else SnowflakeCursor)
        params = _params(st)
        if trace == "describe":
            if st["many"]:
                params = params[-1]  # what description describes after executemany: the last execution
            s0 = _session(conn)
            g0 = hold.get("start") if not st["pre"] else None
            g0 = g0 or _digest(fs)
            try:
                out["describe"] = _meta(cur.describe(st["sql"]) if params is None else cur.describe(st["sql"], params))
            except Exception as e:  # noqa: BLE001
                out["describe_err"] = _err(e)
            if st["is_query"]:
                # describe() is a method of every cursor class: the same call on a DictCursor
                try:
                    dc = conn.cursor(DictCursor)
                    out["describe_dict"] = _meta(dc.describe(st["sql"]) if params is None else dc.describe(st["sql"], params))
                except Exception as e:  # noqa: BLE001
                    out["describe_dict_err"] = _err(e)
            s1 = _session(conn)
            hold["final"] = _digest(fs)
            out["digest_same"] = g0 == hold["final"]
            out["session_same"] = s0 == s1
            out["session"] = (s0, s1)
            # "opens no transaction", decided from effects: a row inserted now must survive a ROLLBACK
            if st["kind"] == "tx" and not st["pre"]:
                c2 = conn.cursor()
                c2.execute("insert into t values (77, 'probe')")
                c2.execute("rollback")
                c2.execute("select count(*) from t where a = 77")
                out["autocommit_after"] = c2.fetchall()[0][0] == 1
            return out
        try:
            if trace == "reuse":
                cur.execute(WARM_UP)
                out["warm_desc"] = _meta(cur.description)
            if st["many"]:
                cur.executemany(st["sql"], params)
            elif params is None:
                cur.execute(st["sql"])
            else:
                cur.execute(st["sql"], params)
        except Exception as e:  # noqa: BLE001
            out["exec_err"] = _err(e)
            return out
        try:
            first = []
            if trace in ("mid", "dictmid"):
                first = [cur.fetchone()]
            elif trace == "after":
                first = cur.fetchall() + [cur.fetchone()]
            if trace != "control":
                s1 = _session(conn)
                try:
                    out["desc"] = _meta(cur.description)
                except Exception as e:  # noqa: BLE001
                    out["desc_err"] = _err(e)
                s2 = _session(conn)
                out["session_same"] = s1 == s2
                out["session"] = (s1, s2)
                if "desc" in out and trace == "before":
                    try:
                        out["desc2"] = _meta(cur.description)
                    except Exception as e:  # noqa: BLE001
                        out["desc2_err"] = _err(e)
            rest = cur.fetchall()
            tail = cur.fetchone()
            out["rows"] = [r for r in first if r is not None] + rest
            out["fetch_shape"] = ([r is None for r in first], len(rest), tail is None)
        except Exception as e:  # noqa: BLE001
            out["fetch_err"] = _err(e)
            return out
        if st["post"]:
            conn.cursor().execute(st["post"])
        out["final"] = hold["final"] = _digest(fs)
    return out


# ---- oracle -----------------------------------------------------------------------------------------------------------------


def _short(meta):
    return [(m[0], M.code_name(m[1]), m[4], m[5]) for m in meta]


def _judge_entries(st, desc, rows, drows):
    """length / names / type_value / type_declared of one description against tuple rows, DictCursor rows and what the
    model knows about the statement (st: names, ncols, decl, volatile).  Shared by statements and histories."""
    res = []
    names = [m[0] for m in desc]
    # (2) length
    widths = sorted({len(r) for r in rows})
    exp_n = st["ncols"]
    bad = (bool(widths) and widths != [len(desc)]) or (exp_n is not None and exp_n != len(desc))
    if widths or exp_n is not None:
        res.append(("C06.length", bad, "", {"description": names, "row_widths": widths, "select_items": exp_n}))
    # (2) names
    if drows:
        keys = sorted({tuple(r.keys()) for r in drows})
        bad = keys != [tuple(M.dict_keys_of(names))]
        res.append(("C06.names", bad, "", {"description": names, "dict_keys": [list(k) for k in keys]}))
    elif st["names"] is not None and all(n is not None for n in st["names"]) and not rows:
        bad = names != st["names"]
        res.append(("C06.names", bad, "", {"description": names, "select_list_names": st["names"]}))
    # (3) values
    if rows and all(len(r) == len(desc) for r in rows):
        vbad = {}
        nonnull = 0
        for j, m in enumerate(desc):
            for r in rows:
                if r[j] is None:
                    continue
                nonnull += 1
                f = M.value_consistency(r[j], m[1], m[4], m[5])
                if f:
                    vbad[f"{j}:{m[0]}"] = {"entry": _short([m])[0], "pytype": M.pytype(r[j]), "value": r[j] if not st["volatile"] else "<volatile>", "fails": sorted(f)}
                    break
        if nonnull:
            res.append(("C06.type_value", bool(vbad), "", vbad))
    # (3) declared
    if st["decl"] and len(st["decl"]) == len(desc):
        dbad = {}
        for j, (m, ty) in enumerate(zip(desc, st["decl"])):
            if ty is None:
                continue
            f = M.declared_mismatch(ty, m[1], m[4], m[5])
            if f:
                dbad[f"{j}:{m[0]}"] = {"declared": ty, "entry": _short([m])[0], "fails": sorted(f)}
        res.append(("C06.type_declared", bool(dbad), "", dbad))
    return res


def judge(st, tr):
    """All clauses for one statement from its traces.  Returns [(clause, failed, cls_suffix, detail)] — one entry per
    clause that was applicable (membership), failed or not."""
    res = []
    ctl = tr["control"]
    rows = ctl["rows"]
    reads = {rp: tr[rp] for rp in READ_POINTS}
    allreads = dict(reads, dictmid=tr["dictmid"], reuse=tr["reuse"])

    # (1) available at every read point
    bad_at = [rp for rp, t in allreads.items() if "desc" not in t]
    if "desc2_err" in tr["before"]:
        bad_at.append("second_read")
    suffix = "" if (not bad_at or len(bad_at) >= len(allreads)) else ",at=" + "+".join(bad_at)
    res.append(("C06.available", bool(bad_at), suffix, {rp: allreads.get(rp, tr["before"]).get("desc_err") or tr["before"].get("desc2_err") for rp in bad_at}))

    # (5) the read changes nothing — judged whether or not the read succeeded
    pend_bad = {}
    for rp, t in allreads.items():
        got = t["rows"]
        if rp == "reuse":
            continue  # judged by C06.reexecute
        if rp == "dictmid":
            # dict rows carry every column only when the names are unique; then their values are the control's rows
            if not got or not rows or len(got[0]) != len(rows[0]):
                continue
            got = [tuple(r.values()) for r in got]
        same = _rows_equal(got, rows, st["volatile"])
        if not same:
            pend_bad[rp] = {"expected": rows[:3], "got": got[:3], "n": (len(rows), len(got))}
    res.append(("C06.read_pending", bool(pend_bad), "", pend_bad))
    dig_bad = {rp: "final digest differs from the control trace" for rp, t in allreads.items() if t["final"] != ctl["final"]}
    res.append(("C06.read_digest", bool(dig_bad), "", dig_bad))
    ses_bad = {rp: t["session"] for rp, t in allreads.items() if not t["session_same"]}
    res.append(("C06.read_session", bool(ses_bad), "", ses_bad))

    desc = tr["before"].get("desc")
    if desc is not None:
        # read point independence
        diff = {rp: _short(t["desc"]) for rp, t in allreads.items() if rp != "reuse" and "desc" in t and t["desc"] != desc}
        if "desc2" in tr["before"] and tr["before"]["desc2"] != desc:
            diff["second_read"] = _short(tr["before"]["desc2"])
        res.append(("C06.read_point", bool(diff), "", {"before": _short(desc), "differs": diff}))
        ru = tr["reuse"]
        if "desc" in ru:
            bad = ru["desc"] != desc or not _rows_equal(ru["rows"], rows, st["volatile"])
            res.append(("C06.reexecute", bad, "", {"after_reuse": _short(ru["desc"]), "fresh_cursor": _short(desc), "rows": ru["rows"][:2]} if bad else None))

        res.extend(_judge_entries(st, desc, rows, tr["dictmid"]["rows"]))

    # (4) describe
    dt = tr["describe"]
    # every statement that is not a query shares one class here (one root cause: describe() prefixes DESCRIBE)
    res.append(("C06.describe_available", "describe" not in dt, "" if st["is_query"] else "=non_query", dt.get("describe_err")))
    ne = {}
    if not dt["digest_same"]:
        ne["digest"] = "changed"
    if not dt["session_same"]:
        ne["session"] = dt["session"]
    if dt.get("autocommit_after") is False:
        ne["transaction"] = "a transaction is open after describe()"
    res.append(("C06.describe_not_executed", bool(ne), "", ne))
    if "describe" in dt and st["is_query"]:
        # one class for the cursor kind (one root cause), only where the tuple cursor's describe() works
        res.append(("C06.describe_available", "describe_dict" not in dt, "=cursor_dict", dt.get("describe_dict_err")))
        if "describe_dict" in dt:
            bad = dt["describe_dict"] != dt["describe"]
            res.append(("C06.describe_equal", bad, "=cursor_dict", {"dict_cursor": _short(dt["describe_dict"]), "tuple_cursor": _short(dt["describe"])} if bad else None))
    if "describe" in dt and desc is not None:
        bad = dt["describe"] != desc
        res.append(("C06.describe_equal", bad, "", {"describe": _short(dt["describe"]), "description": _short(desc),
                                                    "full_describe": dt["describe"][:3], "full_description": desc[:3]} if bad else None))
    return res


def _vt(v):
    return M.pytype(v)


def _rows_equal(got, exp, volatile):
    if len(got) != len(exp):
        return False
    for g, e in zip(got, exp):
        if len(g) != len(e):
            return False
        for a, b in zip(g, e):
            if volatile:
                if _vt(a) != _vt(b):
                    return False
            elif _vt(a) != _vt(b) or not (a == b or (a != a and b != b)):
                return False
    return True


# ---- histories: real side and oracle ------------------------------------------------------------------------------------------------


def _apply_mut(obj, m):
    op = m[1]
    if op == "set0":
        obj[0] = m[2]
    elif op == "setkey":
        obj[m[2]] = m[3]
    elif op == "append":
        obj.append(m[2])
    elif op == "pop":
        obj.pop()
    elif op == "clear":
        obj.clear()
    else:
        raise AssertionError(m)


def run_history(h, kind):
    """Drive one history on a fresh instance with a tuple / dict cursor under test; plain dict out, no verdicts."""
    import copy

    from snowflake.connector.cursor import DictCursor, SnowflakeCursor

    out = {"kind": kind}
    fs = _new_instance(False, False)
    try:
        conn = _connect(fs, h["style"])
        setup = conn.cursor()
        for q in FIXTURE_HIST:
            setup.execute(q)
        cur = conn.cursor(DictCursor if kind == "dict" else SnowflakeCursor)
        other = conn.cursor()
        last = None  # (step kind, sql, the caller's object, the values as bound at call time)
        for i, stp in enumerate(h["steps"]):
            if stp[0] == "mut":
                _apply_mut(last[2], stp)
                continue
            k, sql, params = stp
            obj = last[2] if isinstance(params, str) and params == "@same" else copy.deepcopy(params)
            bound = copy.deepcopy(obj)
            try:
                if k == "d":
                    out["described"] = _meta(cur.describe(sql) if obj is None else cur.describe(sql, obj))
                    last = (k, sql, obj, bound)
                    continue
                c = other if k == "o" else cur
                if obj is None:
                    c.execute(sql)
                else:
                    c.execute(sql, obj)
            except Exception as e:  # noqa: BLE001
                if k == "d" and i == len(h["steps"]) - 1:
                    out["describe_err"] = _err(e)
                    last = (k, sql, obj, bound)
                    continue
                out["step_err"] = (i, _err(e))
                return out
            if k != "o":
                last = (k, sql, obj, bound)
            if k == "x" and i < len(h["steps"]) - 1:
                with contextlib.suppress(Exception):  # judged where this statement is the last one, not here
                    cur.description  # noqa: B018
        out["caller_object"] = repr(last[2])
        if last[0] != "d":
            s1 = _session(conn)
            try:
                out["desc"] = _meta(cur.description)
                out["desc2"] = _meta(cur.description)
            except Exception as e:  # noqa: BLE001
                out["desc_err"] = _err(e)
            out["session_same"] = s1 == _session(conn)
            try:
                out["rows"] = cur.fetchall()
            except Exception as e:  # noqa: BLE001
                out["step_err"] = ("fetch", _err(e))
                return out
        # reference: a fresh cursor of the same connection, the same text, the values as bound at execute() time
        ref = conn.cursor(DictCursor if kind == "dict" else SnowflakeCursor)
        try:
            if last[3] is None:
                ref.execute(last[1])
            else:
                ref.execute(last[1], last[3])
        except Exception as e:  # noqa: BLE001
            out["ref_err"] = _err(e)
            return out
        # a reference cursor that cannot be described gives nothing to compare with; the history itself was executed
        # and is judged on its own (C06.available, the entries against rows and model)
        with contextlib.suppress(Exception):
            out["ref_desc"] = _meta(ref.description)
        with contextlib.suppress(Exception):
            out["ref_rows"] = ref.fetchall()
    finally:
        _close(fs)
    return out


def judge_history(h, rt, rd):
    """[(clause, failed, detail)] for one history from its tuple-cursor run rt and dict-cursor run rd."""
    res = []
    last = [s for s in h["steps"] if s[0] != "mut"][-1]
    mutated = h["steps"][-1][0] == "mut" or any(s[0] == "mut" for s in h["steps"])
    cmp_clause = "C06.as_executed" if mutated else "C06.reexecute"
    if last[0] == "d":
        res.append(("C06.describe_available", "described" not in rt or "described" not in rd, rt.get("describe_err") or rd.get("describe_err")))
        if "described" in rt:
            st = dict(h, volatile=False)
            # describe() has no rows of its own: judged against the model and against the fresh cursor's description
            res.extend((c, f, d) for c, f, _, d in _judge_entries(st, rt["described"], [], []) if c in ("C06.length", "C06.type_declared"))
            if h["names"] and all(h["names"]):
                names = [m[0] for m in rt["described"]]
                res.append(("C06.names", names != h["names"], {"describe": names, "select_list_names": h["names"]}))
            if "ref_desc" in rt:
                bad = rt["described"] != rt["ref_desc"]
                res.append(("C06.describe_equal", bad, {"describe": _short(rt["described"]), "description_after_execute": _short(rt["ref_desc"])} if bad else None))
        return res
    bad_av = {r["kind"]: r["desc_err"] for r in (rt, rd) if "desc" not in r}
    res.append(("C06.available", bool(bad_av), bad_av))
    res.append(("C06.read_session", not (rt["session_same"] and rd["session_same"]), None))
    if "desc" in rt:
        desc, rows = rt["desc"], rt["rows"]
        res.append(("C06.read_point", rt["desc2"] != desc, {"first": _short(desc), "second": _short(rt["desc2"])}))
        res.extend((c, f, d) for c, f, _, d in _judge_entries(dict(h, volatile=False), desc, rows, rd["rows"] if "desc" in rd else []))
        if rows and h["names"] and all(h["names"]):
            # the select list of the final statement names every column: what the description must say, rows or not
            names = [m[0] for m in desc]
            if names != h["names"]:
                res.append(("C06.names", True, {"description": names, "select_list_names": h["names"]}))
        if "ref_desc" in rt:
            is_q = last[1].lstrip().lower().startswith(("select", "with"))
            bad = desc != rt["ref_desc"] or (is_q and "ref_rows" in rt and not _rows_equal(rows, rt["ref_rows"], False))
            res.append((cmp_clause, bad, {"cursor_under_test": _short(desc), "fresh_cursor": _short(rt["ref_desc"]), "rows": rows[:2], "fresh_rows": rt.get("ref_rows", [])[:2],
                                          "caller_object_now": rt["caller_object"]} if bad else None))
    if "desc" in rd and "ref_desc" in rd:
        bad = rd["desc"] != rd["ref_desc"]
        res.append((cmp_clause, bad, {"cursor_under_test": _short(rd["desc"]), "fresh_cursor": _short(rd["ref_desc"]), "cursor": "dict"} if bad else None))
    return res


def check_history(hid, acc: core.Acc, tier):
    h = BY_HID[hid]
    rt = run_history(h, "tuple")
    # describe() on a DictCursor is judged once per statement (class stmt=query,cursor=dict), not per history
    rd = run_history(h, "dict") if not any(s[0] == "d" for s in h["steps"]) else rt
    acc.count("evaluations", 2)
    acc.count("traces", 2)
    acc.count("histories")
    nsteps = len(h["steps"])
    acc.count("transitions", 2 * (nsteps + 3))  # steps + description, description, fetchall
    acc.add("states", ("hist", hid, "tuple"))
    acc.add("states", ("hist", hid, "dict"))
    if "step_err" in rt or "step_err" in rd or "ref_err" in rt or "ref_err" in rd:
        # a statement of the history does not execute: outside the property, counted and never judged
        acc.count("histories_not_executed")
        why = rt.get("step_err") or rd.get("step_err") or rt.get("ref_err") or rd.get("ref_err")
        acc.note(f"history not executed: {hid}: {why}")
        acc.obs((hid, "not_executed", why))
        return None
    verdicts = []
    merged: dict = {}
    for clause, failed, detail in judge_history(h, rt, rd):
        m = merged.setdefault(clause, [False, []])
        m[0] = m[0] or failed
        if failed:
            m[1].append(detail)
    for clause, (failed, details) in sorted(merged.items()):
        acc.member(clause, h["cls"], failed)
        verdicts.append((clause, failed))
        if failed:
            acc.violation(clause, h["cls"], {"history": h["steps"], "style": h["style"], "observed": details}, {"hid": hid})
    acc.obs((hid, verdicts, rt.get("desc"), rt.get("rows"), rt.get("described")))
    acc.outcome((h["cls"], tuple(_short(rt.get("desc") or rt.get("described") or []))))
    acc.nontrivial(hid)
    if hid in ("use_schema_x-", "mutate_clear"):
        acc.sample({"history": h["steps"], "description": _short(rt.get("desc") or []), "rows": (rt.get("rows") or [])[:1]})
    return verdicts


def check_statement(sid, acc: core.Acc, tier):
    if sid.startswith("H:"):
        return check_history(sid[2:], acc, tier)
    st = BY_SID[sid]
    tr = {}
    for trace in TRACES:
        tr[trace] = run_trace(st, trace)
        acc.count("evaluations")
        acc.count("traces")
    ctl = tr["control"]
    acc.count("statements")
    if "exec_err" in ctl or "fetch_err" in ctl:
        # outside the property ("after every successfully executed statement"): counted, never judged
        acc.count("statements_not_executed")
        acc.note(f"not executed: {sid}: {(ctl.get('exec_err') or ctl.get('fetch_err'))[0]}")
        acc.obs((sid, "not_executed", ctl.get("exec_err") or ctl.get("fetch_err")))
        return None
    for t in TRACES[1:6]:
        if "exec_err" in tr[t] or "fetch_err" in tr[t]:
            raise core.HarnessError(f"{sid}: trace {t} failed where the control trace succeeded: {tr[t]}")
    # model side: the fetch state machine; description is the identity on it
    fm = M.FetchModel(ctl["rows"])
    n = len(ctl["rows"])
    for rp in READ_POINTS:
        fm.pos = 0
        if rp == "mid":
            fm.fetchone()
        elif rp == "after":
            fm.fetchall()
            fm.fetchone()
        key = fm.key()
        fm.description()
        acc.add("states", (sid, key, "tuple"))
        acc.count("transitions", 3)  # read, read/fetch, fetch to exhaustion
        exp_shape = {"before": ([], n, True), "mid": ([n == 0], max(n - 1, 0), True), "after": ([False] * n + [True], 0, True)}[rp]
        got_shape = tr[rp]["fetch_shape"]
        if rp == "after":
            got_shape = ([False] * (len(got_shape[0]) - 1) + [got_shape[0][-1]], got_shape[1], got_shape[2])
        if got_shape != exp_shape and not st["volatile"]:
            tr[rp]["rows"] = tr[rp]["rows"] + [("<fetch sequence differs>", got_shape, exp_shape)]
    acc.add("states", (sid, "mid", "dict"))
    acc.count("transitions", 3)
    verdicts = judge(st, tr)
    obs = []
    for clause, failed, suffix, detail in verdicts:
        cls = {"=non_query": "stmt=non_query", "=cursor_dict": "stmt=query,cursor=dict"}.get(suffix) or st["cls"] + suffix
        acc.member(clause, cls, failed)
        obs.append((clause, failed))
        if failed:
            acc.violation(clause, cls, {"statement": st["sql"], "params": st["params"], "pre": st["pre"], "observed": detail}, {"sid": sid})
    desc = tr["before"].get("desc")
    acc.obs((sid, obs, desc, None if st["volatile"] else ctl["rows"], tr["describe"].get("describe")))
    acc.outcome((st["cls"], tuple(_short(desc)) if desc else tr["before"].get("desc_err", ("?",))[0]))
    if desc is not None and (len(desc) > 1 or ctl["rows"] or st["decl"]):
        acc.nontrivial(sid)
    if sid in ("star_ty", "dml_merge_upsert", "tx_begin", "seeded_random"):
        acc.sample({"statement": st["sql"], "rows": ctl["rows"][:1], "description": _short(desc) if desc else tr["before"].get("desc_err"),
                    "describe": _short(tr["describe"]["describe"]) if "describe" in tr["describe"] else tr["describe"].get("describe_err")})
    return [(c, f) for c, f, _, _ in verdicts]


def run(ctx: core.Ctx):
    sts = statements(ctx.tier)
    ctx.rule = (
        "every statement of the written-out alphabet (statement kinds x expression forms x column types x bound "
        "parameters) is driven through 7 traces on the real cursor (control / description read before any fetch, "
        "mid-fetch, after exhaustion / DictCursor mid-fetch / reused cursor / describe()); model state = (statement, fetch position), "
        "description and describe are self-loops; evaluations = traces executed; non-trivial = statements whose "
        "description has several entries, rows to agree with, or a declared type to agree with"
    )
    ctx.assumptions = [
        "a statement that fails to execute is outside the property and only counted (statements_not_executed)",
        "results are ordered (ORDER BY) or single-row, so the pending rows can be compared as sequences with the control trace",
        "volatile expressions (CURRENT_*, UUID_STRING, unseeded RANDOM) are compared by Python type only",
        "state-preserving statements share one fixture instance per worker; the raw-DuckDB digest is compared with the "
        "fixture digest after every trace",
    ]
    res = ctx.pmap(check_statement, [s["sid"] for s in sts] + ["H:" + h["hid"] for h in HISTORIES], chunk=8)
    ctx.exhaustive = True
    ctx.extra["bound"] = (
        f"complete alphabet of the tier: {len(sts)} statements x {len(TRACES)} traces ({len(READ_POINTS)} read points) + "
        f"{len(HISTORIES)} same-text re-execution / parameter-mutation histories x 2 cursor kinds"
    )
    ctx.extra["alphabet"] = {
        "statements": len(sts),
        "kinds": sorted({s["kind"] for s in sts}),
        "classes": len({s["cls"] for s in sts}),
        "column_types": [t["sql"] for t in M.TYPES] if ctx.tier != "quick" else list(QUICK_TYPES),
        "forms_per_type": [f[0] for f in FORMS],
        "read_points": list(READ_POINTS),
        "traces": list(TRACES),
        "bind_statement_kinds": sorted({b[0] for b in BIND_STATEMENTS}),
        "bind_styles": [b[0] for b in BIND_STYLES if ctx.tier != "quick" or b[0] in QUICK_BIND_STYLES],
        "bind_statements": len([s for s in sts if s["kind"] == "bind"]),
        "histories": len(HISTORIES),
        "history_classes": sorted({h["cls"] for h in HISTORIES}),
    }
    ctx.extra["clauses_evaluated"] = sorted({c for _, r in res if r for c, _ in r})


def replay(payload):
    if "hid" in payload["replay"]:
        h = BY_HID[payload["replay"]["hid"]]
        print("history:", h["steps"], "style:", h["style"], "class:", h["cls"])
        rt = run_history(h, "tuple")
        rd = run_history(h, "dict") if not any(s[0] == "d" for s in h["steps"]) else rt
        if "step_err" in rt or "ref_err" in rt:
            print("not executed:", rt.get("step_err") or rt.get("ref_err"))
            return False
        print("description:", _short(rt["desc"]) if "desc" in rt else rt.get("desc_err") or rt.get("described"), "rows:", (rt.get("rows") or [])[:2])
        print("fresh cursor:", _short(rt.get("ref_desc") or []), "rows:", (rt.get("ref_rows") or [])[:2])
        bad = False
        for clause, failed, detail in judge_history(h, rt, rd):
            print(f"  {clause:28s} {'FAIL' if failed else 'ok'}  {detail if failed else ''}")
            bad = bad or (failed and clause == payload["clause"])
        return bad
    sid = payload["replay"]["sid"]
    st = BY_SID[sid]
    print("statement:", st["sql"], "params:", st["params"], "pre:", st["pre"], "class:", st["cls"])
    tr = {t: run_trace(st, t) for t in TRACES}
    if "exec_err" in tr["control"]:
        print("not executed:", tr["control"]["exec_err"])
        return False
    print("rows:", tr["control"]["rows"][:3])
    print("description:", _short(tr["before"]["desc"]) if "desc" in tr["before"] else tr["before"].get("desc_err"))
    print("describe   :", _short(tr["describe"]["describe"]) if "describe" in tr["describe"] else tr["describe"].get("describe_err"))
    bad = False
    for clause, failed, suffix, detail in judge(st, tr):
        print(f"  {clause:28s} {'FAIL' if failed else 'ok'}{suffix}  {detail if failed else ''}")
        if failed and clause == payload["clause"]:
            bad = True
    return bad
