"""C14 — connect() does what its options say in every configuration.

E1 explicit-state search.  state = attached databases / schemas / tables with rows (+ database files on disk)
                                   + one context per session (reported names, usable database / schema)
                           transition = FakeSnow.connect(database=?, schema=?) with every argument combination
                           initial states = complete product flags x storage x prior state (36 configurations)
                           histories = sequences of 1..3 connects, deduplicated on the state they reach
                           + statements issued between two connects through an existing session (DROP SCHEMA /
                             CREATE SCHEMA / DROP TABLE, qualified via the first session and unqualified via the latest
                             one): histories connect -> statement -> connect, so that anything an instance remembers
                             about earlier connects meets a catalog that has changed since. The statement itself is not
                             judged (C03/C07); the model adopts the catalog found after it, and the option table is
                             applied to the connect that follows with that catalog as prior state.
                           + names that are active in a pattern language (FAMILIES: _ and $ are legal in an unquoted
                             identifier and mean something in LIKE / regex / glob) next to look-alike objects (a database /
                             schema whose name differs from the requested one only at that character, created by the
                             fixture or by an earlier connect): flags x storage x DECOY_LEVELS x (name | look-alike) for
                             both arguments; "exists" means an object of exactly that name, the look-alike is a bystander
Every history is executed on a fresh real instance (fresh directory for db_path); the reference model (the option
table OPTION_TABLE_DOC / Model.connect below, written from the property statement, not from conn.py) is stepped in
lock-step and compared after the last connect through two windows: reported (connect outcome, conn.database,
conn.schema, CURRENT_DATABASE/SCHEMA, outcome of the first unqualified statements) and ground truth (raw DuckDB
catalog + rows through mc/observe.py, directory listing).

Oracle clauses
  C14.no_raise          connect returns a connection in every configuration
  C14.creates_exactly   catalog after connect = catalog before + exactly what the option table allows
  C14.reports_names     conn.database / conn.schema = the arguments upper-cased (None when not given)
  C14.context           the new session has a usable current database / schema exactly when the objects exist after
                        connect: CURRENT_DATABASE()/CURRENT_SCHEMA() name them when they exist; the first unqualified
                        CREATE TABLE lands in <D>.<S> / raises 90106 / raises 90105, the first unqualified CREATE SCHEMA
                        lands in <D> / raises 90105
  C14.undisturbed       pre-existing databases, schemas, tables and rows are unchanged; every other session reports the
                        same names and the same DuckDB-level context as before the connect, and its first unqualified
                        statements behave exactly as they did in the history without this connect (differential against
                        the implementation's own behaviour one connect earlier)
                        what every pre-existing database stores about its tables (table comments, VARCHAR lengths:
                        fakesnow's _fs_* bookkeeping rows, only compared with themselves) is the same before and after
                        the connect - for a database file of a previous instance: the same as that instance had
                        stored; and for the prior table DB1.S1.T0 the reported comment, CHARACTER_MAXIMUM_LENGTH and
                        DESCRIBE type equal the hand-written values (every fixture table has a comment and a VARCHAR(n))
  C14.files             db_path: the directory holds <DB>.db exactly for the databases created/attached so far (plus
                        the previous instance's files), a database found on disk comes with its previous contents,
                        files of databases that were never attached are byte-identical; in-memory: no file is written

Not demanded
  * whether a database *file* left by a previous instance is attached when create_database_on_connect=False (the
    statement says "prior state: database exists or not" and the README "use existing database files from this path":
    both readings are defensible). The model takes "attached or not" from ground truth in that cell and demands
    everything else (no raise, names, context <=> objects exist, nothing else touched) consistently with it.
  * what CURRENT_DATABASE()/CURRENT_SCHEMA() say when the session has *no* current database/schema (C03's subject,
    known finding there), and DuckDB's internal context for such a session.
  * that a table can be created in INFORMATION_SCHEMA (Snowflake refuses): for schema=information_schema the first
    unqualified statement is `select count(*) from schemata`, demanded only to succeed (count not compared).
  * sqlstate / message of 90105 / 90106 (C07's subject): only ProgrammingError + errno.
  * how an earlier session whose current schema was dropped by a statement step behaves once a later connect creates
    that schema again (it may find it again: not a disturbance; every other earlier session must behave as before).
  * macros / _fs_* bookkeeping objects (fakesnow internals, hidden from the user view).
"""
from __future__ import annotations

import contextlib
import copy
import hashlib
import os

from mc import core, observe
from mc.util import exc_info, scratch_dir

PID = "C14"
LEVEL = "model_checking"

# ---- alphabets (complete, written out) ---------------------------------------------------------------------------------
DATABASE_ARGS = (None, "db1", "DB1", "Db1")
SCHEMA_ARGS = (None, "s1", "S1", "information_schema")
FLAGS = ((True, True), (True, False), (False, True), (False, False))  # (create_database_on_connect, create_schema_on_connect)
STORAGES = ("memory", "fresh", "previous")  # in-memory | db_path empty | db_path with files written by a previous instance
PRIORS = ("nothing", "database", "database+schema")  # what exists before the first connect under test
#   memory / fresh : exists in the instance (created through a first session with plain SQL)
#   previous       : exists as files of a previous, closed instance; nothing of it is attached in the new instance
CONNECT_ARGS = tuple((d, s) for d in DATABASE_ARGS for s in SCHEMA_ARGS)  # 16
CONFIGS = tuple((cd, cs, st, pr) for cd, cs in FLAGS for st in STORAGES for pr in PRIORS)  # 36
# one spelling of each of the 6 distinct (database, schema) requests (letter case is local to one connect call; it is
# covered completely by the steps that use CONNECT_ARGS)
CANON_ARGS = ((None, None), (None, "s1"), (None, "information_schema"), ("db1", None), ("DB1", "S1"), ("Db1", "information_schema"))
# statements issued between two connects through an *existing* session (a history step ("$", id)), so that whatever an
# instance remembers about earlier connects is confronted with a catalog that has changed since:
#   id -> (issuing session: "first" = s0 (context OTHER.SO), "last" = the most recently connected live session, SQL)
STATEMENTS = {
    "drop_schema_q": ("first", "drop schema db1.s1"),
    "create_schema_q": ("first", "create schema db1.s1"),
    "drop_table_q": ("first", "drop table db1.s1.t0"),
    "drop_schema_u": ("last", "drop schema s1"),
    "create_schema_u": ("last", "create schema s1"),
    "drop_table_u": ("last", "drop table t0"),
}
STATEMENT_IDS = tuple(STATEMENTS)
# the connects tried right after a statement in the quick tier: the pair again, and the database alone
AFTER_STATEMENT_QUICK = (("DB1", "S1"), ("db1", None))
# step k of a history, per tier: "connect" = connect alphabet from states whose last step is a connect, "stmt" =
# statement alphabet from those states (a statement is never followed by a statement), "after_stmt" = connect
# alphabet from states whose last step is a statement (default: same as "connect")
PLAN = {
    "quick": (
        {"connect": CONNECT_ARGS},
        {"connect": CANON_ARGS, "stmt": STATEMENT_IDS},
        {"after_stmt": AFTER_STATEMENT_QUICK},
    ),
    "thorough": (
        {"connect": CONNECT_ARGS},
        {"connect": CONNECT_ARGS, "stmt": STATEMENT_IDS},
        {"connect": CANON_ARGS, "after_stmt": CANON_ARGS},
    ),
}

# ---- names that are "active" in a pattern language, next to look-alike objects ----------------------------------------------
# A requested name may contain characters that are legal in an unquoted Snowflake identifier (letters, digits, _ and $)
# and at the same time mean something in LIKE / regex / glob patterns. "Exists" in the option table means "an object of
# exactly that name (upper-cased) exists": an object whose name differs from the requested one only at the position of
# such a character (the DECOY) is a different object. family -> (database, decoy database, schema, decoy schema);
# the decoy names are requested too (then the object with the active character is the look-alike).
FAMILIES = {
    "underscore": ("d_1", "dx1", "s_1", "sx1"),
    "dollar": ("d$1", "dx1", "s$1", "sx1"),
}
ACTIVE_CHARS = "_$"
# what exists before the first connect under test (memory / fresh: in the instance; previous: as files of a previous instance)
#   decoy_database        : <decoy db> holding a schema named exactly like the requested schema, and the decoy schema + table
#   database+decoy_schema : <db> holding only the decoy schema (+ table); the requested schema is missing
DECOY_LEVELS = ("nothing", "decoy_database", "database+decoy_schema", "decoy_database+database+decoy_schema")
DECOY_PRIORS = tuple(f"{fam}:{lvl}" for fam in FAMILIES for lvl in DECOY_LEVELS)
DECOY_CONFIGS = tuple((cd, cs, st, pr) for cd, cs in FLAGS for st in STORAGES for pr in DECOY_PRIORS)  # 96


def family_args(prior):
    """Connect alphabet of a decoy configuration: database in (requested, decoy) x schema in (None, requested, decoy)."""
    d, dd, sc, sd = FAMILIES[prior.split(":")[0]]
    return tuple((a, b) for a in (d, dd) for b in (None, sc, sd))




def decoy_successors(tier, cfg, hist):
    """Transitions of a decoy configuration. Step 1: the complete family alphabet in every configuration. Step 2 (the
    look-alike was created by the connect before, not by the fixture - connection order): thorough = the complete
    family alphabet again from every state; quick = from the states without fixture objects only, both arguments given."""
    args = family_args(cfg[3])
    if len(hist) == 0:
        return args
    if len(hist) == 1:
        if tier == "thorough":
            return args
        if cfg[3].endswith(":nothing"):
            return tuple(a for a in args if a[1] is not None)
    return ()

INFO = "INFORMATION_SCHEMA"  # exists in every database (Snowflake: every database has INFORMATION_SCHEMA)

# fixture SQL (fully qualified; the first session s0 is fs.connect() without arguments, which may create nothing)
BYSTANDER_SQL = (
    "create database other",
    "create schema other.so",
    "create schema other.s1",  # same name as the requested schema, in another database: must not count as "exists"
    "create table other.so.keep (x int, v varchar(10)) comment = 'bystander table'",
    "insert into other.so.keep values (1, 'one')",
    "use schema other.so",  # s0's own context, must survive every later connect
)
PRIOR_SQL = {
    "nothing": (),
    # "database only": S1 is missing; another schema holds a table so that DB1 has something stored to disturb
    "database": (
        "create database db1",
        "create schema db1.sx",
        "create table db1.sx.kx (x int, v varchar(30)) comment = 'table next to the missing schema'",
        "insert into db1.sx.kx values (5, 'five')",
    ),
    "database+schema": ("create database db1", "create schema db1.s1", "create table db1.s1.t0 (x int, v varchar(20)) comment = 'prior table'", "insert into db1.s1.t0 values (7, 'seven')"),
}
OLD_SQL = ("create database old", "create schema old.os", "create table old.os.ot (x int, v varchar(5)) comment = 'old table'", "insert into old.os.ot values (3, 'abc')")


def prior_content(prior):
    """What PRIOR_SQL leaves in DB1 (None: no DB1), written by hand."""
    return {"nothing": None, "database": {"SX": {"KX": ["(5, 'five')"]}}, "database+schema": {"S1": {"T0": ["(7, 'seven')"]}}}[prior]


def prior_sql(prior):
    if prior in PRIOR_SQL:
        return PRIOR_SQL[prior]
    fam, level = prior.split(":")
    d, dd, sc, sd = FAMILIES[fam]
    out = ()
    if level in ("decoy_database", "decoy_database+database+decoy_schema"):
        out += (
            f"create database {dd}",
            f"create schema {dd}.{sc}",
            f"create schema {dd}.{sd}",
            f"create table {dd}.{sd}.kd (x int, v varchar(12)) comment = 'table in the look-alike database'",
            f"insert into {dd}.{sd}.kd values (8, 'eight')",
        )
    if level in ("database+decoy_schema", "decoy_database+database+decoy_schema"):
        out += (
            f"create database {d}",
            f"create schema {d}.{sd}",
            f"create table {d}.{sd}.ks (x int, v varchar(14)) comment = 'table in the look-alike schema'",
            f"insert into {d}.{sd}.ks values (9, 'nine')",
        )
    return out


def prior_databases(prior):
    """{DB: {SCHEMA: {TABLE: rows}}} that the prior fixture leaves, written by hand (not derived from prior_sql)."""
    if prior in PRIORS:
        c = prior_content(prior)
        return {} if c is None else {"DB1": c}
    fam, level = prior.split(":")
    d, dd, sc, sd = (x.upper() for x in FAMILIES[fam])
    return {
        "nothing": {},
        "decoy_database": {dd: {sc: {}, sd: {"KD": ["(8, 'eight')"]}}},
        "database+decoy_schema": {d: {sd: {"KS": ["(9, 'nine')"]}}},
        "decoy_database+database+decoy_schema": {dd: {sc: {}, sd: {"KD": ["(8, 'eight')"]}}, d: {sd: {"KS": ["(9, 'nine')"]}}},
    }[level]


def look_alike(a, b):
    """a != b, same length, and they differ only where one of them has a character that is active in a pattern."""
    return a != b and len(a) == len(b) and all(x == y or x in ACTIVE_CHARS or y in ACTIVE_CHARS for x, y in zip(a, b))


# what Snowflake reports about DB1.S1.T0 as created by PRIOR_SQL (hand-written from the documentation: COMMENT column of
# INFORMATION_SCHEMA.TABLES, CHARACTER_MAXIMUM_LENGTH of INFORMATION_SCHEMA.COLUMNS, "type" column of DESCRIBE TABLE)
T0_REPORTED = {
    "comment": (("T0", "prior table"),),
    "character_maximum_length": (("V", 20), ("X", None)),
    "describe": (("X", "NUMBER(38,0)"), ("V", "VARCHAR(20)")),
}
T0_QUERIES = {
    "comment": "select table_name, comment from information_schema.tables where table_schema = 'S1' order by 1",
    "character_maximum_length": "select column_name, character_maximum_length from db1.information_schema.columns where table_schema = 'S1' and table_name = 'T0' order by 1",
    "describe": "describe table db1.s1.t0",
}

OPTION_TABLE_DOC = """
D = database.upper() if given, S = schema.upper() if given; "exists" = attached in this instance.
  1. database created   <=> D given and D does not exist and create_database_on_connect
                            (db_path: file <D>.db; if that file exists already the database comes with its contents)
  2. schema created     <=> D and S given and D exists after 1. and S does not exist in D and create_schema_on_connect
                            (INFORMATION_SCHEMA exists in every database, so it is never created)
  3. nothing else is created, changed or removed; connect returns a connection in every cell
  4. current database   <=> D given and D exists after 1.
     current schema     <=> current database and S given and S exists in D after 2.
  5. conn.database = D, conn.schema = S (None when not given) in every cell
"""


# ---- reference model ----------------------------------------------------------------------------------------------------
class Model:
    """cat:  {DB: {SCHEMA: {TABLE: [row reprs]}}}   attached databases (user view)
    disk: {DB: <same dict object as in cat once attached>} database files under db_path (None: in-memory)
    sessions: [{'database','schema','has_db','has_schema','alive'}]"""

    def __init__(self, cfg):
        self.cd, self.cs, self.storage, self.prior = cfg
        self.cat: dict = {}
        self.disk = None if self.storage == "memory" else {}
        self.sessions: list = []
        self.ever_attached: set = set()
        # fixture, mirrored by hand
        if self.storage == "previous":
            self.disk["OLD"] = {"OS": {"OT": ["(3, 'abc')"]}}
            for db, content in prior_databases(self.prior).items():
                self.disk[db] = copy.deepcopy(content)
        self.sessions.append({"database": None, "schema": None, "has_db": False, "has_schema": False, "alive": True})
        self._attach("OTHER")
        self.cat["OTHER"]["SO"] = {"KEEP": ["(1, 'one')"]}
        self.cat["OTHER"]["S1"] = {}
        self.sessions[0].update(database="OTHER", schema="SO", has_db=True, has_schema=True)
        if self.storage != "previous":
            for db, content in prior_databases(self.prior).items():
                self._attach(db)
                self.cat[db].update(copy.deepcopy(content))

    def _attach(self, d):
        if self.disk is None:
            self.cat[d] = {}
        else:
            self.cat[d] = self.disk.setdefault(d, {})
        self.ever_attached.add(d)

    def adopt(self, observed):
        """After a statement step the prior state of the next connect is whatever the catalog is now (the effect of
        the statement itself is not C14's subject). In place, so that cat and disk keep sharing attached databases."""
        if set(observed) != set(self.cat):
            raise core.HarnessError(f"C14: a statement step changed the set of databases: {sorted(self.cat)} -> {sorted(observed)}")
        for d, sch in observed.items():
            self.cat[d].clear()
            self.cat[d].update(copy.deepcopy(sch))

    def last_session(self):
        for i in range(len(self.sessions) - 1, 0, -1):
            if self.sessions[i]["alive"]:
                return i
        return None

    def enabled_statements(self):
        """Statements of STATEMENTS that can change the catalog in this state (only these are worth a transition)."""
        out = []
        db1 = self.cat.get("DB1")
        li = self.last_session()
        ls = self.sessions[li] if li is not None else None
        for sid, (who, _sql) in STATEMENTS.items():
            kind = sid.rsplit("_", 1)[0]
            if db1 is None:
                continue
            if kind == "drop_schema" and "S1" not in db1:
                continue
            if kind == "create_schema" and "S1" in db1:
                continue
            if kind == "drop_table" and "T0" not in db1.get("S1", {}):
                continue
            if who == "last":
                if ls is None or not ls["has_db"] or ls["database"] != "DB1":
                    continue
                if kind == "drop_table" and not (ls["has_schema"] and ls["schema"] == "S1"):
                    continue
            out.append(sid)
        return tuple(out)

    def key(self):
        def c(cat):
            return tuple((d, tuple((s, tuple((t, tuple(r)) for t, r in sorted(o.items()))) for s, o in sorted(sch.items()))) for d, sch in sorted(cat.items()))

        return (
            c(self.cat),
            c(self.disk) if self.disk is not None else None,
            tuple((x["database"], x["schema"], x["has_db"], x["has_schema"], x["alive"]) for x in self.sessions),
        )

    def free_cell(self, database):
        """create_database_on_connect=False and a database file of that name lies in db_path, unattached: not demanded
        whether connect attaches it."""
        d = database and database.upper()
        return bool(d) and not self.cd and d not in self.cat and self.disk is not None and d in self.disk

    def connect(self, database, schema, observed_attached=None):
        """Step the option table. Returns the expectation for the new session (also appended to self.sessions)."""
        d = database.upper() if database else None
        s = schema.upper() if schema else None
        created_db = created_schema = False
        if d and d not in self.cat:
            if self.cd or (self.free_cell(database) and observed_attached):
                created_db = True
                self._attach(d)
        if d and s and d in self.cat and s != INFO and s not in self.cat[d] and self.cs:
            created_schema = True
            self.cat[d][s] = {}
        has_db = bool(d) and d in self.cat
        has_schema = has_db and bool(s) and (s == INFO or s in self.cat[d])
        sess = {"database": d, "schema": s, "has_db": has_db, "has_schema": has_schema, "alive": True}
        self.sessions.append(sess)
        return dict(sess, created_db=created_db, created_schema=created_schema)

    def expected_probe(self, i):
        """(outcome of first unqualified CREATE TABLE [or SELECT for INFORMATION_SCHEMA], where the table is,
        outcome of first unqualified CREATE SCHEMA, where the schema is)"""
        x = self.sessions[i]
        if not x["has_db"]:
            return ("e90105", (), "e90105", ())
        p2 = ("ok", (x["database"],))
        if not x["has_schema"]:
            return ("e90106", ()) + p2
        if x["schema"] == INFO:
            return ("ok", ()) + p2
        return ("ok", ((x["database"], x["schema"]),)) + p2


def shape(m: Model, database, schema):
    """Input shape of a connect relative to the pre-state (classifier key; no letter case, no values)."""
    d = database.upper() if database else None
    s = schema.upper() if schema else None
    dbk = "absent" if d is None else ("exists" if d in m.cat else "missing")
    if s is None:
        sk = "absent"
    elif dbk != "exists":
        sk = "given"
    elif s == INFO:
        sk = "builtin"
    else:
        sk = "exists" if s in m.cat[d] else "missing"
    # look-alike objects present (attached or as a file): a database that differs from D only at an active character;
    # a schema that differs from S only there, in D or in a look-alike of D - or S itself in a look-alike of D
    known = set(m.cat) | set(m.disk or {})
    alike_dbs = sorted(x for x in known if d and look_alike(x, d))
    dk = ",decoy_db" if alike_dbs else ""
    if s:
        schemas_of = lambda x: set(m.cat.get(x, {})) | set((m.disk or {}).get(x, {}))  # noqa: E731
        if (d in known and any(look_alike(x, s) for x in schemas_of(d))) or any(x == s or look_alike(x, s) for a in alike_dbs for x in schemas_of(a)):
            dk += ",decoy_schema"
    return f"cd={'T' if m.cd else 'F'},cs={'T' if m.cs else 'F'},db={dbk},schema={sk}{dk}"


# known deviation shapes (quirk branches): connect raises, nothing changes, exploration continues without that session
QUIRK_RAISE = {"cd=F,cs=T,db=missing,schema=given": "BinderException"}


# ---- real side ------------------------------------------------------------------------------------------------------------
HIDDEN_SCHEMAS = ("main", "information_schema", "pg_catalog")


def stored_metadata(raw):
    """fakesnow's stored Snowflake-side metadata (table comments, VARCHAR lengths, ...) per database: the rows of every
    bookkeeping table (name prefix _fs_, the convention mc/observe.py knows) - only ever compared with itself
    (before/after a connect, previous instance/new instance), never interpreted."""
    data = dict(raw["data"])
    out: dict = {}
    for d, sc, t, _sql in raw["tables"]:
        if t.startswith("_fs_") and d != "_fs_global":
            out.setdefault(d, []).append((f"{sc}.{t}", data[f"{d}.{sc}.{t}"]))
    return {d: tuple(sorted(v)) for d, v in out.items()}


def real_state(fs):
    raw = observe.catalog(fs, views=False, data=True)
    return real_catalog(fs, raw), stored_metadata(raw)


def real_catalog(fs, raw=None):
    cat = observe.user_view(raw or observe.catalog(fs, views=False, data=True))
    out: dict = {d: {} for d in cat["dbs"]}
    for d, s in cat["schemas"]:
        if s.lower() not in HIDDEN_SCHEMAS:
            out.setdefault(d, {})[s] = {}
    data = dict(cat["data"])
    for d, s, t, _sql in cat["tables"]:
        out.setdefault(d, {}).setdefault(s, {})[t] = list(data[f"{d}.{s}.{t}"])
    return out


def session_obs(conn):
    """(conn.database, conn.schema, DuckDB-level current database/schema of the session's own connection)"""
    d = observe.engine_conn(conn)
    try:
        raw = tuple(d.execute("select current_database(), current_schema()").fetchall()[0])
    except Exception as e:  # noqa: BLE001
        raw = ("<err>", type(e).__name__)
    return (conn.database, conn.schema, raw)


def reporters(conn):
    try:
        cur = conn.cursor()
        cur.execute("select current_database(), current_schema()")
        return tuple(cur.fetchall()[0])
    except Exception as e:  # noqa: BLE001
        return ("<exc>", type(e).__name__)


def reported_rows(conn, sql):
    """First two columns of every row of a metadata query (or the error kind)."""
    try:
        cur = conn.cursor()
        cur.execute(sql)
        return tuple(tuple(r[:2]) for r in cur.fetchall())
    except Exception as e:  # noqa: BLE001
        return ("<exc>", type(e).__name__)


def stmt_kind(conn, sql):
    try:
        cur = conn.cursor()
        cur.execute(sql)
        cur.fetchall()
        return "ok"
    except Exception as e:  # noqa: BLE001
        o = exc_info(e)
        if o[1] == "snowflake.connector.errors.ProgrammingError" and o[2] in (90105, 90106):
            return f"e{o[2]}"
        return f"err:{o[1].split('.')[-1]}:{o[2]}"


def probe(conn, i, schema_arg):
    info = bool(schema_arg) and schema_arg.upper() == INFO
    k1 = stmt_kind(conn, "select count(*) from schemata" if info else f"create table zz{i} (a int)")
    k2 = stmt_kind(conn, f"create schema zs{i}")
    return k1, k2


def landings(cat, i):
    tabs = tuple(sorted((d, s) for d, sch in cat.items() for s, o in sch.items() if f"ZZ{i}" in {t.upper() for t in o}))
    schs = tuple(sorted(d for d, sch in cat.items() if f"ZS{i}" in {s.upper() for s in sch}))
    return tabs, schs


def db_files(path):
    if path is None or not os.path.isdir(path):
        return ()
    return tuple(sorted(f for f in os.listdir(path) if f.endswith(".db")))


def file_hash(path, name):
    with open(os.path.join(path, name), "rb") as f:
        return hashlib.sha1(f.read()).hexdigest()


def run_sql(conn, stmts, what):
    cur = conn.cursor()
    for s in stmts:
        try:
            cur.execute(s)
        except Exception as e:  # noqa: BLE001
            raise core.HarnessError(f"C14 fixture ({what}) failed at {s!r}: {type(e).__name__}: {e}") from None


class Live:
    """One real instance in one configuration (fixture applied), with the model next to it."""

    def __init__(self, cfg, workdir):
        import fakesnow.instance as inst

        cd, cs, storage, prior = cfg
        self.cfg = cfg
        self.dir = None
        self.cwd = os.path.join(workdir, "cwd")  # empty directory: "in-memory never touches the disk" is observed here
        os.makedirs(self.cwd)
        self.m = Model(cfg)
        self.sessions = []
        self.fs = None
        self.prev_side: dict = {}
        if storage != "memory":
            self.dir = os.path.join(workdir, "dbs")
            os.makedirs(self.dir)
        if storage == "previous":
            prev = inst.FakeSnow(db_path=self.dir)
            p0 = prev.connect()
            run_sql(p0, OLD_SQL + prior_sql(prior), "previous instance")
            self.prev_side = real_state(prev)[1]  # what the previous instance stored, read before it is closed
            p0.close()
            prev.duck_conn.close()
            del p0, prev
        self.fs = inst.FakeSnow(create_database_on_connect=cd, create_schema_on_connect=cs, db_path=self.dir)
        s0 = self.fs.connect()
        self.sessions.append(s0)
        run_sql(s0, BYSTANDER_SQL + (prior_sql(prior) if storage != "previous" else ()), "first session")

    def close(self):
        for s in self.sessions:
            if s is not None:
                with contextlib.suppress(Exception):
                    s.close()
        if self.fs is not None:
            with contextlib.suppress(Exception):
                self.fs.duck_conn.close()

    def observe(self):
        cat, side = real_state(self.fs)
        return {
            "cat": cat,
            "side": side,
            "sessions": [session_obs(s) if s is not None else None for s in self.sessions],
            "files": db_files(self.dir),
            "cwd": tuple(sorted(os.listdir(self.cwd))),
            "hashes": tuple((f, file_hash(self.dir, f)) for f in db_files(self.dir) if f[:-3] not in self.m.ever_attached),
        }

    def connect(self, database, schema):
        """Real connect + model step. Returns (outcome, expectation)."""
        free = self.m.free_cell(database)
        before = copy.deepcopy(self.m)
        try:
            conn = self.fs.connect(database=database, schema=schema)
            got = ("ok",)
        except Exception as e:  # noqa: BLE001
            conn = None
            got = exc_info(e)
        self.sessions.append(conn)
        attached = None
        if free:
            attached = database.upper() in {d.upper() for d in real_catalog(self.fs)}
        exp = self.m.connect(database, schema, observed_attached=attached)
        if conn is None:
            # quirk branch: a raising connect leaves no session; the objects the table would have created are taken
            # back (judge_connect verifies that the real state is indeed unchanged, else the state is not explored further)
            self.m.cat, self.m.disk, self.m.ever_attached = before.cat, before.disk, before.ever_attached
            self.m.sessions[-1].update(has_db=False, has_schema=False, alive=False)
        return got, exp

    def statement(self, sid):
        """A statement step through an existing session; afterwards the model takes the catalog from ground truth."""
        who, sql = STATEMENTS[sid]
        i = 0 if who == "first" else self.m.last_session()
        out = "no_session" if i is None else stmt_kind(self.sessions[i], sql)
        self.m.adopt(real_catalog(self.fs))
        return (i, sql, out)

    def probes(self):
        """First unqualified statements on every live session (mutating: only at the end of a history)."""
        kinds = []
        for i, s in enumerate(self.sessions):
            kinds.append(None if s is None else probe(s, i, self.m.sessions[i]["schema"]))
        cat = real_catalog(self.fs)
        out = []
        for i, k in enumerate(kinds):
            if k is None:
                out.append(None)
            else:
                tabs, schs = landings(cat, i)
                out.append((k[0], tabs, k[1], schs))
        return tuple(out)


def cat_diff(pre, exp, got):
    """Classify the difference between expected and observed catalog. -> (clause suffix, kind) or None
    pre = model catalog before the connect (what must be undisturbed)."""
    if got == exp:
        return None
    for d in sorted(pre):
        if d not in got:
            return ("undisturbed", "database_lost")
        for s in sorted(pre[d]):
            if s not in got[d]:
                return ("undisturbed", "schema_lost")
            if got[d][s] != pre[d][s] and got[d][s] != exp.get(d, {}).get(s):
                return ("undisturbed", "rows_or_tables_changed")
    for d in sorted(exp):
        if d not in got:
            return ("creates_exactly", "database_not_created")
        for s in sorted(exp[d]):
            if s not in got[d]:
                return ("creates_exactly", "schema_not_created")
            if got[d][s] != exp[d][s]:
                return ("creates_exactly", "contents_differ")
    for d in sorted(got):
        if d not in exp:
            return ("creates_exactly", "database_not_allowed")
        for s in sorted(got[d]):
            if s not in exp[d]:
                return ("creates_exactly", "schema_not_allowed")
    return ("creates_exactly", "other")


def case_kind(a):
    if a is None:
        return "absent"
    return "lower" if a == a.lower() else ("upper" if a == a.upper() else "mixed")


def check_fixture(cfg, live):
    m = live.m
    base = live.observe()
    if base["cat"] != m.cat or base["files"] != tuple(sorted(f"{d}.db" for d in (m.disk or {}))):
        raise core.HarnessError(f"C14 fixture state differs from the model in {cfg}: {base['cat']} / {base['files']} vs {m.cat} / {m.disk}")
    if not any(rows for _t, rows in base["side"].get("OTHER", ())):
        raise core.HarnessError("C14: no stored metadata visible for the bystander table (comment, VARCHAR length): the metadata window is blind")
    if base["sessions"][0][:2] != ("OTHER", "SO"):
        raise core.HarnessError(f"C14 fixture: first session reports {base['sessions'][0]}")
    return base


def run_trace(cfg, hist, parent_obs, judge_last=True):
    """Execute one history on a fresh instance. Returns dict(findings=[(clause, cls, detail)], members=[...],
    key=state key | None (diverged), obs=probe observations per session, info=...)."""
    cfg = tuple(cfg)
    hist = [tuple(a) for a in hist]
    findings: list = []
    members: list = []
    info: dict = {}
    cwd0 = os.getcwd()
    with scratch_dir("c14") as wd:
        live = Live(cfg, wd)
        try:
            os.chdir(live.cwd)
            m = live.m
            diverged = False
            last_sessions = None
            if len(hist) != 1:
                last_sessions = check_fixture(cfg, live)["sessions"]
            for step, (database, schema) in enumerate(hist):
                last = step == len(hist) - 1
                if database == "$":
                    done = live.statement(schema)
                    if last:
                        post = live.observe()
                        last_sessions = post["sessions"]
                        info = {"statement": done, "post": post}
                    continue
                if not last:
                    live.connect(database, schema)
                    continue
                pre_model = copy.deepcopy(m)
                pre = live.observe() if step else check_fixture(cfg, live)
                if pre["cat"] != m.cat:
                    raise core.HarnessError(f"C14 replay of prefix diverged: {cfg} {hist}")
                shp = shape(pre_model, database, schema)
                got, exp = live.connect(database, schema)
                post = live.observe()
                last_sessions = post["sessions"]
                info = {"pre_key": pre_model.key(), "shape": shp, "outcome": got, "expected": exp, "pre": pre, "post": post, "free_cell": pre_model.free_cell(database)}
                if judge_last:
                    diverged = judge_connect(cfg, hist, live, pre_model, pre, post, got, exp, shp, findings, members)
            obs = live.probes()
            info["probes"] = obs
            if not hist:
                if obs[0] != m.expected_probe(0):
                    raise core.HarnessError(f"C14 fixture: first session's unqualified statements gave {obs[0]} in {cfg}")
            elif judge_last and hist[-1][0] != "$":
                judge_probes(hist, live, obs, parent_obs, info.get("shape", ""), findings, info.get("expected"), info["post"]["sessions"])
            info["enabled_statements"] = m.enabled_statements()
            key = None if diverged else (m.key(), tuple(last_sessions), obs)
            info["model_sessions"] = [dict(x) for x in m.sessions]
            info["model_cat"] = copy.deepcopy(m.cat)
            return {"findings": findings, "members": members, "key": key, "obs": obs, "info": info}
        finally:
            os.chdir(cwd0)
            live.close()


def judge_connect(cfg, hist, live, pre_model, pre, post, got, exp, shp, findings, members):
    """All clauses that are decided right after the connect (before the mutating probes). Returns diverged?"""
    database, schema = hist[-1]
    m = live.m
    storage = cfg[2]
    conn = live.sessions[-1]
    diverged = False
    rp_detail = {"config": cfg, "history": hist}
    # (1) connect never raises
    if shp in QUIRK_RAISE:
        members.append(("C14.no_raise", f"{shp},exc={QUIRK_RAISE[shp]}", got[0] != "ok"))
    if got[0] != "ok":
        exc = got[1].split(".")[-1]
        findings.append(("C14.no_raise", f"{shp},exc={exc}", dict(rp_detail, raised=got)))
        # quirk branch: a raising connect that changed nothing -> go on without that session (Live.connect has taken
        # the model back to the pre-state)
        unchanged = post["cat"] == pre["cat"] and post["files"] == pre["files"] and post["sessions"][:-1] == pre["sessions"]
        if not unchanged:
            findings.append(("C14.no_raise", f"{shp},exc={exc},state_changed", dict(rp_detail, before=pre["cat"], after=post["cat"])))
            diverged = True
        return diverged
    # (2)/(5)/(6) catalog = prior + exactly what the table allows
    dname = (database or "").upper()
    on_disk = pre_model.disk is not None and dname in pre_model.disk and dname not in pre_model.cat
    found = True
    if on_disk and dname in m.cat and dname in post["cat"]:
        # a database found on disk comes with the contents the previous instance left in it
        before = pre_model.disk[dname]
        found = all(s in post["cat"][dname] and all(post["cat"][dname][s].get(t) == rows for t, rows in o.items()) for s, o in before.items())
    diff = cat_diff(pre_model.cat, m.cat, post["cat"])
    if not found:
        findings.append(("C14.files", f"storage={storage},{shp},previous_contents_not_found", dict(rp_detail, on_disk=pre_model.disk[dname], observed=post["cat"])))
        diverged = True
    elif diff:
        clause, kind = diff
        findings.append((f"C14.{clause}", f"{shp},{kind}", dict(rp_detail, expected=m.cat, observed=post["cat"], before=pre["cat"])))
        diverged = True
    # (3) reported names
    for attr, arg in (("database", database), ("schema", schema)):
        want = arg.upper() if arg else None
        have = getattr(conn, attr)
        if have != want:
            findings.append(("C14.reports_names", f"attr={attr},arg_case={case_kind(arg)}", dict(rp_detail, expected=want, reported=have)))
            diverged = True
    # (4) reporters name the objects when they exist (nothing demanded when they do not)
    rep = reporters(conn)
    if exp["has_db"] and rep[0] != exp["database"]:
        findings.append(("C14.context", f"{shp},CURRENT_DATABASE", dict(rp_detail, expected=exp["database"], reported=rep)))
    if exp["has_schema"] and (len(rep) < 2 or rep[1] != exp["schema"]):
        findings.append(("C14.context", f"{shp},CURRENT_SCHEMA", dict(rp_detail, expected=exp["schema"], reported=rep)))
    # (5) other sessions: reported names and DuckDB-level context unchanged
    for i, (b, a) in enumerate(zip(pre["sessions"], post["sessions"][:-1])):
        if a != b:
            who = "first" if i == 0 else "earlier"
            what = "reported_names" if (a and b and a[:2] != b[:2]) else "engine_context"
            findings.append(("C14.undisturbed", f"{shp},session={who},{what}", dict(rp_detail, before=b, after=a)))
            diverged = True
    # (5b) what pre-existing databases store about their tables (comments, VARCHAR lengths) is unchanged: compared with
    # itself before the connect, and for a database found on disk with what the previous instance had stored
    for d in sorted(pre.get("side", {})):
        if post["side"].get(d) != pre["side"][d]:
            findings.append(("C14.undisturbed", f"{shp},stored_metadata", dict(rp_detail, database=d, before=pre["side"][d], after=post["side"].get(d))))
    if on_disk and dname in post["cat"] and dname in live.prev_side and post["side"].get(dname) != live.prev_side[dname]:
        findings.append(("C14.undisturbed", f"{shp},previous_instance_stored_metadata", dict(rp_detail, database=dname, before=live.prev_side[dname], after=post["side"].get(dname))))
    # (5c) the same through the reporting paths, against hand-written expectations, for the prior table DB1.S1.T0 seen
    # from the new session (one spelling of the first connect only: these queries are slow)
    if len(hist) == 1 and database == "db1" and exp["has_db"] and "T0" in m.cat.get("DB1", {}).get("S1", {}):
        for what, sql in T0_QUERIES.items():
            got_rows = reported_rows(conn, sql)
            if got_rows != T0_REPORTED[what]:
                findings.append(("C14.undisturbed", f"{shp},reported_{what}", dict(rp_detail, sql=sql, expected=T0_REPORTED[what], reported=got_rows)))
    # (6) files
    if storage == "memory":
        if post["cwd"] or post["files"]:
            findings.append(("C14.files", f"storage=memory,{shp},file_written", dict(rp_detail, cwd=post["cwd"])))
    else:
        want = tuple(sorted(f"{d}.db" for d in m.disk))
        if post["files"] != want:
            kind = "file_missing" if set(want) - set(post["files"]) else "file_not_allowed"
            if {f.upper() for f in want} == {f.upper() for f in post["files"]}:
                kind = "file_name_case"
            findings.append(("C14.files", f"storage={storage},{shp},{kind}", dict(rp_detail, expected=want, observed=post["files"])))
        if post["cwd"]:
            findings.append(("C14.files", f"storage={storage},{shp},file_outside_db_path", dict(rp_detail, cwd=post["cwd"])))
        pre_h = dict(pre["hashes"])
        for f, hsh in post["hashes"]:
            if f in pre_h and pre_h[f] != hsh:
                findings.append(("C14.files", f"storage={storage},{shp},unattached_file_modified", dict(rp_detail, file=f)))
    return diverged


def judge_probes(hist, live, obs, parent_obs, shp, findings, exp=None, reported=None):
    m = live.m
    n = len(live.sessions)
    rp_detail = {"config": live.cfg, "history": hist}
    last = n - 1
    if obs[last] is not None:
        want = m.expected_probe(last)
        got = obs[last]
        if got != want:
            names = ("create_table", "create_table_landed", "create_schema", "create_schema_landed")
            if m.sessions[last]["schema"] == INFO:
                names = ("select_schemata",) + names[1:]
            for nme, w, g in zip(names, want, got):
                if w != g:
                    wk = w if isinstance(w, str) else ("none" if not w else "context")
                    gk = g if isinstance(g, str) else ("none" if not g else ("context" if g == w else "elsewhere"))
                    if isinstance(g, str) and g.startswith("err:"):
                        gk = "other_error"
                    findings.append(("C14.context", f"{shp},first_{nme},want={wk},got={gk}", dict(rp_detail, expected=want, observed=got, session=m.sessions[last])))
                    break
    # earlier sessions: same behaviour as in the history without the last connect
    if parent_obs is not None:
        for i in range(min(last, len(parent_obs))):
            if exp and reported and reported[i] and _names_created(reported[i][:2], exp):
                # not demanded: a session whose reported database/schema had been dropped from under it (statement
                # step) and is created again by this connect may find it again - that is no disturbance
                continue
            if obs[i] != (tuple(_tup(parent_obs[i])) if parent_obs[i] is not None else None):
                who = "first" if i == 0 else "earlier"
                findings.append(("C14.undisturbed", f"{shp},session={who},first_unqualified_statements", dict(rp_detail, before=parent_obs[i], after=obs[i], session_index=i)))


def _names_created(names, exp):
    """Does (database, schema) reported by an earlier session name an object this connect created?"""
    if exp.get("created_db") and names[0] == exp["database"]:
        return True
    return bool(exp.get("created_schema")) and names == (exp["database"], exp["schema"])


def _tup(x):
    return tuple(_tup(i) for i in x) if isinstance(x, (list, tuple)) else x


# ---- worker function ------------------------------------------------------------------------------------------------------
def explore(item, acc: core.Acc, tier):
    cfg, hist, parent_obs = item
    r = run_trace(cfg, hist, parent_obs)
    acc.count("evaluations")
    acc.count("traces")
    info = r["info"]
    if hist and hist[-1][0] == "$":
        # a statement transition: nothing is judged, the state it reaches is the prior state of the next connect
        acc.count("transitions")
        acc.count("statement_transitions")
        post = info["post"]
        acc.obs((cfg, hist, info["statement"], sorted(map(repr, post["cat"].items())), post["sessions"], post["files"], r["obs"]))
        acc.outcome(("$", hist[-1][1], info["statement"][2]))
    elif hist:
        acc.count("transitions")
        if any(st[0] == "$" for st in hist):
            acc.count("connects_after_a_statement")
        exp = info["expected"]
        post = info["post"]
        acc.obs((cfg, hist, info["outcome"][:4], sorted(map(repr, post["cat"].items())), sorted(map(repr, post["side"].items())), post["sessions"], post["files"], post["cwd"], r["obs"]))
        acc.outcome((info["shape"], info["outcome"][0], info["outcome"][1] if info["outcome"][0] != "ok" else None, r["obs"][-1]))
        if exp["created_db"] or exp["created_schema"] or not exp["has_db"] or not exp["has_schema"] or info["outcome"][0] != "ok":
            acc.nontrivial((cfg, info["pre_key"], hist[-1]))
        if info["free_cell"]:
            acc.count("cells_not_demanded_attach_of_existing_file")
        acc.sample({"config": cfg, "history": hist, "shape": info["shape"], "expected": exp, "outcome": info["outcome"], "first_unqualified": r["obs"][-1], "catalog_after": post["cat"], "files": post["files"]}, cap=3)
    else:
        acc.obs((cfg, r["obs"]))
    for clause, cls, failed in r["members"]:
        acc.member(clause, cls, failed)
    for clause, cls, detail in r["findings"]:
        acc.violation(clause, cls, detail, {"config": cfg, "history": hist, "parent_obs": parent_obs})
    return {"key": r["key"], "obs": r["obs"], "stmts": info["enabled_statements"]}


def successors(plan_step, hist, enabled, cfg=None, tier="quick"):
    """The transitions explored from a state at one step of the plan."""
    if cfg is not None and ":" in cfg[3]:
        return decoy_successors(tier, cfg, hist)
    if hist and hist[-1][0] == "$":
        return tuple(plan_step.get("after_stmt", plan_step.get("connect", ())))
    if "connect" not in plan_step and "stmt" not in plan_step:
        return ()
    return tuple(plan_step.get("connect", ())) + tuple(("$", sid) for sid in plan_step.get("stmt", ()) if sid in enabled)


def run(ctx: core.Ctx):
    plan = PLAN[ctx.tier]
    depth = len(plan)
    sizes = "; ".join(
        f"step {i + 1}: " + ", ".join(f"{k}={len(v)}" for k, v in sorted(st.items())) for i, st in enumerate(plan)
    )
    ctx.rule = (
        "explicit-state search: initial states = complete product flags(2x2) x storage(memory, db_path fresh, db_path "
        "with a previous instance's files) x prior(nothing, database, database+schema) = 36; transitions = connect with "
        "(database, schema) from the written-out 4x4 alphabet, or a statement (DROP SCHEMA / CREATE SCHEMA / DROP TABLE, "
        "qualified through the first session or unqualified through the latest session) that the model says changes the "
        f"catalog; alphabet sizes per step: {sizes}; a statement is always followed by a connect; histories are "
        "deduplicated on the state reached (model catalog + disk + session contexts, DuckDB-level session context, "
        "outcomes of the sessions' first unqualified statements); every history runs on a fresh real instance; a history "
        "ending in a connect is judged after that connect with the option table applied to the catalog as it is then "
        "(after a statement: taken from ground truth); in addition, per family of names with a character that is active "
        "in LIKE/regex/glob patterns (_ and $), flags(2x2) x storage(3) x prior(nothing, look-alike database, database "
        "with look-alike schema, both) = 48 configurations each, transitions = connect with database in (name, look-alike) "
        "x schema in (absent, name, look-alike), 1 step everywhere + a second step (thorough: everywhere; quick: from "
        "the configurations without fixture objects, both arguments given); non-trivial = the option table creates something, or leaves the "
        "session without current database/schema, or connect raised"
    )
    ctx.assumptions = [
        "ground truth is read through a raw DuckDB cursor (mc/observe.py) and os.listdir",
        "a database 'exists' when it is attached in the instance; whether create_database_on_connect=False attaches an "
        "existing database file is not demanded (taken from ground truth, everything else demanded consistently)",
        "the first session's context comes from USE SCHEMA (C03's subject); a broken fixture is a harness error",
        "the effect of a statement step is not judged (C03/C07): the model adopts the catalog found after it",
    ]
    ctx.extra["alphabet"] = {
        "canonical_spellings": [list(a) for a in CANON_ARGS],
        "statements": {k: list(v) for k, v in STATEMENTS.items()},
        "plan": [{k: len(v) for k, v in st.items()} for st in plan],
        "database": list(DATABASE_ARGS),
        "schema": list(SCHEMA_ARGS),
        "pattern_active_name_families": {k: list(v) for k, v in FAMILIES.items()},
        "decoy_priors": list(DECOY_LEVELS),
        "decoy_connect_alphabet": {k: [list(a) for a in family_args(k + ":nothing")] for k in FAMILIES},
        "flags": [list(f) for f in FLAGS],
        "storage": list(STORAGES),
        "prior": list(PRIORS),
    }
    # depth 0: fixture only (records how the first session's unqualified statements behave)
    res = ctx.pmap(explore, [(cfg, (), None) for cfg in CONFIGS + DECOY_CONFIGS], recheck=False)
    frontier = []
    seen = set()
    for (cfg, hist, _p), out in sorted(res, key=lambda x: repr(x[0])):
        seen.add((cfg, out["key"]))
        frontier.append((cfg, hist, out["obs"], out["stmts"]))
    complete = True
    first_connects = 0
    for d in range(1, depth + 1):
        items = [(cfg, tuple(hist) + (a,), obs) for cfg, hist, obs, stmts in frontier for a in successors(plan[d - 1], hist, stmts, cfg, ctx.tier)]
        if d == 1:
            first_connects = len(items)
        res = ctx.pmap(explore, items, recheck=(d == 1))
        cands = []
        for (cfg, hist, _p), out in res:
            if out["key"] is None:
                complete = False  # diverged: nothing behind it is explored
                continue
            cands.append((cfg, out["key"], hist, out["obs"], out["stmts"]))
        cands.sort(key=lambda x: (repr(x[0]), repr(x[1]), len(x[2]), repr(x[2])))
        frontier = []
        for cfg, key, hist, obs, stmts in cands:
            if (cfg, key) not in seen:
                seen.add((cfg, key))
                frontier.append((cfg, hist, obs, stmts))
        ctx.acc.counters["max_depth"] = d
    for s in sorted(map(repr, seen)):
        ctx.acc.add("states", s)
    ctx.extra["first_connects_complete_product"] = first_connects
    ctx.extra["bound"] = f"histories of up to {depth} steps from each of {len(CONFIGS)} configurations; {sizes}; histories of up to 2 connects from each of {len(DECOY_CONFIGS)} look-alike-name configurations"
    ctx.extra["frontier_left_unexpanded"] = len(frontier)
    ctx.exhaustive = bool(complete)


def replay(payload):
    r = payload["replay"]
    cfg = tuple(r["config"])
    hist = [tuple(a) for a in r["history"]]
    out = run_trace(cfg, hist, r.get("parent_obs"))
    info = out["info"]
    print("configuration (create_database_on_connect, create_schema_on_connect, storage, prior):", cfg)
    print("connects:", hist)
    print("shape of last connect:", info.get("shape"))
    print("outcome of last connect:", info.get("outcome"))
    print("expected session:", info.get("expected"))
    print("catalog before:", info["pre"]["cat"] if "pre" in info else None)
    print("catalog after: ", info["post"]["cat"] if "post" in info else None)
    print("model catalog: ", info.get("model_cat"))
    print("files after:", info["post"]["files"] if "post" in info else None)
    print("sessions after (database, schema, engine context):", info["post"]["sessions"] if "post" in info else None)
    print("first unqualified statements per session:", out["obs"])
    for f in out["findings"]:
        print("finding:", f[0], f[1])
    want = (payload.get("clause"), payload.get("class"))
    return any((f[0], f[1]) == want for f in out["findings"]) if want[0] else bool(out["findings"])
