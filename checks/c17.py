"""C17 — the HTTP server answers exactly like the in-process fake.

Two parts, one evidence file (LEVEL = model_checking).

(a) E2 differential.  A real uvicorn server for fakesnow.server.app listens on a loopback socket in a thread of the
    worker process and is driven by the real snowflake.connector; the same statement stream goes to a fresh in-process
    FakeSnow connection.  Streams (all written out below):
      type groups      one per column type of mc/ref/c01_model.TYPES: CREATE TABLE, one INSERT per boundary value
                       writing (value, NULL, value), one query per value returning those three rows, a one-row query,
                       the whole table, NULLs only, an empty result, CAST(NULL AS type)
      fraction groups  TIMESTAMP_NTZ / TIMESTAMP_TZ x BASES (post- and pre-epoch seconds, year 1, year 9999) x FRACS
                       (every class of microsecond fraction), and sweeps over whole ranges of microsecond fractions
                       (quick: the first 4096 of them; thorough: all 10**6) before and after the epoch
      kind groups      DDL, DML (0 / 1 / n affected rows), USE, BEGIN/COMMIT/ROLLBACK, SET/UNSET, SHOW/DESCRIBE, query
                       expression forms, semi-structured results, failing statements (the C07 catalogue), statements
                       without a current database / schema, row counts around DuckDB's vector size and one row more
                       than an Arrow record batch holds (10**6 + 1)
      login groups     database+schema / database only / none / lower case / new names; shared, isolated, path-backed
      same-text groups the character-identical query text answered in different contexts of ONE server lifetime:
                       before and after CREATE OR REPLACE TABLE changes the column type (every pair of the 12 type
                       families, both directions), after ALTER TABLE ADD / DROP / RENAME COLUMN, another column count,
                       DROP + CREATE, a replaced view, a session variable of another type; from three sessions of the
                       shared instance in different schemas / databases holding same-named tables of other types and
                       column counts, and after USE in one session; from the shared, an isolated and a path-backed
                       instance (several connections per stream, each with its in-process twin)
    Oracle (per statement, comparison functions in mc/ref/c17_model.py):
      C17.no_500       no response of the server has status >= 500
      C17.outcome      both sides succeed or both raise
      C17.error        same exception class, errno, sqlstate and message
      C17.rows         same number of rows, same width, NULL <-> None in the same cells, equal values (floats bit-exact
                       and NaN-aware, aware datetimes by instant and zero offset, Decimals by value and exponent)
      C17.pytype       equal Python types cell by cell
      C17.rowcount     equal cursor.rowcount
      C17.description  equal description (name, type_code, display_size, internal_size, precision, scale, is_nullable)
    When the server answered 500 only C17.no_500 is reported for that statement (the connector's InternalServerError
    is its consequence, there is nothing to compare).

(b) E1 session machine.  BFS over sequences of  login{shared, ':isolated:', path-backed} / query(token, stmt) /
    query without Authorization / query with an unknown token  (stmt in put = CREATE OR REPLACE TABLE MARK AS SELECT
    <token index>, sel = SELECT WHO FROM MARK, USE SCHEMA S2 [S1], SET V = 'v<token index>', SELECT $V), at most 3
    tokens, depth 4 (quick) / 6 (thorough), against mc/ref/c17_model.SessionModel (a dict per token + one data store per
    instance).  Every abstract state is expanded once (from its canonically first history): the history is replayed
    on a freshly reset server (fakesnow.server is re-imported between histories, which re-creates all of its
    module-level state: shared_fs, sessions), then every
    enabled operation is applied - operations the model predicts to change the state each on their own replay,
    the others one after another on the live state, guarded by the ground-truth digest.
    The read statements are the same text for every token while what a token writes differs per token in value and
    type (MARK.WHO is a number, a text or a date; $V a number, a text or a fraction), and around every state-changing
    operation every token sends the read texts before and after it on the same live server: the identical text is
    answered on both sides of every change within one server lifetime.
      C17.s.login         a login succeeds and yields a session with database DB1, schema S1 and no variables
      C17.s.answer        the connector sees the rows / the ProgrammingError 2003/42S02 / the success the model expects
      C17.s.context       after every operation every token's database / schema / variables (fakesnow's session object
                          and DuckDB's own current_schema()) are the model's: a token's USE / SET never leaks
      C17.s.data          after every operation every token's instance holds exactly the model's MARK tables: tokens of
                          the shared instance see each other's data, isolated and path-backed ones do not
      C17.s.unauthorized  missing Authorization -> HTTP 401 code 390103, unknown token -> HTTP 401 code 390104,
                          success false; the ground-truth digest of every instance and session is unchanged and no
                          session appears or disappears
      C17.s.no_500        no response has status >= 500

Not demanded: statement parameters bound server side (qmark; the server ignores the `bindings` of the request); an
empty statement (the connector does not send it); equality of description when the in-process fake has none (its
description raises, C06); two logins naming the same FAKESNOW_DB_PATH; more than 3 tokens; non-deterministic functions
(CURRENT_TIMESTAMP, UUID_STRING, RANDOM without seed); what the connector does when it is allowed to retry: it is told
not to (cursor.execute(_no_retry=True)), so that every statement is sent exactly once.

Class keys: C17.rows / C17.pytype / C17.description are keyed by the Snowflake type of the *column* as reported by the
in-process description (col=TIMESTAMP_NTZ,cell=null), C17.rowcount by the in-process rowcount bucket (0 / 1 / >1),
C17.no_500 by what the in-process fake did with the statement (raised a non-Snowflake exception / executed it but has
no description / executed and described it: then by statement class and value class), everything else by the
statement label of the alphabet.
"""
from __future__ import annotations

import contextlib
import datetime as dt
import gzip
import http.client
import json
import logging
import os
import shutil
import socket
import tempfile
import threading
import time

from mc import core, observe
from mc.ref import c01_model as M1
from mc.ref import c17_model as M
from mc.util import WORK

PID = "C17"
LEVEL = "model_checking"

DB, SCHEMA = "DB1", "S1"

# ======================================================================================================================
# server harness (one per process)

_SRV: dict = {}


class _StatusRecorder:
    """ASGI wrapper that *records* (path, status) of every response and never alters a request or a response.

    One thing it does not pass on: when the application raises, Starlette's error middleware first sends a complete
    500 response and then re-raises; uvicorn would log that and close the TCP connection, and the connector's next
    request on its pooled connection would race with the FIN (connection reset, timing dependent, and with
    _no_retry=True not retried).  The exception is therefore dropped here *after* the 500 response went out; the
    status is recorded like any other."""

    def __init__(self, mod, log):
        self.mod = mod  # the application is looked up per request: reset_server() re-imports the module
        self.log = log

    async def __call__(self, scope, receive, send):
        app = self.mod.app
        if scope["type"] != "http":
            return await app(scope, receive, send)
        started = []

        async def _send(message):
            if message["type"] == "http.response.start":
                started.append(message["status"])
                self.log.append((scope["path"], message["status"]))
            await send(message)

        try:
            await app(scope, receive, _send)
        except Exception:
            if not started:
                raise


def server():
    if "port" in _SRV:
        return _SRV
    import uvicorn

    import fakesnow.server as fsrv

    for name in ("uvicorn", "uvicorn.error", "uvicorn.access", "snowflake.connector", "asyncio", "sqlglot"):
        lg = logging.getLogger(name)
        lg.disabled = True
        lg.propagate = False
    sock = socket.socket(socket.AF_INET, socket.SOCK_STREAM, socket.IPPROTO_TCP)  # proto set: asyncio then sets TCP_NODELAY
    sock.setsockopt(socket.SOL_SOCKET, socket.SO_REUSEADDR, 1)
    sock.bind(("127.0.0.1", 0))
    log: list = []
    # no idle / time based behaviour: a keep-alive connection must never be dropped because the machine is busy
    cfg = uvicorn.Config(_StatusRecorder(fsrv, log), log_level="critical", log_config=None, access_log=False,
                         timeout_keep_alive=86400, timeout_graceful_shutdown=1)
    srv = uvicorn.Server(cfg)
    th = threading.Thread(target=srv.run, kwargs={"sockets": [sock]}, name="c17-server", daemon=True)
    th.start()
    t0 = time.time()
    while not srv.started:
        if time.time() - t0 > 600:
            raise core.HarnessError("uvicorn did not start")
        time.sleep(0.005)
    for name in ("uvicorn", "uvicorn.error", "uvicorn.access"):
        logging.getLogger(name).disabled = True
    _SRV.update(port=sock.getsockname()[1], log=log, srv=srv, thread=th, mod=fsrv)
    return _SRV


def reset_server():
    """Equivalent of restarting the server process: fakesnow.server is re-imported (importlib.reload), which re-creates
    ALL of its module-level state (today: shared_fs and sessions), after the engine handles of the old state have been
    closed.  The listening uvicorn server keeps running; it looks the application up on every request."""
    import importlib

    s = server()
    fsrv = s["mod"]
    for c in list(getattr(fsrv, "sessions", {}).values()):
        with contextlib.suppress(Exception):
            observe.engine_conn(c).close()
    with contextlib.suppress(Exception):
        fsrv.shared_fs.duck_conn.close()
    importlib.reload(fsrv)
    del s["log"][:]


def http_connect(database=DB, schema=SCHEMA, db_path=None):
    import snowflake.connector

    s = server()
    sp = {"CLIENT_OUT_OF_BAND_TELEMETRY_ENABLED": False}
    if db_path is not None:
        sp["FAKESNOW_DB_PATH"] = db_path
    kw = dict(
        user="fake", password="snow", account="fakesnow", host="127.0.0.1", port=s["port"], protocol="http",
        session_parameters=sp, login_timeout=3600, socket_timeout=3600,
    )
    if database is not None:
        kw["database"] = database
    if schema is not None:
        kw["schema"] = schema
    return snowflake.connector.connect(**kw)


def raw_query(auth_header, sql):
    """One raw query request (no connector): returns (status, parsed json | None)."""
    s = server()
    c = http.client.HTTPConnection("127.0.0.1", s["port"], timeout=3600)
    try:
        body = gzip.compress(json.dumps({"sqlText": sql, "sequenceId": 1}).encode())
        h = {"Content-Type": "application/json", "Content-Encoding": "gzip", "Accept": "application/snowflake"}
        if auth_header is not None:
            h["Authorization"] = auth_header
        c.request("POST", "/queries/v1/query-request?requestId=c17", body, h)
        r = c.getresponse()
        data = r.read()
        try:
            j = json.loads(data)
        except ValueError:
            j = None
        return r.status, j
    finally:
        c.close()


WATCHED_PATHS = ("/queries/v1/query-request", "/session/v1/login-request")


def take_statuses():
    """Statuses of the responses since the last call: every login / query response, and any other response >= 500
    (the connector may send bookkeeping requests of its own, e.g. telemetry; they are not part of the property)."""
    log = server()["log"]
    out = [s for s in log if s[0] in WATCHED_PATHS or s[1] >= 500]
    del log[:]
    return out


@contextlib.contextmanager
def scratch():
    os.makedirs(WORK, exist_ok=True)
    d = tempfile.mkdtemp(prefix=f"c17-{os.getpid()}-", dir=WORK)
    try:
        yield d
    finally:
        shutil.rmtree(d, ignore_errors=True)


# ======================================================================================================================
# observation of one statement (same function for both sides)


def _exc(e):
    return (f"{type(e).__module__}.{type(e).__name__}", getattr(e, "errno", None), getattr(e, "sqlstate", None),
            str(getattr(e, "msg", None) or e))


def observe_stmt(conn, sql):
    """-> dict(exec='ok'|'err', err=..., rows=[...]|None, fetch_err=..., rowcount=..., desc=[7-tuples]|None, desc_err=...)"""
    cur = conn.cursor()
    o = {"exec": "ok", "err": None, "rows": None, "fetch_err": None, "rowcount": None, "desc": None, "desc_err": None}
    try:
        cur.execute(sql, _no_retry=True)
    except Exception as e:  # noqa: BLE001
        o["exec"] = "err"
        o["err"] = _exc(e)
        return o
    try:
        o["rows"] = [tuple(r) for r in cur.fetchall()]
    except Exception as e:  # noqa: BLE001
        o["fetch_err"] = _exc(e)
    o["rowcount"] = cur.rowcount
    try:
        d = cur.description
        o["desc"] = None if d is None else [M.desc_tuple(x) for x in d]
    except Exception as e:  # noqa: BLE001
        o["desc_err"] = _exc(e)
    return o


def _type_name(code):
    from snowflake.connector.constants import FIELD_ID_TO_NAME

    return FIELD_ID_TO_NAME.get(code, f"code{code}")


def _is_sf_error(err):
    return err[0].startswith("snowflake.connector.errors.")


# ======================================================================================================================
# (a) statement alphabets


def S(label, sql, cls=None, ordered=None, vclass="any"):
    """One statement of a stream.  cls: statement class used in class keys (default: stmt=<label>)."""
    if ordered is None:
        ordered = " order by " in sql.lower()
    return {"label": label, "sql": sql, "cls": cls or f"stmt={label}", "ordered": ordered, "vclass": vclass}


# ---- type groups -----------------------------------------------------------------------------------------------------


def _vclass(ts, v):
    if v is None:
        return "null"
    if ts["family"] in ("ntz", "tz"):
        return "frac_" + M.frac_class(v.microsecond)
    return "any"


def _join_vclass(vs):
    vs = sorted(set(vs) - {"null"})
    if not vs:
        return "null"
    if any(v == "frac_binary_inexact" for v in vs):
        return "frac_binary_inexact"  # one such value makes the statement a member of that class
    return vs[0] if len(vs) == 1 else "+".join(vs)


def type_stream(ts, tier):
    tg = M1.tgroup(ts)
    cls = f"type={tg}"
    vals = [(k, v) for k, v in M1.values_for(ts) if M1.allowed(ts, "lit", k, v)]
    if tier == "quick":
        keep = M1.QUICK_SHAPES[ts["family"]]
        vals = [(k, v) for k, v in vals if k in keep]
    out = [S("create_table", f"create table T (ID int, V {ts['sql']})", cls=cls + ",create")]
    allv = []
    for n, (shape, v) in enumerate(vals):
        b = 10 * n + 1
        rows = [(b, v), (b + 1, None), (b + 2, v)]
        sql, _ = M1.build_insert(ts, "T", rows, "lit")
        vc = _vclass(ts, v)
        allv.append(vc)
        out.append(S(f"insert[{shape}]", sql, cls=cls + ",insert", vclass=vc))
        out.append(S(f"value_null_value[{shape}]", f"select V from T where ID between {b} and {b + 2} order by ID", cls=cls + ",select", vclass=vc))
        out.append(S(f"one_row[{shape}]", f"select ID, V from T where ID = {b}", cls=cls + ",select", vclass=vc))
    out.append(S("all_rows", "select ID, V from T order by ID", cls=cls + ",select", vclass=_join_vclass(allv)))
    out.append(S("nulls_only", "select ID, V from T where V is null order by ID", cls=cls + ",select", vclass="null"))
    out.append(S("empty_result", "select ID, V from T where 1 = 0", cls=cls + ",select", vclass="empty"))
    out.append(S("null_cast", f"select NULL::{ts['sql']} as V", cls=cls + ",select", vclass="null"))
    out.append(S("counts", "select count(*) as N, count(V) as NV from T", cls=cls + ",select", vclass="count"))
    return out


# ---- fraction groups --------------------------------------------------------------------------------------------------

FRAC_BASES = [
    ("y2020", dt.datetime(2020, 1, 1, 0, 0, 0)),
    ("epoch", dt.datetime(1970, 1, 1, 0, 0, 0)),
    ("last_second_before_epoch", dt.datetime(1969, 12, 31, 23, 59, 59)),
    ("y1960_leap_day", dt.datetime(1960, 2, 29, 12, 0, 0)),
    ("y1900", dt.datetime(1900, 1, 1, 0, 0, 0)),
    ("year1", dt.datetime(1, 1, 1, 0, 0, 0)),
    ("year9999_last_second", dt.datetime(9999, 12, 31, 23, 59, 59)),
]
# microsecond fractions: every class (zero / exactly / not exactly scalable in binary floating point), both ends
FRACS_QUICK = [0, 1, 64, 65, 123, 1000, 100000, 123456, 500000, 999000, 999999]
FRACS_THOROUGH = FRACS_QUICK + [2, 10, 100, 129, 130, 131, 246, 249, 999, 10000, 250000, 333333, 654321, 750000, 900000, 999998]
QUICK_BASES = ("y2020", "epoch", "last_second_before_epoch", "y1960_leap_day", "year1", "year9999_last_second")
SWEEP_BASES = [("y2020", dt.datetime(2020, 1, 1, 0, 0, 0)), ("last_second_before_epoch", dt.datetime(1969, 12, 31, 23, 59, 59))]
SWEEP_N = {"quick": 4096, "thorough": 1_000_000}

FRAC_FAMILIES = {"ntz": "TIMESTAMP_NTZ", "tz": "TIMESTAMP_TZ"}


def frac_stream(fam, base_label, tier):
    ts = M1.TYPE_BY_NAME[FRAC_FAMILIES[fam]]
    cls = f"type={M1.tgroup(ts)}"
    fracs = FRACS_QUICK if tier == "quick" else FRACS_THOROUGH
    out = [S("create_table", f"create table FR (ID int, V {ts['sql']})", cls=cls + ",create")]
    n = 0
    for bl, base in FRAC_BASES:
        if bl != base_label:
            continue
        for us in fracs:
            v = base.replace(microsecond=us)
            if fam == "tz":
                v = v.replace(tzinfo=dt.timezone.utc)
            b = 10 * n + 1
            n += 1
            sql, _ = M1.build_insert(ts, "FR", [(b, v), (b + 1, None), (b + 2, v)], "lit")
            vc = _vclass(ts, v)
            out.append(S(f"insert[{bl},{us}us]", sql, cls=cls + ",insert", vclass=vc))
            out.append(S(f"value_null_value[{bl},{us}us]", f"select V from FR where ID between {b} and {b + 2} order by ID", cls=cls + ",select", vclass=vc))
            out.append(S(f"literal[{bl},{us}us]", f"select {M1.sql_literal(ts, v)}::{ts['sql']} as V", cls=cls + ",select", vclass=vc))
    return out


def sweep_sets(n):
    exact = [i for i in range(n) if M.frac_class(i) != "binary_inexact"]
    inexact = [i for i in range(n) if M.frac_class(i) == "binary_inexact"]
    return exact, inexact


# ---- statement kinds ----------------------------------------------------------------------------------------------------

K_DDL = [
    S("create_table", "create table T1 (A int, B varchar)"),
    S("create_table_if_not_exists", "create table if not exists T1 (A int)"),
    S("create_or_replace_table", "create or replace table T2 (X number(10,2), Y timestamp_ntz)"),
    S("ctas", "create table T3 as select 1 as A, 'x' as B"),
    S("clone", "create table T4 clone T1"),
    S("create_view", "create view V1 as select A from T1"),
    S("create_or_replace_view", "create or replace view V1 as select A, B from T1"),
    S("create_schema", "create schema SX"),
    S("create_schema_if_not_exists", "create schema if not exists SX"),
    S("create_database", "create database DBX"),
    S("alter_add_column", "alter table T1 add column C int"),
    S("alter_rename", "alter table T1 rename to T1R"),
    S("alter_drop_column", "alter table T1R drop column C"),
    S("comment_on", "comment on table T1R is 'c'"),
    S("alter_set_comment", "alter table T1R set comment = 'c2'"),
    S("create_table_with_comments", "create table TC (A int comment 'x', B varchar(10)) comment = 'tc'"),
    S("create_temporary_table", "create temporary table TT (A int)"),
    S("create_transient_table", "create transient table TR (A int)"),
    S("truncate", "truncate table T3"),
    S("select_after_ddl", "select A, B from T3 order by A"),
    S("drop_view", "drop view V1"),
    S("drop_table", "drop table T2"),
    S("drop_table_if_exists", "drop table if exists NOPE"),
    S("drop_schema", "drop schema SX"),
    S("drop_database", "drop database DBX"),
]

K_DML = [
    S("create_table", "create table T (A int, B varchar)"),
    S("insert_1", "insert into T values (1, 'x')"),
    S("insert_n", "insert into T values (2, 'y'), (3, null)"),
    S("insert_columns", "insert into T (B, A) values ('z', 4)"),
    S("insert_select", "insert into T select A + 10, B from T"),
    S("insert_select_0", "insert into T select A, B from T where 1 = 0"),
    S("update_1", "update T set B = 'u' where A = 1"),
    S("update_0", "update T set B = 'none' where A = 99"),
    S("update_n", "update T set B = B || '!'"),
    S("delete_0", "delete from T where A = 99"),
    S("delete_n", "delete from T where A > 10"),
    S("select_n", "select A, B from T order by A"),
    S("select_1", "select A, B from T where A = 1"),
    S("select_0", "select A, B from T where A = 99"),
    S("merge", "merge into T using (select 1 as A, 'm' as B union all select 50, 'n') S on T.A = S.A "
               "when matched then update set B = S.B when not matched then insert (A, B) values (S.A, S.B)"),
    S("select_after_merge", "select A, B from T order by A"),
    S("truncate", "truncate table T"),
    S("delete_all_of_none", "delete from T"),
    S("select_empty", "select A, B from T"),
]

K_USE = [
    S("create_schema", "create schema S2"),
    S("create_database", "create database DB2"),
    S("create_schema_qualified", "create schema DB2.SA"),
    S("use_schema", "use schema S2"),
    S("current_context", "select current_database(), current_schema()"),
    S("create_table_in_new_schema", "create table U (A int)"),
    S("use_schema_qualified", "use schema DB1.S1"),
    S("select_other_schema_unqualified", "select * from U"),
    S("use_database", "use database DB2"),
    S("current_context", "select current_database(), current_schema()"),
    S("use_schema_after_use_database", "use schema SA"),
    S("current_context", "select current_database(), current_schema()"),
    S("use_bare", "use DB1"),
    S("use_schema_back", "use schema DB1.S1"),
    S("current_context", "select current_database(), current_schema()"),
    S("use_role", "use role X"),
    S("use_warehouse", "use warehouse W"),
]

K_TX = [
    S("create_table", "create table T (A int)"),
    S("begin", "begin"),
    S("insert_in_tx", "insert into T values (1)"),
    S("rollback", "rollback"),
    S("count_after_rollback", "select count(*) as N from T"),
    S("begin_transaction", "begin transaction"),
    S("insert_in_tx", "insert into T values (2)"),
    S("commit", "commit"),
    S("select_after_commit", "select A from T order by A"),
    S("commit_outside_tx", "commit"),
    S("rollback_outside_tx", "rollback"),
    S("start_transaction", "start transaction"),
    S("begin_again", "begin"),
    S("begin_inside_tx", "begin"),
    S("rollback_final", "rollback"),
]

K_SET = [
    S("set_int", "set V = 1"),
    S("use_var", "select $V"),
    S("set_text", "set S = 'text'"),
    S("use_var", "select $S"),
    S("use_var_in_expr", "select $S || 'x' as C, $V + 1 as N"),
    S("set_expr", "set E = 1 + 1"),
    S("use_var_in_expr", "select $E * 2 as N"),
    S("unset", "unset V"),
    S("use_unset_var", "select $V"),
    S("use_undefined_var", "select $NOPE"),
    S("set_multi", "set (A, B) = (1, 2)"),
]

K_SHOW = [
    S("create_table", "create table T (A int primary key, B varchar(10), C timestamp_ntz)"),
    S("create_view", "create view VW as select A from T"),
    S("show_tables", "show tables"),
    S("show_terse_tables", "show terse tables"),
    S("show_tables_like", "show tables like 'T%'"),
    S("show_tables_in_schema", "show tables in schema DB1.S1"),
    S("show_tables_in_database", "show tables in database DB1"),
    S("show_schemas", "show schemas"),
    S("show_terse_schemas", "show terse schemas"),
    S("show_databases", "show databases"),
    S("show_objects", "show objects"),
    S("show_terse_objects", "show terse objects"),
    S("show_views", "show views"),
    S("show_columns", "show columns"),
    S("show_primary_keys", "show primary keys"),
    S("show_unique_keys", "show unique keys"),
    S("show_imported_keys", "show imported keys"),
    S("show_users", "show users"),
    S("show_variables", "show variables"),
    S("describe_table", "describe table T"),
    S("desc_table", "desc table T"),
    S("describe_view", "describe view VW"),
    S("info_schema_tables", "select table_name, table_type from information_schema.tables where table_schema = 'S1' order by table_name"),
    S("info_schema_columns", "select column_name, data_type, is_nullable from information_schema.columns where table_name = 'T' order by ordinal_position"),
]

_WIDE = ", ".join(f"{i} as C{i}" for i in range(1, 51))
K_EXPR = [
    S("create_table", "create table T (A int, B varchar, F float, D number(10,2), DT date, TS timestamp_ntz)"),
    S("insert", "insert into T values (1, 'x', 1.5, 1.25, '2020-01-02', '2020-01-02 03:04:05.678'), "
                "(2, 'y', 2.5, 2.50, '1969-12-31', '1969-12-31 23:59:59.5'), (3, null, null, null, null, '2001-01-01 00:00:00')"),
    S("literal_int", "select 1"),
    S("literal_mixed", "select 1, 'a', 1.5, 1.5::float, true, null"),
    S("arithmetic", "select 1 + 1 as S, 1.5 * 2 as P, 10 / 4 as Q, 7 % 3 as R"),
    S("concat", "select 'a' || 'b' as C"),
    S("aggregate_count_min_max_avg", "select count(*) as N, min(A) as MN, max(B) as MX, avg(F) as AV from T"),
    S("aggregate_sum_int", "select sum(A) as S from T"),
    S("aggregate_sum_cast", "select sum(A)::int as S from T"),
    S("aggregate_sum_decimal", "select sum(D) as S from T"),
    S("aggregate_sum_float", "select sum(F) as S from T"),
    S("group_by", "select B, count(*) as N from T group by B order by B"),
    S("window", "select A, row_number() over (order by A) as RN from T order by A"),
    S("case", "select case when A > 1 then 'big' else 'small' end as C from T order by A"),
    S("casts", "select A::varchar as V, A::float as F, A::number(10,2) as D from T order by A"),
    S("null_literal", "select NULL"),
    S("null_every_type", "select null::int, null::varchar, null::float, null::boolean, null::date, null::time, "
                         "null::timestamp_ntz, null::timestamp_tz, null::number(10,2), null::variant, null::binary"),
    S("column_names", 'select 1 as "lower", 2 as UPPER, 3 as "with space", 4 as "é❄"'),
    S("repeated_names", "select 1 as A, 2 as A"),
    S("values_clause", "select * from (values (1, 'a'), (2, null))", ordered=True),
    S("booleans", "select true as T, false as F, not true as N, 1 = 1 as E, 'x' like 'x%' as L"),
    S("temporal_functions", "select to_date('2020-01-02') as D, to_time('01:02:03') as T, "
                            "to_timestamp_ntz('2020-01-02 03:04:05.678') as N, to_timestamp_tz('2020-01-02 03:04:05.678') as Z"),
    S("time_edges", "select '00:00:00'::time as A, '00:00:00.000001'::time as B, '12:34:56.5'::time as C, '23:59:59.999999'::time as D"),
    S("time_null_rows", "select * from (values ('23:59:59.999999'::time), (null), ('00:00:00.000001'::time))", ordered=True),
    S("timestamp_tz_offset", "select '2020-01-01 00:00:00 +05:30'::timestamp_tz as Z"),
    S("timestamp_nanos", "select to_timestamp_ntz('2020-01-01 00:00:00.123456789') as N"),
    S("dateadd_datediff", "select dateadd(day, 1, '2020-01-01'::date) as D, datediff(day, '2020-01-01'::date, '2020-03-01'::date) as N"),
    S("float_specials", "select 'nan'::float as N, 'inf'::float as I, '-inf'::float as M, 5e-324::float as D, 1.7976931348623157e308::float as X"),
    S("decimal_edges", "select 99999999999999999999999999999999999999::number(38,0) as A, -1.5::number(38,37) as B, 12345678.91::number(10,2) as C"),
    S("int_edges", "select 9223372036854775807 as A, -9223372036854775808 as B"),
    S("string_functions", "select upper('x') as U, length('héllo') as L, trim(' a ') as T"),
    S("unicode", "select 'héllo ❄ 𝒳' as S, '' as E, ' ' as SP"),
    S("long_string", "select repeat('x', 100000) as S"),
    S("wide_result", "select " + _WIDE),
    S("hash_functions", "select sha2('a') as S, md5('a') as M"),
    S("binary", "select x'4142' as X, to_binary('4142', 'hex') as B, sha2_binary('a') as H"),
    S("limit", "select A from T order by A limit 2"),
    S("distinct", "select distinct B from T order by B"),
    S("union_all", "select A from T union all select A from T order by A"),
    S("cte", "with C as (select A from T where A > 1) select A from C order by A"),
    S("subquery", "select A from T where A in (select max(A) from T)"),
    S("join", "select X.A, Y.B from T X join T Y on X.A = Y.A order by X.A"),
    S("division_by_zero", "select 1 / 0 as Q"),
    S("date_edges", "select '0001-01-01'::date as A, '1969-12-31'::date as B, '9999-12-31'::date as C"),
    S("parse_json", "select parse_json('{\"a\":1}') as J"),
    S("json_path", "select parse_json('{\"a\":{\"b\":2}}'):a.b as P"),
    S("object_construct", "select object_construct('a', 1) as O"),
    S("object_literal", "select {'a': 1} as O"),
    S("array_construct", "select array_construct(1, 2) as A"),
    S("array_literal", "select [1, 2] as A"),
    S("variant_null_rows", "select parse_json(column1) as J from (values ('{\"a\":1}'), (null), ('[1,2]'))", ordered=True),
    S("cast_error", "select 'abc'::int"),
    S("two_statements", "select 1; select 2"),
]

K_FAIL = [
    S("create_table", "create table T (A int, B varchar)"),
    S("create_view", "create view VW as select A from T"),
    S("create_schema", "create schema S2"),
    S("unknown_table_select", "select * from NOPE"),
    S("unknown_table_select_qualified", "select * from DB1.S1.NOPE"),
    S("unknown_table_join", "select * from T X join NOPE Y on X.A = Y.A"),
    S("unknown_table_subquery", "select * from T where A in (select A from NOPE)"),
    S("unknown_table_cte", "with C as (select * from NOPE) select * from C"),
    S("unknown_table_ctas", "create table X as select * from NOPE"),
    S("unknown_table_view_body", "create view X as select * from NOPE"),
    S("unknown_table_insert", "insert into NOPE values (1)"),
    S("unknown_table_update", "update NOPE set A = 1"),
    S("unknown_table_delete", "delete from NOPE"),
    S("unknown_table_truncate", "truncate table NOPE"),
    S("unknown_table_drop", "drop table NOPE"),
    S("unknown_view_drop", "drop view NOPE"),
    S("unknown_table_alter", "alter table NOPE add column C int"),
    S("unknown_table_comment", "comment on table NOPE is 'c'"),
    S("unknown_table_clone", "create table X clone NOPE"),
    S("unknown_table_describe", "describe table NOPE"),
    S("unknown_table_merge", "merge into NOPE using T on NOPE.A = T.A when matched then update set NOPE.A = 1"),
    S("unknown_column_select", "select ZZ from T"),
    S("unknown_column_where", "select A from T where ZZ = 1"),
    S("unknown_column_update", "update T set ZZ = 1"),
    S("unknown_column_insert", "insert into T (ZZ) values (1)"),
    S("unknown_function", "select nofunc(1)"),
    S("unknown_schema_select", "select * from NOS.T"),
    S("unknown_database_select", "select * from NODB.S1.T"),
    S("unknown_schema_create", "create table NOS.X (A int)"),
    S("unknown_database_create_schema", "create schema NODB.SX"),
    S("use_missing_schema", "use schema NOS"),
    S("use_missing_database", "use database NODB"),
    S("drop_missing_schema", "drop schema NOS"),
    S("exists_table", "create table T (A int)"),
    S("exists_view", "create view VW as select 1 as A"),
    S("exists_schema", "create schema S2"),
    S("exists_database", "create database DB1"),
    S("too_few_values", "insert into T values (1)"),
    S("too_many_values", "insert into T values (1, 'a', 3)"),
    S("undefined_variable", "select $UNDEFINED_VAR"),
    S("syntax_error", "selec 1"),
    S("syntax_error_incomplete", "select 1 +"),
    S("still_usable", "select A, B from T"),
    S("insert_after_failures", "insert into T values (1, 'ok')"),
    S("select_after_failures", "select A, B from T"),
]

K_NOCTX = [
    S("current_context", "select current_database(), current_schema()"),
    S("literal", "select 1"),
    S("create_table_unqualified", "create table X (A int)"),
    S("select_unqualified", "select * from X"),
    S("create_table_schema_qualified", "create table S1.X (A int)"),
    S("create_table_fully_qualified", "create table DB1.S1.X (A int)"),
    S("select_fully_qualified", "select * from DB1.S1.X"),
    S("use_database", "use database DB1"),
    S("use_schema", "use schema S1"),
    S("current_context", "select current_database(), current_schema()"),
    S("create_table_after_use", "create table Y (A int)"),
    S("select_after_use", "select * from Y"),
]

ROWCOUNTS_QUICK = [0, 1, 2, 2047, 2048, 2049, 5000]
ROWCOUNTS_THOROUGH = ROWCOUNTS_QUICK + [3, 1000, 4096, 4097, 122880, 122881, 300000, 1000000]
ARROW_BATCH_ROWS = 1_000_000  # DuckDB hands its result to Arrow in record batches of this many rows
ROWCOUNT_MULTI_BATCH = ARROW_BATCH_ROWS + 1


def rows_stream(tier):
    out = []
    for n in ROWCOUNTS_QUICK if tier == "quick" else ROWCOUNTS_THOROUGH:
        out.append(S(f"rows[{n}]", f"select range as I, range::varchar as S from range({n}) order by I", cls="stmt=n_rows", vclass="one_arrow_batch"))
    n = ROWCOUNT_MULTI_BATCH
    if tier != "quick":
        out.append(S(f"rows[{n}]", f"select range as I from range({n}) order by I", cls="stmt=n_rows", vclass="more_than_one_arrow_batch"))
    out.append(S(f"rows_with_timestamp[{n}]", f"select range as I, '2020-01-01 00:00:00.5'::timestamp_ntz as T from range({n}) order by I",
                 cls="stmt=n_rows", vclass="more_than_one_arrow_batch"))
    return out


# ---- the character-identical query text in different contexts of ONE server lifetime ----------------------------------
# The result type of a statement text is not a function of the text: it depends on the catalog at execution time, on
# the session's current database / schema, on its variables and on the instance the session lives in.  Everything a
# server keeps per statement text (descriptions, arrow metadata, plans) is therefore only visible when the identical
# text is answered twice, with different result types, without a server restart in between.

# one representative per type family (c01_model family), written as the column type
RETYPE_TYPES = ["BOOLEAN", "NUMBER(38,0)", "NUMBER(10,2)", "NUMBER(38,37)", "FLOAT", "VARCHAR", "DATE", "TIME",
                "TIMESTAMP_NTZ", "TIMESTAMP_TZ", "BINARY", "VARIANT"]
SAME_TEXT_QUERIES = [
    ("named_columns", "select ID, V from R order by ID"),
    ("star", "select * from R order by ID"),
    ("one_row", "select V from R where ID = 1"),
]


def _retype_version(type_sql, tag, tier="thorough"):
    """CREATE OR REPLACE TABLE R (ID, V <type>) + (value, NULL, value) + the fixed query texts."""
    ts = M1.TYPE_BY_NAME[type_sql]
    keep = M1.QUICK_SHAPES[ts["family"]]
    vals = [(k, v) for k, v in M1.values_for(ts) if k in keep and k != "json_null" and M1.allowed(ts, "lit", k, v)][:2]
    rows = [(1, vals[0][1]), (2, None), (3, vals[-1][1])]
    sql, _ = M1.build_insert(ts, "R", rows, "lit")
    cls = "stmt=same_text_after_retype"
    out = [S(f"replace_table[{tag}]", f"create or replace table R (ID int, V {type_sql})", cls=cls + ",ddl"),
           S(f"insert[{tag}]", sql, cls=cls + ",insert")]
    queries = SAME_TEXT_QUERIES[:2] if tier == "quick" else SAME_TEXT_QUERIES
    out += [S(f"{ql}[{tag}]", q, cls=cls + ",select") for ql, q in queries]
    return out


def retype_stream(a, b, tier):
    """a, b, a: the pair of type families is crossed in both directions between executions of the identical texts."""
    return _retype_version(a, f"->{a}", tier) + _retype_version(b, f"{a}->{b}", tier) + _retype_version(a, f"{b}->{a}", tier)


RETYPE_PAIRS = [(a, b) for i, a in enumerate(RETYPE_TYPES) for b in RETYPE_TYPES[i + 1:]]  # every unordered pair

_Q_STAR, _Q_NAMED = "select * from R order by ID", "select ID, V from R order by ID"


def _q(tag, cls="stmt=same_text_after_reshape,select"):
    return [S(f"star[{tag}]", _Q_STAR, cls=cls), S(f"named_columns[{tag}]", _Q_NAMED, cls=cls)]


K_RESHAPE = (
    [S("create_table", "create or replace table R (ID int, V number(10,2))", cls="stmt=same_text_after_reshape,ddl"),
     S("insert", "insert into R values (1, 12.34), (2, NULL), (3, 56.78)", cls="stmt=same_text_after_reshape,dml")]
    + _q("2 columns")
    + [S("alter_add_column", "alter table R add column W varchar", cls="stmt=same_text_after_reshape,ddl"),
       S("update", "update R set W = 'x' where ID <> 2", cls="stmt=same_text_after_reshape,dml")]
    + _q("after ADD COLUMN")
    + [S("alter_drop_column", "alter table R drop column V", cls="stmt=same_text_after_reshape,ddl"),
       S("star[after DROP COLUMN]", _Q_STAR, cls="stmt=same_text_after_reshape,select"),
       S("alter_rename_column", "alter table R rename column W to V", cls="stmt=same_text_after_reshape,ddl")]
    + _q("after RENAME COLUMN: V is text now")
    + [S("replace_table_4_columns", "create or replace table R (ID int, V date, W varchar, X float)", cls="stmt=same_text_after_reshape,ddl"),
       S("insert_4_columns", "insert into R values (1, '2020-01-02', 'a', 1.5), (2, NULL, NULL, NULL)", cls="stmt=same_text_after_reshape,dml")]
    + _q("4 columns")
    + [S("drop_table", "drop table R", cls="stmt=same_text_after_reshape,ddl"),
       S("star[dropped]", _Q_STAR, cls="stmt=same_text_after_reshape,select"),
       S("create_table_1_column", "create table R (ID timestamp_ntz)", cls="stmt=same_text_after_reshape,ddl"),
       S("insert_1_column", "insert into R values ('1969-12-31 23:59:59.5'), (NULL)", cls="stmt=same_text_after_reshape,dml"),
       S("star[1 column]", _Q_STAR, cls="stmt=same_text_after_reshape,select"),
       S("named_columns[V missing]", _Q_NAMED, cls="stmt=same_text_after_reshape,select"),
       # views: the same text over a replaced view
       S("create_base", "create or replace table B (ID int, A number(10,2), D date, T varchar)", cls="stmt=same_text_after_reshape,ddl"),
       S("insert_base", "insert into B values (1, 1.25, '2020-01-02', 't'), (2, NULL, NULL, NULL)", cls="stmt=same_text_after_reshape,dml"),
       S("create_view", "create or replace view VW as select ID, A as V from B", cls="stmt=same_text_after_reshape,ddl"),
       S("view[number]", "select * from VW order by ID", cls="stmt=same_text_after_reshape,select"),
       S("replace_view", "create or replace view VW as select ID, D as V, T from B", cls="stmt=same_text_after_reshape,ddl"),
       S("view[date, 3 columns]", "select * from VW order by ID", cls="stmt=same_text_after_reshape,select"),
       S("replace_view", "create or replace view VW as select T as V from B", cls="stmt=same_text_after_reshape,ddl"),
       S("view[text, 1 column]", "select * from VW order by 1", cls="stmt=same_text_after_reshape,select"),
       # session variables: the same client text, another value type
       S("set_number", "set X = 1", cls="stmt=same_text_after_reshape,set"),
       S("var[number]", "select $X as X", cls="stmt=same_text_after_reshape,select"),
       S("set_text", "set X = 'a'", cls="stmt=same_text_after_reshape,set"),
       S("var[text]", "select $X as X", cls="stmt=same_text_after_reshape,select"),
       S("set_fraction", "set X = 1.25", cls="stmt=same_text_after_reshape,set"),
       S("var[fraction]", "select $X as X", cls="stmt=same_text_after_reshape,select"),
       # DML status rows and metadata statements repeated around the changes
       S("describe[1 column]", "describe table R", cls="stmt=same_text_after_reshape,select"),
       S("replace_table_again", "create or replace table R (ID int, V binary)", cls="stmt=same_text_after_reshape,ddl"),
       S("describe[2 columns]", "describe table R", cls="stmt=same_text_after_reshape,select")]
    + _q("binary")
)

# several sessions of one instance, in different schemas / databases, holding same-named tables of different types and
# column counts; (connection index, ...)
CONTEXT_CONNS = [("shared", "DB1", "S1"), ("shared", "DB1", "S2"), ("shared", "DB2", "S1")]
INSTANCE_CONNS = [("shared", "DB1", "S1"), ("isolated", "DB1", "S1"), ("path", "DB1", "S1"), ("shared", "DB1", "S1")]
_SAME_DEFS = [
    ("(ID int, V number(10,2))", "(1, 12.34), (2, NULL)"),
    ("(ID int, V date, W varchar)", "(1, '2020-01-02', 'w'), (2, NULL, NULL)"),
    ("(V float)", "(1.5), (NULL)"),
]
_SAME_QUERIES = [
    ("star", "select * from SAME order by 1"),
    ("column_v", "select V from SAME order by 1"),
    ("aggregate", "select count(*) as N, max(V) as M from SAME"),
]


def C(c, st):
    return dict(st, c=c)


def _same_setup(cls, writers):
    out = []
    for c, (cols, vals) in zip(writers, _SAME_DEFS):
        out.append(C(c, S(f"create_same[conn {c}]", f"create table SAME {cols}", cls=cls + ",ddl")))
        out.append(C(c, S(f"insert_same[conn {c}]", f"insert into SAME values {vals}", cls=cls + ",dml")))
    return out


def _same_rounds(cls, order):
    out = []
    for ql, q in _SAME_QUERIES:
        for c in order:
            out.append(C(c, S(f"{ql}[conn {c}]", q, cls=cls + ",select")))
    return out


def contexts_stream():
    cls = "stmt=same_text_other_session_context"
    out = _same_setup(cls, [0, 1, 2]) + _same_rounds(cls, [0, 1, 2, 0, 2, 1])
    # one session walking through the contexts, the same text after every USE
    for lab, use in [("use_schema", "use schema S2"), ("use_schema_qualified", "use schema DB2.S1"), ("use_database", "use database DB1"),
                     ("use_schema_after_use_database", "use schema S1")]:
        out.append(C(0, S(lab, use, cls=cls + ",use")))
        out += [C(0, S(f"{ql}[conn 0 after {lab}]", q, cls=cls + ",select")) for ql, q in _SAME_QUERIES[:2]]
    return out


def instances_stream():
    cls = "stmt=same_text_other_instance"
    # connection 3 is a second token of the shared instance: it reads what connection 0 wrote
    return _same_setup(cls, [0, 1, 2]) + _same_rounds(cls, [0, 1, 2, 3, 1, 0, 2, 3])


KIND_STREAMS = {
    "ddl": K_DDL, "dml": K_DML, "use": K_USE, "tx": K_TX, "set": K_SET, "show": K_SHOW, "expr": K_EXPR, "fail": K_FAIL,
}

# login variants: (label, database, schema)
LOGINS = [
    ("db_and_schema", "DB1", "S1"),
    ("lower_case", "db1", "s1"),
    ("db_only", "DB1", None),
    ("none", None, None),
    ("new_names", "NEWDB", "NEWS"),
]
INSTANCE_KINDS = ("shared", "isolated", "path")


def part_a_items(tier):
    # two light groups first (core re-runs the first items in the parent for its determinism proof), then the heavy
    # ones (million-row results), so that those do not form the tail of the pool's work
    items = [("kind", "set"), ("kind", "tx"), ("rows",)]
    items += [("sweep", fam, bl, cl) for fam in FRAC_FAMILIES for bl, _ in SWEEP_BASES for cl in ("exact", "inexact")]
    items += [("kind", k) for k in KIND_STREAMS if k not in ("set", "tx")]
    items += [("type", ts["sql"]) for ts in M1.TYPES]
    items += [("frac", fam, bl) for fam in FRAC_FAMILIES for bl, _ in FRAC_BASES if tier != "quick" or bl in QUICK_BASES]
    items += [("login", lab) for lab, _, _ in LOGINS]
    items += [("instance", k) for k in INSTANCE_KINDS]
    items += [("retype", a, b) for a, b in RETYPE_PAIRS]
    items += [("reshape",), ("contexts",), ("instances",)]
    return items


# ======================================================================================================================
# (a) judge


def _rc_bucket(n):
    if n is None:
        return "None"
    return "0" if n == 0 else ("1" if n == 1 else ">1")


def _col_types(oi, ncols):
    if oi["desc"] is not None and len(oi["desc"]) == ncols:
        return [_type_name(d[1]) for d in oi["desc"]]
    return ["?"] * ncols


def judge(st, oi, oh, statuses, acc, rp):
    """Compare the in-process observation oi with the HTTP observation oh of statement st."""
    cls = st["cls"]
    acc.count("evaluations")
    acc.count("statements_compared")
    # ---- C17.no_500 --------------------------------------------------------------------------------------------------
    s500 = [s for s in statuses if s[1] >= 500]
    if oi["exec"] == "err" and not _is_sf_error(oi["err"]):
        k500 = "inproc_execute=non_snowflake_exception"
    elif oi["exec"] == "err":
        k500 = f"inproc_execute=snowflake_error,{cls}"
    elif oi["desc_err"] is not None:
        k500 = "inproc_description=raises"
    else:
        k500 = f"inproc=ok,{cls},value={st['vclass']}"
    acc.member("C17.no_500", k500, bool(s500))
    if s500:
        acc.violation("C17.no_500", k500, {"sql": st["sql"][:300], "statuses": statuses, "inproc": _brief(oi), "http": _brief(oh)}, rp)
        acc.outcome(("500", k500))
        return
    if oi["exec"] == "err" and not _is_sf_error(oi["err"]):
        # the in-process fake raised an engine / parser exception (C07's business) and the server did NOT answer 500:
        # whatever it answered instead cannot be "the same error"
        pass
    # ---- outcome -----------------------------------------------------------------------------------------------------
    if oi["exec"] != oh["exec"]:
        k = f"{cls},inproc={oi['exec']},http={oh['exec']}"
        if oi["exec"] == "ok" and oi["desc_err"] is not None:
            k = f"inproc_description=raises,inproc={oi['exec']},http={oh['exec']}"
        acc.violation("C17.outcome", k, {"sql": st["sql"][:300], "inproc": _brief(oi), "http": _brief(oh)}, rp)
        acc.outcome(("outcome", oi["exec"], oh["exec"]))
        return
    if oi["exec"] == "err":
        acc.nontrivial(("err", st["sql"]))
        diff = M.cmp_error(oi["err"], oh["err"])
        acc.outcome(("err", oi["err"][0], oi["err"][1], oi["err"][2], bool(diff)))
        if diff:
            acc.violation("C17.error", f"{cls},diff={'+'.join(diff)}", {"sql": st["sql"][:300], "inproc": oi["err"], "http": oh["err"]}, rp)
        return
    # ---- both succeeded ------------------------------------------------------------------------------------------------
    cts = "+".join(sorted({_type_name(d[1]) for d in oi["desc"]})) if oi["desc"] else "?"
    acc.member("C17.rows", f"cols={cts},fetch_raises=http", bool(oh["fetch_err"]) and not oi["fetch_err"])
    if oi["fetch_err"] or oh["fetch_err"]:
        # fetchall() itself raised on one side: keyed by the column types of the result (in-process description)
        if bool(oi["fetch_err"]) != bool(oh["fetch_err"]) or M.cmp_error(oi["fetch_err"], oh["fetch_err"]):
            side = "both" if oi["fetch_err"] and oh["fetch_err"] else ("inproc" if oi["fetch_err"] else "http")
            acc.violation("C17.rows", f"cols={cts},fetch_raises={side}", {"sql": st["sql"][:300], "inproc": oi["fetch_err"] or _brief(oi), "http": oh["fetch_err"] or _brief(oh)}, rp)
        return
    ri, rh = oi["rows"], oh["rows"]
    if ri:
        acc.nontrivial(("rows", st["sql"]))
    ncols = len(ri[0]) if ri else (len(oi["desc"]) if oi["desc"] else 0)
    ctypes = _col_types(oi, ncols)
    findings = M.cmp_rows(ri, rh, st["ordered"])
    # membership (homogeneity audit) of the NULL cells and of the typed cells, per column
    if not st["ordered"]:
        ri_s = sorted(ri, key=M.row_key)
    else:
        ri_s = ri
    # per column: which in-process Python types occur, which of them have a cell that differs
    seen_null, bad_null = set(), set()
    seen_typed, bad_type, bad_value = set(), set(), set()  # (column, in-process python type)
    for r in ri_s:
        for j, v in enumerate(r):
            if v is None:
                seen_null.add(j)
            else:
                seen_typed.add((j, M.pytype_name(v)))
    structural = []
    for f in findings:
        if f[0] == "cell":
            _, i, j, bad = f
            v = ri_s[i][j]
            if "null" in bad:
                # NULL on one side only: keyed by the side that is NULL in-process / not NULL in-process
                bad_null.add((j, "null" if v is None else "value"))
            if "pytype" in bad:
                bad_type.add((j, M.pytype_name(v)))
            if "value" in bad:
                bad_value.add((j, M.pytype_name(v)))
        else:
            structural.append(f)

    def ct(j):
        return ctypes[j] if j < len(ctypes) else "?"

    for j in sorted(seen_null):
        acc.member("C17.rows", f"col={ct(j)},cell=null", (j, "null") in bad_null)
    for j, pt in sorted(seen_typed):
        acc.member("C17.pytype", f"col={ct(j)},inproc={pt}", (j, pt) in bad_type)
        acc.member("C17.rows", f"col={ct(j)},inproc={pt}", (j, pt) in bad_value or (j, "value") in bad_null)
    detail = {"sql": st["sql"][:300], "inproc_rows": ri[:6], "http_rows": rh[:6], "findings": [list(map(str, f)) for f in findings[:6]]}
    for f in structural:
        acc.violation("C17.rows", f"{cls},{f[0]}", detail, rp)
    for j, what in sorted(bad_null):
        if what == "null":
            acc.violation("C17.rows", f"col={ct(j)},cell=null", detail, rp)
    for j, pt in sorted(bad_value | {(j, M.pytype_name(ri_s[i][j])) for f in findings if f[0] == "cell" for _, i, j, b in [f] if "null" in b and ri_s[i][j] is not None}):
        acc.violation("C17.rows", f"col={ct(j)},inproc={pt}", detail, rp)
    for j, pt in sorted(bad_type):
        acc.violation("C17.pytype", f"col={ct(j)},inproc={pt}", detail, rp)
    # ---- rowcount ------------------------------------------------------------------------------------------------------
    b = _rc_bucket(oi["rowcount"])
    rc_bad = oi["rowcount"] != oh["rowcount"] or type(oi["rowcount"]) is not type(oh["rowcount"])
    acc.member("C17.rowcount", f"inproc={b}", rc_bad)
    if rc_bad:
        acc.violation("C17.rowcount", f"inproc={b}", {"sql": st["sql"][:300], "inproc": oi["rowcount"], "http": oh["rowcount"]}, rp)
    # ---- description ---------------------------------------------------------------------------------------------------
    if oi["desc_err"] is None:
        if oi["desc"] is None or oh["desc"] is None:
            if oi["desc"] != oh["desc"]:
                acc.violation("C17.description", f"{cls},none", {"sql": st["sql"][:300], "inproc": oi["desc"], "http": oh["desc"]}, rp)
        else:
            for f in M.cmp_description(oi["desc"], oh["desc"]):
                k = "count" if f[0] == "count" else f"col={_type_name(oi['desc'][f[1]][1])},field={f[2]}"
                acc.violation("C17.description", k, {"sql": st["sql"][:300], "inproc": oi["desc"], "http": oh["desc"]}, rp)
    acc.outcome(("ok", len(ri), tuple(ctypes)[:12], bool(findings), rc_bad))


def _brief(o):
    if o["exec"] == "err":
        return {"raises": o["err"]}
    return {"rows": (o["rows"] or [])[:4], "nrows": None if o["rows"] is None else len(o["rows"]), "rowcount": o["rowcount"],
            "description": "raises " + str(o["desc_err"][0]) if o["desc_err"] else "ok"}


# ======================================================================================================================
# (a) execution


def _obs_repr(o):
    return (o["exec"], o["err"], None if o["rows"] is None else [tuple(map(M.cell_key, r)) for r in o["rows"][:50]],
            None if o["rows"] is None else len(o["rows"]), o["rowcount"], o["desc"], o["desc_err"], o["fetch_err"])


def run_stream(stream, acc, rp_base, database=DB, schema=SCHEMA, instance="isolated", setup=None, conns=None):
    """ONE server lifetime: open the connections `conns` = [(instance, database, schema), ...] (default: one) on the
    HTTP server and their twins on in-process fakes, send every statement of the stream to the connection it names
    (st['c'], default 0) on both sides, judge each.

    instance: 'shared' (the server's default instance; in-process: one FakeSnow for all 'shared' connections),
    'isolated' / 'path' (an instance of its own per connection on both sides), or 'isolated:<k>' to let several
    in-process connections share the k-th private instance (the HTTP side still gets one ':isolated:' login each,
    so this form is only used with one connection per k)."""
    from fakesnow.instance import FakeSnow

    conns = conns or [(instance, database, schema)]
    reset_server()
    with scratch() as d:
        fss, ics, hcs = {}, [], []
        try:
            for n, (inst, dbn, sn) in enumerate(conns):
                if inst == "shared":
                    key, db_path = "shared", None
                    if key not in fss:
                        fss[key] = FakeSnow()
                elif inst == "isolated":
                    key, db_path = f"isolated{n}", ":isolated:"
                    fss[key] = FakeSnow()
                elif inst == "path":
                    key = f"path{n}"
                    os.makedirs(os.path.join(d, f"inproc{n}"))
                    os.makedirs(os.path.join(d, f"http{n}"))
                    fss[key] = FakeSnow(db_path=os.path.join(d, f"inproc{n}"))
                    db_path = os.path.join(d, f"http{n}")
                else:
                    raise AssertionError(inst)
                ics.append(fss[key].connect(database=dbn, schema=sn))
                hcs.append(http_connect(dbn, sn, db_path))
            st_login = take_statuses()
            if any(s[1] != 200 for s in st_login):
                acc.violation("C17.no_500", "login", {"statuses": st_login}, rp_base)
            if setup is not None:
                setup(next(iter(fss.values())), ics[0], hcs[0])
                take_statuses()
            for n, st in enumerate(stream):
                c = st.get("c", 0)
                oi = observe_stmt(ics[c], st["sql"])
                oh = observe_stmt(hcs[c], st["sql"])
                statuses = take_statuses()
                acc.obs((st["label"], c, _obs_repr(oi), _obs_repr(oh), statuses))
                judge(st, oi, oh, statuses, acc, dict(rp_base, stmt=n, label=st["label"], conn=c))
            acc.count("traces")
        finally:
            for hc in hcs:
                with contextlib.suppress(Exception):
                    hc.close()
            for fs in fss.values():
                with contextlib.suppress(Exception):
                    fs.duck_conn.close()
            reset_server()  # releases the files of a path-backed instance before the directory goes away


def _sweep_setup(fam, base, idx):
    """Fill table SW(V) on both sides through raw DuckDB cursors (set-up, not under test)."""
    import pyarrow as pa

    epoch = dt.datetime(1970, 1, 1)
    b_us = (base - epoch) // dt.timedelta(microseconds=1)
    arr = pa.array([b_us + i for i in idx], type=pa.int64()).cast(pa.timestamp("us", tz="UTC" if fam == "tz" else None))
    tbl = pa.table({"V": arr})
    ducktype = "TIMESTAMPTZ" if fam == "tz" else "TIMESTAMP"

    def fill(fs, ic, hc):
        fsrv = server()["mod"]
        for duck in (observe.engine_conn(ic), observe.engine_conn(fsrv.sessions[hc.rest.token])):
            raw = duck.cursor()
            raw.execute(f"create table {DB}.{SCHEMA}.SW (V {ducktype})")
            raw.register("c17_sweep_src", tbl)
            raw.execute(f"insert into {DB}.{SCHEMA}.SW select V from c17_sweep_src")
            raw.unregister("c17_sweep_src")
            raw.close()

    return fill


def stream_for(item, tier):
    """-> (stream, kwargs for run_stream)"""
    kind = item[0]
    if kind == "type":
        return type_stream(M1.TYPE_BY_NAME[item[1]], tier), {}
    if kind == "frac":
        return frac_stream(item[1], item[2], tier), {}
    if kind == "sweep":
        _, fam, bl, cl = item
        base = dict(SWEEP_BASES)[bl]
        exact, inexact = sweep_sets(SWEEP_N[tier])
        idx = exact if cl == "exact" else inexact
        ts = M1.TYPE_BY_NAME[FRAC_FAMILIES[fam]]
        cls = f"type={M1.tgroup(ts)},select"
        vc = "frac_binary_inexact" if cl == "inexact" else "frac_binary_exact"
        stream = [S(f"sweep[{bl},{cl},{len(idx)} fractions]", "select V from SW order by V", cls=cls, vclass=vc)]
        return stream, {"setup": _sweep_setup(fam, base, idx)}
    if kind == "kind":
        return KIND_STREAMS[item[1]], {}
    if kind == "rows":
        return rows_stream(tier), {}
    if kind == "login":
        lab, db, sch = next(x for x in LOGINS if x[0] == item[1])
        return K_NOCTX, {"database": db, "schema": sch}
    if kind == "instance":
        return K_DML, {"instance": item[1]}
    if kind == "retype":
        return retype_stream(item[1], item[2], tier), {}
    if kind == "reshape":
        return K_RESHAPE, {}
    if kind == "contexts":
        return contexts_stream(), {"conns": CONTEXT_CONNS}  # every login creates its database and schema if missing
    if kind == "instances":
        return instances_stream(), {"conns": INSTANCE_CONNS}
    raise AssertionError(item)


def run_group(item, acc: core.Acc, tier):
    item = tuple(item)
    stream, kw = stream_for(item, tier)
    run_stream(stream, acc, {"part": "a", "item": list(item), "tier": tier}, **kw)
    acc.sample({"part": "a", "item": item, "statements": len(stream), "first": [s["sql"][:80] for s in stream[:3]]})
    return len(stream)


# ======================================================================================================================
# (b) session machine

B_STMTS = {"quick": ("put", "sel", "use2", "set", "getv"), "thorough": ("put", "sel", "use2", "use1", "set", "getv")}
B_INTRUDER = {"quick": ("put", "set"), "thorough": ("put", "use2", "set")}
B_AUTH = {"quick": ("missing", "bogus", "truncated"), "thorough": M.AUTH_VARIANTS}
# quick: not the full product auth variant x intruder statement, but each variant once and each statement at least once
B_NOAUTH_QUICK = (("missing", "put"), ("bogus", "set"), ("truncated", "put"))
B_DEPTH = {"quick": 4, "thorough": 6}


class Live:
    """The real side of one history: connector connections, their tokens, scratch directory."""

    def __init__(self, d):
        self.d = d
        self.conns = []
        self.n_path = 0
        self.shared_ready = False

    def close(self):
        for c in self.conns:
            with contextlib.suppress(Exception):
                c.close()


def _sessions():
    return server()["mod"].sessions


def _light_catalog(raw):
    """Ground truth of one instance through a raw DuckDB cursor, as cheap as it gets: every table (database, schema,
    name, DuckDB's normalised CREATE text) and the rows of every table that is not fakesnow's own bookkeeping."""
    tabs = raw.execute(
        f"select database_name, schema_name, table_name, sql from duckdb_tables() where database_name not in {observe.SKIP} "
        "and not internal order by all"
    ).fetchall()
    data = {}
    for d_, s_, t_, _sql in tabs:
        if not t_.startswith("_fs_"):
            data[f"{d_}.{s_}.{t_}"] = tuple(map(repr, raw.execute(f'select * from "{d_}"."{s_}"."{t_}" order by all').fetchall()))
    return tabs, data


def ground_truth(live):
    """Per token: (python-side context, DuckDB current schema, variables, MARK tables of its instance, catalog digest)."""
    out = []
    sess = _sessions()
    for c in live.conns:
        conn = sess.get(c.rest.token)
        if conn is None:
            out.append(None)
            continue
        st = observe.session_state(conn)
        raw = observe.engine_conn(conn).cursor()
        try:
            tabs, data = _light_catalog(raw)
        finally:
            raw.close()
        marks = {}
        for key, rows in data.items():
            dbn, sn, tn = key.split(".")
            if tn == "MARK" and dbn == DB:
                marks[sn] = rows
        out.append({"ctx": st[:5], "vars": dict(st[5]), "marks": marks, "digest": core.h((tabs, sorted(data.items())))})
    return out, len(sess)


def apply_real(live, op):
    """Apply one operation to the real server.  -> (observation, statuses)"""
    take_statuses()
    if op[0] == "login":
        kind = op[1]
        db_path = None
        if kind == "isolated":
            db_path = ":isolated:"
        elif kind == "path":
            live.n_path += 1
            db_path = os.path.join(live.d, f"p{live.n_path}")
            os.makedirs(db_path)
        try:
            c = http_connect(DB, SCHEMA, db_path)
        except Exception as e:  # noqa: BLE001
            return ("err", _exc(e)), take_statuses()
        live.conns.append(c)
        # harness set-up belonging to the login operation: the second schema of the alphabet (once per instance: the
        # first shared login creates it for all shared logins)
        if kind != "shared" or not live.shared_ready:
            o = observe_stmt(c, "create schema if not exists S2")
            if o["exec"] != "ok":
                return ("err", o["err"]), take_statuses()
            live.shared_ready = live.shared_ready or kind == "shared"
        return ("login",), take_statuses()
    if op[0] == "noauth":
        _, variant, s = op
        tok = live.conns[0].rest.token if live.conns else None
        status, body = raw_query(M.auth_header(variant, tok), M.INTRUDER_STMTS[s])
        return ("http", status, None if body is None else (body.get("code"), body.get("success"))), take_statuses()
    _, i, s = op
    o = observe_stmt(live.conns[i], M.stmt_sql(s, i))
    st = take_statuses()
    if o["exec"] == "err":
        return ("err", o["err"]), st
    if o["fetch_err"] is not None:
        return ("fetch_raises", o["fetch_err"]), st  # execute succeeded, fetchall() raised: never an expected answer
    return ("ok", o["rows"]), st


def check_transition(model_before, model_after, op, exp, got, statuses, gt_before, gt_after, acc, rp):
    """All oracle clauses of part (b) for one transition.  Returns True if the real state is the model's."""
    opk = op[0] if op[0] != "query" else f"query:{'use_schema' if op[2] in ('use1', 'use2') else op[2]}"
    if op[0] == "noauth":
        opk = f"noauth:{op[1]}"
    acc.count("transitions")
    acc.count("evaluations")
    in_sync = True
    s500 = [s for s in statuses if s[1] >= 500]
    acc.member("C17.s.no_500", f"op={opk}", bool(s500))
    if s500:
        acc.violation("C17.s.no_500", f"op={opk}", {"op": op, "statuses": statuses, "observed": got}, rp)
    # ---- answer ----
    if op[0] == "login":
        if got[0] != "login":
            acc.violation("C17.s.login", f"kind={op[1]}", {"op": op, "observed": got, "statuses": statuses}, rp)
            return False
    elif op[0] == "noauth":
        ok = got[0] == "http" and got[1] == 401 and got[2] == (exp[1], False)
        (gtb, nb), (gta, na) = gt_before, gt_after
        untouched = nb == na and [g and (g["ctx"], g["vars"], g["digest"]) for g in gtb] == [g and (g["ctx"], g["vars"], g["digest"]) for g in gta]
        acc.member("C17.s.unauthorized", f"auth={op[1]},answer", not ok)
        acc.member("C17.s.unauthorized", f"auth={op[1]},untouched", not untouched)
        if not ok:
            acc.violation("C17.s.unauthorized", f"auth={op[1]},answer", {"op": op, "expected": [401, exp[1], False], "observed": got}, rp)
        if not untouched:
            acc.violation("C17.s.unauthorized", f"auth={op[1]},untouched", {"op": op, "sessions": [nb, na], "before": _gt_brief(gtb), "after": _gt_brief(gta)}, rp)
            in_sync = False
        acc.nontrivial(("401", op, model_before.key()))
    elif not s500:
        if exp[0] in ("rows", "err"):
            acc.nontrivial((op, model_before.key()))
        bad = _answer_mismatch(exp, got)
        acc.member("C17.s.answer", f"op={opk},expected={exp[0]}", bool(bad))
        if bad:
            acc.violation("C17.s.answer", f"op={opk},expected={exp[0]}", {"op": op, "why": bad, "expected": exp, "observed": got}, rp)
    # ---- context and data of EVERY token after the operation ----
    gta, na = gt_after
    if na != len(model_after.tokens):
        acc.violation("C17.s.context", f"op={opk},session_count", {"op": op, "expected": len(model_after.tokens), "observed": na}, rp)
        in_sync = False
    for i, (want, g) in enumerate(zip(model_after.expected_context(), gta)):
        who = "self" if (op[0] == "query" and op[1] == i) or (op[0] == "login" and i == len(gta) - 1) else "other"
        if g is None:
            acc.violation("C17.s.context", f"op={opk},token={who},session_missing", {"op": op, "token": i}, rp)
            in_sync = False
            continue
        dbn, sn, vars_ = want
        ctx_ok = g["ctx"][0] == dbn and g["ctx"][1] == sn and g["ctx"][4] == (dbn, sn) and g["ctx"][2] and g["ctx"][3]
        var_ok = _vars_match(g["vars"], vars_)
        acc.member("C17.s.context", f"op={opk},token={who}", not (ctx_ok and var_ok))
        if not (ctx_ok and var_ok):
            acc.violation("C17.s.context", f"op={opk},token={who}", {"op": op, "token": i, "expected": want, "observed": [g["ctx"], g["vars"]]}, rp)
            in_sync = False
        marks_want = {s: (repr((M.MARK_VALUES[w],)),) for s, w in model_after.expected_marks(i).items() if w is not None}
        data_ok = g["marks"] == marks_want
        same_inst = model_after.tokens[i]["inst"] == (model_after.tokens[op[1]]["inst"] if op[0] == "query" else None)
        dk = f"op={opk},token={'self' if who == 'self' else ('same_instance' if same_inst else 'other_instance')}"
        acc.member("C17.s.data", dk, not data_ok)
        if not data_ok:
            acc.violation("C17.s.data", dk, {"op": op, "token": i, "expected": marks_want, "observed": g["marks"]}, rp)
            in_sync = False
    return in_sync


def read_battery(live, model, acc, rp, judge_it):
    """Every token sends the token-independent read texts (SELECT WHO FROM MARK, SELECT $V) on the LIVE state.  Run
    before (judge_it=False: these transitions are judged where they are explored as operations) and after
    (judge_it=True) every state-changing operation, so that each identical text is answered on both sides of every
    change within one server lifetime - by the sender of the change and by every other token."""
    for i in range(len(model.tokens)):
        for s_ in M.READ_STMTS:
            op = ("query", i, s_)
            exp = model.copy().step(op)
            got, statuses = apply_real(live, op)
            acc.obs(("battery", judge_it, op, _got_repr(got), statuses))
            if not judge_it:
                continue
            acc.count("evaluations")
            acc.count("reads_after_change")
            s500 = [x for x in statuses if x[1] >= 500]
            acc.member("C17.s.no_500", f"op=query:{s_}", bool(s500))
            if s500:
                acc.violation("C17.s.no_500", f"op=query:{s_}", {"op": op, "statuses": statuses, "observed": got, "after": rp.get("op")}, rp)
                continue
            bad = _answer_mismatch(exp, got)
            acc.member("C17.s.answer", f"op=query:{s_},expected={exp[0]}", bool(bad))
            if bad:
                acc.violation("C17.s.answer", f"op=query:{s_},expected={exp[0]}",
                              {"op": op, "why": bad, "expected": exp, "observed": got, "read_after": rp.get("op")}, dict(rp, read=op))


def _answer_mismatch(exp, got):
    if exp[0] == "status":
        return None if got[0] == "ok" else "expected success"
    if exp[0] == "rows":
        return None if got[0] == "ok" and not M.cmp_rows(exp[1], got[1], True) else "expected rows"
    if exp[0] == "err":
        if got[0] != "err" or got[1][0] != "snowflake.connector.errors.ProgrammingError":
            return "expected ProgrammingError"
        if exp[1] is not None and (got[1][1], got[1][2]) != (exp[1], exp[2]):
            return "expected errno/sqlstate"
    return None


def _vars_match(stored, want) -> bool:
    """fakesnow keeps variable values as SQL text (a text value is stored as a quoted constant): the names must be the
    model's and each stored text must denote the model's value; the exact internal spelling is not demanded."""
    if set(stored) != set(want):
        return False
    return all(str(stored[k]).strip().strip("'") == str(v) for k, v in want.items())


def _gt_brief(gt):
    return [g and {"ctx": g["ctx"], "vars": g["vars"], "marks": g["marks"]} for g in gt]


def replay_history(hist, d):
    """Fresh server state, apply hist (unchecked: every prefix was checked when it was a frontier transition)."""
    reset_server()
    live = Live(tempfile.mkdtemp(prefix="h", dir=d))  # path-backed logins of this replay get directories of their own
    model = M.SessionModel()
    for op in hist:
        model.step(op)
        apply_real(live, op)
    return live, model


def ops_of(model, tier):
    """-> (stay, move): the enabled operations of a model state, split by whether the model predicts a state change."""
    ops = model.enabled(B_STMTS[tier], B_INTRUDER[tier], B_AUTH[tier])
    if tier == "quick":
        ops = [op for op in ops if op[0] != "noauth" or (op[1], op[2]) in B_NOAUTH_QUICK]
    return [op for op in ops if not model.changes_state(op)], [op for op in ops if model.changes_state(op)]


def work_items(key_repr, hist, tier):
    """The work of expanding one state, cut into independent pieces (each replays the history on a fresh server):
    one for all operations that leave the state alone, one per state-changing operation."""
    model = M.SessionModel()
    for op in hist:
        model.step(_tup(op))
    _stay, move = ops_of(model, tier)
    return [(key_repr, hist, ["stay"])] + [(key_repr, hist, ["move", list(op)]) for op in move]


def expand(item, acc: core.Acc, tier):
    """item = (state key repr, history, part).  part ['stay']: apply every enabled operation that leaves the state
    alone, one after another on the live state.  part ['move', op]: send the read texts from every token, apply the
    state-changing op, send the read texts again.  Returns successors [(key, history', in_sync)]."""
    _key, hist, part = item
    hist = [_tup(o) for o in hist]
    succ = []
    with scratch() as d:
        live, model = replay_history(hist, d)
        acc.count("traces")
        try:
            stay, move = ops_of(model, tier)
            gt = ground_truth(live)
            if part[0] == "stay":
                for op in stay:
                    m_after = model.copy()
                    exp = m_after.step(op)
                    got, statuses = apply_real(live, op)
                    gt_after = ground_truth(live)
                    acc.obs((hist, op, _got_repr(got), statuses, _gt_repr(gt_after)))
                    acc.outcome((op[0], op[-1], got[0], statuses[-1][1] if statuses else None))
                    rp = {"part": "b", "history": hist, "op": op, "tier": tier}
                    ok = check_transition(model, m_after, op, exp, got, statuses, gt, gt_after, acc, rp)
                    unchanged = _gt_repr(gt) == _gt_repr(gt_after)
                    if not unchanged and ok:
                        # the digest moved although model and reported context agree: something else was touched
                        acc.violation("C17.s.data", f"op={op[0]}:{op[-1]},digest_moved", {"op": op, "before": _gt_brief(gt[0]), "after": _gt_brief(gt_after[0])}, rp)
                    if not unchanged:
                        live.close()
                        live, model = replay_history(hist, d)
                        acc.count("traces")
                        gt = ground_truth(live)
            else:
                op = _tup(part[1])
                if op not in move:
                    raise core.HarnessError(f"{op} is not a state-changing operation after {hist}")
                m_after = model.copy()
                exp = m_after.step(op)
                rp = {"part": "b", "history": hist, "op": op, "tier": tier}
                read_battery(live, model, acc, rp, judge_it=False)
                got, statuses = apply_real(live, op)
                gt_after = ground_truth(live)
                acc.obs((hist, op, _got_repr(got), statuses, _gt_repr(gt_after)))
                acc.outcome((op[0], op[-1], got[0], statuses[-1][1] if statuses else None))
                ok = check_transition(model, m_after, op, exp, got, statuses, gt, gt_after, acc, rp)
                if ok:
                    read_battery(live, m_after, acc, rp, judge_it=True)
                succ.append((m_after.key(), hist + [op], bool(ok)))
        finally:
            live.close()
            reset_server()
    acc.sample({"part": "b", "history": hist, "piece": part})
    return succ


def _tup(o):
    return tuple(o)


def _got_repr(got):
    if got[0] == "ok":
        return ("ok", [tuple(map(M.cell_key, r)) for r in (got[1] or [])])
    return got


def _gt_repr(gt):
    g, n = gt
    return (n, [x and (x["ctx"], sorted(x["vars"].items()), sorted(x["marks"].items()), x["digest"]) for x in g])


# ======================================================================================================================


def run(ctx: core.Ctx):
    tier = ctx.tier
    ctx.rule = (
        "(a) every statement of every written-out stream (type x boundary value groups, fraction groups and sweeps, "
        "statement-kind groups, login and instance variants) is sent once through snowflake.connector to a real uvicorn "
        "server and once to a fresh in-process connection and all of rows / types / rowcount / description / error / "
        "HTTP status are compared; (b) BFS over login/query/unauthorized-query histories of the server's session "
        "machine with canonical state hashing, every transition checked against the session model and the raw-DuckDB "
        "ground truth of every session; non-trivial = statements returning rows or raising, transitions whose expected "
        "answer is rows, an error or a 401"
    )
    ctx.assumptions = [
        "the connector sends each statement exactly once (_no_retry=True); statuses are recorded by a pass-through ASGI wrapper",
        "fakesnow.server is re-imported (importlib.reload) between groups / histories: all of its module-level state (shared_fs, sessions) starts fresh, equivalent to restarting the server",
        "the in-process fake is the reference for part (a) (differential oracle): defects common to both sides are other properties' business",
        "part (b): abstract states with equal (token kinds, instances, schema, V, MARK tables) have equal futures; each is expanded from its canonically first history",
        "process time zone UTC",
    ]
    # ---- (a) ----
    items = part_a_items(tier)
    res = ctx.pmap(run_group, items, chunk=1)
    _phase(ctx, "part (a)")
    ctx.extra["part_a_groups"] = len(items)
    ctx.extra["part_a_statements"] = sum(n for _, n in res)
    # ---- (b) ----
    depth_bound = B_DEPTH[tier]
    m0 = M.SessionModel()
    seen = {m0.key(): 0}
    frontier = [(repr(m0.key()), [])]
    depth = 0
    while frontier and depth < depth_bound:
        pieces = [w for key_repr, hist in frontier for w in work_items(key_repr, hist, tier)]
        res = ctx.pmap(expand, pieces, chunk=1 if len(pieces) < 2000 else None, recheck=(depth == 1))
        cands = []
        for _item, succ in res:
            for key, hist, ok in succ:
                if ok:
                    cands.append((_freeze(key), [list(o) for o in hist]))
        cands.sort(key=lambda x: (repr(x[0]), len(x[1]), repr(x[1])))
        frontier = []
        for key, hist in cands:
            if key not in seen:
                seen[key] = depth + 1
                frontier.append((repr(key), hist))
        depth += 1
        _phase(ctx, f"part (b) depth {depth}")
    for k in seen:
        ctx.acc.add("states", repr(k))
    ctx.acc.counters["max_depth"] = depth
    ctx.extra["part_b_depth_bound"] = depth_bound
    ctx.extra["part_b_unexpanded_states_at_bound"] = len(frontier)
    ctx.extra["alphabets"] = {
        "types": [t["sql"] for t in M1.TYPES],
        "fraction_bases": [b for b, _ in FRAC_BASES],
        "fractions_us": FRACS_QUICK if tier == "quick" else FRACS_THOROUGH,
        "sweep_fractions": SWEEP_N[tier],
        "kind_streams": {k: len(v) for k, v in KIND_STREAMS.items()},
        "rowcounts": ROWCOUNTS_QUICK if tier == "quick" else ROWCOUNTS_THOROUGH,
        "logins": [lab for lab, _, _ in LOGINS],
        "session_stmts": list(B_STMTS[tier]),
        "unauthorized_requests": [list(x) for x in B_NOAUTH_QUICK] if tier == "quick" else [[v, st] for v in B_AUTH[tier] for st in B_INTRUDER[tier]],
        "same_text_type_pairs": len(RETYPE_PAIRS),
    }
    # exhaustive w.r.t. the stated finite space: all streams, and all histories up to the depth bound modulo state equality
    ctx.exhaustive = True
    ctx.extra["bound"] = f"part (a): all {len(items)} groups; part (b): histories of length <= {depth_bound}, <= {M.MAX_TOKENS} tokens"


def _phase(ctx, what):
    if os.environ.get("VERIF_C17_TIMING"):
        import sys

        print(f"[C17 timing] {what}: t={time.time() - ctx.t0:.1f}s", file=sys.stderr)


def _freeze(x):
    if isinstance(x, (list, tuple)):
        return tuple(_freeze(y) for y in x)
    return x


def replay(payload):
    r = payload["replay"]
    acc = core.Acc()
    tier = r.get("tier", "quick")
    if r["part"] == "a":
        item = tuple(r["item"])
        stream, kw = stream_for(item, tier)
        print(f"group {item}: {len(stream)} statements; statement #{r.get('stmt')} [{r.get('label')}]:")
        if r.get("stmt") is not None:
            print("  ", stream[r["stmt"]]["sql"][:400])
        run_stream(stream, acc, {"part": "a", "item": list(item), "tier": tier}, **kw)
    else:
        hist = [_tup(o) for o in r["history"]]
        op = _tup(r["op"])
        print("history:", hist, "op:", op)
        with scratch() as d:
            live, model = replay_history(hist, d)
            try:
                gt = ground_truth(live)
                m_after = model.copy()
                exp = m_after.step(op)
                if model.changes_state(op):
                    read_battery(live, model, acc, r, judge_it=False)
                got, statuses = apply_real(live, op)
                gt_after = ground_truth(live)
                print("expected:", exp)
                print("observed:", got, "statuses:", statuses)
                print("ground truth after:", _gt_brief(gt_after[0]))
                ok = check_transition(model, m_after, op, exp, got, statuses, gt, gt_after, acc, r)
                if ok and model.changes_state(op):
                    read_battery(live, m_after, acc, r, judge_it=True)
            finally:
                live.close()
                reset_server()
    hit = (payload["clause"], payload["class"]) in acc.viol
    v = acc.viol.get((payload["clause"], payload["class"]))
    print("verdict:", "VIOLATION reproduced" if hit else "not reproduced", json.dumps(v and v["detail"], default=str)[:800])
    return hit
