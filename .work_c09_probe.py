import fakesnow.instance as inst
fs = inst.FakeSnow()
conn = fs.connect(database="db1", schema="s1")
cur = conn.cursor()
def q(c, sql):
    try:
        c.execute(sql); return c.fetchall()
    except Exception as e:
        return ("err", type(e).__name__, str(e)[:200])
print(q(cur,"create table t (a int) comment = 'c1'"))
print(q(cur,"comment on table t is 'it''s'"))
print(q(cur,"select comment from information_schema.tables where table_name='T'"))
print(q(cur,"alter table t set comment = 'it''s'"))
print(q(cur,"select comment from information_schema.tables where table_name='T'"))
print(q(cur,"create table t2 (a int) comment = 'it''s'"))
print(q(cur,"select comment from information_schema.tables where table_name='T2'"))
