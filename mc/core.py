"""Core of the bounded-exhaustive checking framework.

Acc      picklable accumulator filled by (worker) executions: violations, counters, hash sets, samples
Ctx      per-run context: tier, seed, worker pool, evidence writer, known-findings resolution
main()   entry used by run_check.py

Nothing here samples: VERIF_SEED only rotates enumeration order / picks which executions are re-run for the
determinism self-check.
"""
from __future__ import annotations

import hashlib
import importlib
import json
import os
import subprocess
import sys
import time
import traceback
from concurrent.futures import ProcessPoolExecutor
import multiprocessing as mp

ROOT = os.path.dirname(os.path.dirname(os.path.abspath(__file__)))
REPO = os.environ.get("VERIF_REPO", "/repo")
NPROC = int(os.environ.get("VERIF_NPROC", str(min(16, os.cpu_count() or 4))))


def h(obj) -> str:
    return hashlib.sha1(repr(obj).encode("utf-8", "backslashreplace")).hexdigest()[:16]


def jsonable(o):
    """Best effort conversion of observations to JSON (for replay / evidence files)."""
    import datetime
    import decimal

    if isinstance(o, (str, int, bool)) or o is None:
        return o
    if isinstance(o, float):
        return o if o == o and abs(o) != float("inf") else repr(o)
    if isinstance(o, (list, tuple)):
        return [jsonable(x) for x in o]
    if isinstance(o, (set, frozenset)):
        return sorted((jsonable(x) for x in o), key=repr)
    if isinstance(o, dict):
        return {str(k): jsonable(v) for k, v in o.items()}
    if isinstance(o, (bytes, bytearray)):
        return {"$bytes": bytes(o).hex()}
    if isinstance(o, decimal.Decimal):
        return {"$decimal": str(o)}
    if isinstance(o, (datetime.date, datetime.time, datetime.datetime)):
        return {"$" + type(o).__name__: o.isoformat()}
    return repr(o)


class HarnessError(Exception):
    """Something is wrong with the machinery (never turned into a verdict)."""


class Acc:
    """Accumulator: everything an execution reports. Picklable; merged in the parent."""

    def __init__(self):
        self.counters: dict[str, int] = {}
        self.sets: dict[str, set] = {}
        self.viol: dict[tuple, dict] = {}  # (clause, cls) -> {count, detail, replay}
        self.classes: dict[tuple, list] = {}  # (clause, cls) -> [members, failing]
        self.samples: list = []
        self.notes: list[str] = []
        self._obs = ''
        self.results = []

    # -- counters ---------------------------------------------------------------------------
    def count(self, name: str, n: int = 1):
        self.counters[name] = self.counters.get(name, 0) + n

    def add(self, setname: str, key):
        self.sets.setdefault(setname, set()).add(key if isinstance(key, str) and len(key) <= 16 else h(key))

    def nontrivial(self, key):
        self.add("nontrivial", key)

    def outcome(self, key):
        self.add("outcomes", key)

    def obs(self, o):
        """Feed an observation into the determinism fingerprint."""
        self._obs = hashlib.sha1((self._obs + repr(o)).encode("utf-8", "backslashreplace")).hexdigest()

    def sample(self, o, cap: int = 4):
        if len(self.samples) < cap:
            self.samples.append(jsonable(o))

    def note(self, s: str):
        if s not in self.notes:
            self.notes.append(s)

    # -- verdicts ---------------------------------------------------------------------------
    def member(self, clause: str, cls: str, failed: bool):
        """Homogeneity bookkeeping: a case falls into class (clause, cls); did it fail?"""
        m = self.classes.setdefault((clause, cls), [0, 0])
        m[0] += 1
        m[1] += 1 if failed else 0

    def violation(self, clause: str, cls: str, detail, replay):
        k = (clause, cls)
        v = self.viol.get(k)
        if v is None:
            self.viol[k] = {"count": 1, "detail": jsonable(detail), "replay": jsonable(replay)}
        else:
            v["count"] += 1

    def fingerprint(self) -> str:
        return h(
            (
                self._obs,
                sorted(self.counters.items()),
                sorted((k, sorted(v)) for k, v in self.sets.items()),
                sorted((k, v["count"]) for k, v in self.viol.items()),
            )
        )

    def merge(self, other: "Acc"):
        for k, v in other.counters.items():
            self.counters[k] = self.counters.get(k, 0) + v
        for k, v in other.sets.items():
            self.sets.setdefault(k, set()).update(v)
        for k, v in other.viol.items():
            mine = self.viol.get(k)
            if mine is None:
                self.viol[k] = dict(v)
            else:
                mine["count"] += v["count"]
        for k, v in other.classes.items():
            m = self.classes.setdefault(k, [0, 0])
            m[0] += v[0]
            m[1] += v[1]
        for s in other.samples:
            if len(self.samples) < 4:
                self.samples.append(s)
        for n in other.notes:
            self.note(n)
        self._obs = hashlib.sha1((self._obs + other._obs).encode()).hexdigest()


# --------------------------------------------------------------------------------------------
# worker side


def _worker_init():
    os.environ.setdefault("TZ", "UTC")
    sys.path.insert(0, ROOT)
    import fakesnow  # noqa: F401  (import once per worker)

    assert_repo()


def assert_repo():
    import fakesnow

    f = os.path.realpath(fakesnow.__file__)
    if not f.startswith(os.path.realpath(REPO) + os.sep):
        raise HarnessError(f"fakesnow imported from {f}, expected under {REPO}")


def _run_chunk(modname: str, fname: str, chunk: list, tier: str, seed: int):
    mod = importlib.import_module(modname)
    fn = getattr(mod, fname)
    acc = Acc()
    t0 = time.time()
    results = []
    for item in chunk:
        try:
            results.append(fn(item, acc, tier))
        except HarnessError:
            raise
        except Exception as e:  # an escaping exception is a harness bug, not a verdict
            raise HarnessError(
                f"{modname}.{fname} raised on item {item!r}: {type(e).__name__}: {e}\n{traceback.format_exc()}"
            ) from None
    acc.results = results
    return acc, time.time() - t0


class Ctx:
    def __init__(self, pid: str, tier: str, seed: int):
        self.pid = pid
        self.tier = tier
        self.quick = tier == "quick"
        self.seed = seed
        self.acc = Acc()
        self.extra: dict = {}
        self.assumptions: list[str] = []
        self.rule = ""
        self.exhaustive = None
        self.determinism: list = []
        self.nondeterministic: list = []
        self._pool = None
        self.t0 = time.time()

    # -- pool ---------------------------------------------------------------------------------
    def pool(self):
        if self._pool is None:
            self._pool = ProcessPoolExecutor(
                max_workers=NPROC, mp_context=mp.get_context("spawn"), initializer=_worker_init
            )
        return self._pool

    def pmap(self, fn, items: list, chunk: int | None = None, parallel: bool = True, recheck: bool = True):
        """Run fn(item, acc, tier) for every item (all of them, order irrelevant), merge the accumulators.

        Also re-runs the first item and one seed-chosen item a second time and requires identical
        fingerprints (determinism is proved, not assumed)."""
        items = list(items)
        if not items:
            return []
        out = []
        modname, fname = fn.__module__, fn.__name__
        # seed only rotates the order in which work is handed out
        rot = self.seed % len(items)
        order = items[rot:] + items[:rot]
        if not parallel or len(order) < 4 or NPROC == 1:
            acc, _ = _run_chunk(modname, fname, order, self.tier, self.seed)
            self.acc.merge(acc)
            out = list(zip(order, acc.results))
        else:
            if chunk is None:
                chunk = max(1, min(64, len(order) // (NPROC * 4)))
            chunks = [order[i : i + chunk] for i in range(0, len(order), chunk)]
            futs = [self.pool().submit(_run_chunk, modname, fname, c, self.tier, self.seed) for c in chunks]
            for c, f in zip(chunks, futs):
                acc, _ = f.result()
                self.acc.merge(acc)
                out.extend(zip(c, acc.results))
        if recheck:
            picks = [items[0]]
            if len(items) > 1:
                picks.append(items[(self.seed * 7919 + 1) % len(items)])
            for it in picks:
                a1, _ = _run_chunk(modname, fname, [it], self.tier, self.seed)
                a2, _ = _run_chunk(modname, fname, [it], self.tier, self.seed)
                same = a1.fingerprint() == a2.fingerprint()
                self.determinism.append({"item": jsonable(it) if len(repr(it)) < 300 else h(it), "identical": same})
                if not same:
                    # Either the harness is not deterministic, or the code under test keeps state across executions
                    # (a process-wide cache ...) - which the checks may well have reported as violations already.
                    # finish() decides: with violations the verdict is reported (exit 1); without, this is a harness
                    # error (exit 2) exactly as before - a silent "ok" is never printed after a failed re-run.
                    self.nondeterministic.append(f"non-deterministic execution for item {it!r} of {modname}.{fname}"[:400])
        return out

    def close(self):
        if self._pool is not None:
            self._pool.shutdown(wait=True, cancel_futures=True)
            self._pool = None


# --------------------------------------------------------------------------------------------
# known findings


def load_known():
    p = os.path.join(ROOT, "known_findings.json")
    if not os.path.exists(p):
        return []
    with open(p) as f:
        out = json.load(f)["findings"]
    extra = os.environ.get("VERIF_KNOWN")  # development aid: additional proposed entries (never used by MANIFEST cmds)
    if extra and os.path.exists(extra):
        with open(extra) as f:
            j = json.load(f)
        out = out + (j["findings"] if isinstance(j, dict) else j)
    return out


def finish(ctx: Ctx, level: str) -> int:
    """Resolve violations against known_findings.json, write replay + evidence files, print verdict lines."""
    pid = ctx.pid
    acc = ctx.acc
    known = {
        (k["clause"], k["class"]): k for k in load_known() if k["property"] == pid and k.get("status") == "known"
    }
    fixed = {(k["clause"], k["class"]): k for k in load_known() if k["property"] == pid and k.get("status") == "fixed"}
    rdir = os.path.join(ROOT, "replays", pid)
    n_viol = 0
    masked = {}
    lines = []
    for (clause, cls), v in sorted(acc.viol.items()):
        key = (clause, cls)
        payload = {
            "property": pid,
            "clause": clause,
            "class": cls,
            "count": v["count"],
            "detail": v["detail"],
            "replay": v["replay"],
        }
        os.makedirs(rdir, exist_ok=True)
        path = os.path.join(rdir, f"{clause}.{h(key)}.json".replace("/", "_"))
        with open(path, "w") as f:
            json.dump(payload, f, indent=1, sort_keys=True)
        if key in known:
            masked[f"{clause}/{cls}"] = v["count"]
            lines.append(f"KNOWN-FINDING: property={pid} {clause}/{cls}: {known[key].get('what', '')}")
        else:
            n_viol += 1
            was = " (listed as fixed: it has returned)" if key in fixed else ""
            lines.append(f"VIOLATION property={pid} replay={path}")
            lines.append(f"  clause={clause} class={cls} count={v['count']}{was}")
            lines.append(f"  detail={json.dumps(v['detail'], sort_keys=True)[:600]}")
    # a known class should be homogeneous (all members fail); report mixed ones in evidence
    mixed = {
        f"{c}/{k}": m for (c, k), m in acc.classes.items() if (c, k) in known and 0 < m[1] < m[0]
    }
    cov = {
        "evaluations": acc.counters.get("evaluations", 0),
        "distinct_nontrivial": len(acc.sets.get("nontrivial", ())),
        "rule": ctx.rule,
        "samples": acc.samples[:4],
        "distinct_outcomes": len(acc.sets.get("outcomes", ())),
        "determinism_reruns": ctx.determinism,
        "known_findings_masked_cases": masked,
        "known_classes_not_homogeneous": mixed,
        "notes": acc.notes,
    }
    if level == "model_checking":
        cov["states"] = len(acc.sets.get("states", ())) or acc.counters.get("states", 0)
        cov["transitions"] = acc.counters.get("transitions", 0)
        cov["traces_validated_against_impl"] = acc.counters.get("traces", acc.counters.get("evaluations", 0))
    if ctx.exhaustive is not None:
        cov["exhaustive"] = bool(ctx.exhaustive)
    for k, v in acc.counters.items():
        if not k.startswith("_") and k not in cov:
            cov[k] = v
    cov.update(ctx.extra)
    ev = {
        "property_id": pid,
        "tier": ctx.tier,
        "seed": ctx.seed,
        "level": level,
        "coverage": cov,
        "assumptions": ctx.assumptions,
        "wall_s": round(time.time() - ctx.t0, 2),
        "violations": n_viol,
    }
    if ctx.nondeterministic:
        if n_viol == 0:
            raise HarnessError(ctx.nondeterministic[0])
        cov["notes"] = list(cov.get("notes", [])) + ["re-execution of an item differed: " + x for x in ctx.nondeterministic]
    # evidence/<id>.json describes runs against /repo only; a run against another tree (VERIF_REPO=<scratch worktree>,
    # used to evaluate seeded changes) writes its evidence next to the scratch files instead
    evdir = os.path.join(ROOT, "evidence") if os.path.realpath(REPO) == "/repo" else os.path.join(ROOT, ".work", "evidence_other_tree")
    os.makedirs(evdir, exist_ok=True)
    evp = os.path.join(evdir, f"{pid}.json")
    with open(evp, "w") as f:
        json.dump(ev, f, indent=1, sort_keys=True)
    validate_evidence(evp)
    for ln in lines:
        print(ln)
    st = "FAIL" if n_viol else "ok"
    print(
        f"[{pid}] {st} tier={ctx.tier} seed={ctx.seed} evaluations={cov['evaluations']} "
        f"states={cov.get('states', '-')} transitions={cov.get('transitions', '-')} "
        f"nontrivial={cov['distinct_nontrivial']} outcomes={cov['distinct_outcomes']} "
        f"known={len(masked)} violations={n_viol} wall={ev['wall_s']}s"
    )
    return 1 if n_viol else 0


def validate_evidence(path: str):
    schema = "/root/.vp/EVIDENCE.schema.json"
    if not os.path.exists(schema):
        schema = os.path.join(ROOT, "schemas", "EVIDENCE.schema.json")
    if not os.path.exists(schema):
        return
    code = (
        "import json,sys,jsonschema;"
        "jsonschema.validate(json.load(open(sys.argv[1])), json.load(open(sys.argv[2])))"
    )
    for py in ("python3-vt", "/opt/veriftools/pyvenv/bin/python"):
        try:
            r = subprocess.run([py, "-c", code, path, schema], capture_output=True, text=True, timeout=60)
        except (FileNotFoundError, subprocess.TimeoutExpired):
            continue
        if r.returncode != 0:
            raise HarnessError(f"evidence file {path} does not validate: {r.stderr[-800:]}")
        return


def main(argv=None) -> int:
    import argparse

    ap = argparse.ArgumentParser()
    ap.add_argument("check")
    ap.add_argument("--tier", default=os.environ.get("VERIF_TIER", "quick"), choices=["quick", "thorough"])
    ap.add_argument("--replay")
    args = ap.parse_args(argv)
    pid = args.check.upper()
    if os.environ.get("PYTHONHASHSEED") != "0" or os.environ.get("TZ") != "UTC":
        env = dict(os.environ, PYTHONHASHSEED="0", TZ="UTC")
        os.execve(sys.executable, [sys.executable] + sys.argv, env)
    sys.path.insert(0, ROOT)
    try:
        seed = int(os.environ.get("VERIF_SEED", "0") or 0)
    except ValueError:
        seed = 0
    mod = importlib.import_module(f"checks.{pid.lower()}")
    try:
        assert_repo()
        if args.replay:
            with open(args.replay) as f:
                payload = json.load(f)
            return int(bool(mod.replay(payload)))
        ctx = Ctx(pid, args.tier, seed)
        try:
            mod.run(ctx)
        finally:
            ctx.close()
        return finish(ctx, mod.LEVEL)
    except HarnessError as e:
        print(f"HARNESS-ERROR [{pid}]: {e}", file=sys.stderr)
        return 2
