"""E3 — stateless, preemption-bounded schedule exploration of real threads.

k real threads each run an unmodified script of fakesnow API calls. Exactly one thread holds the baton; before every
engine call (DuckDB execute / cursor / close, seen through mc/seam.py) the running thread asks the scheduler which
thread proceeds (default: itself). Executions are enumerated by iterative context bounding: replay a prefix of choices
(a divergence while replaying is a hard harness error), then default choices, then branch at every later point whose
preemption cost stays within the bound.

Real `threading.Lock`s owned by the library would dead-lock the baton, so `coop_locks(obj)` replaces lock-typed
attributes by cooperative locks that yield to the scheduler when contended; "no enabled thread while some thread is
unfinished" is reported as a deadlock.
"""
from __future__ import annotations

import threading
import traceback

from mc import seam
from mc.core import HarnessError

_TL = threading.local()
_LOCK_TYPES = (type(threading.Lock()), type(threading.RLock()))


class Deadlock(Exception):
    pass


class Scheduler:
    def __init__(self, prefix, horizon=2000):
        self.prefix = list(prefix)
        self.horizon = horizon
        self.choices: list[int] = []
        self.points: list[tuple] = []  # (running_still_enabled, n_options, labels)
        self.state: dict[int, str] = {}  # tid -> ready | running | blocked | done
        self.label: dict[int, str] = {}
        self.sems: dict[int, threading.Semaphore] = {}
        self.finished = threading.Event()
        self.deadlock = False
        self.error: str | None = None
        self.mutex = threading.Lock()  # protects the scheduler's own tables (never held while waiting)

    # ---- choice ------------------------------------------------------------------------------------------------------
    def _pick(self, me):
        """me: the thread asking (ready) or None. Returns tid to run next, or None if nothing is enabled."""
        en = sorted(t for t, s in self.state.items() if s == "ready")
        if not en:
            return None
        order = ([me] if me in en else []) + [t for t in en if t != me]
        i = len(self.choices)
        if len(self.choices) >= self.horizon:
            self.error = "horizon exceeded"
            return None
        c = self.prefix[i] if i < len(self.prefix) else 0
        if c >= len(order):
            self.error = f"replay divergence at point {i}: choice {c} of {len(order)} options"
            return None
        self.points.append((me in en, len(order), tuple(f"{t}:{self.label.get(t, '')}" for t in order)))
        self.choices.append(c)
        return order[c]

    def _handoff(self, me, nxt):
        """give the baton to nxt; if me is given and differs, wait until me is scheduled again"""
        if nxt is None:
            if self.error is None and any(s in ("blocked",) for s in self.state.values()):
                self.deadlock = True
            self.finished.set()
            # wake everybody so that threads can unwind
            for t, s in self.sems.items():
                s.release()
            return
        self.state[nxt] = "running"
        if nxt != me:
            self.sems[nxt].release()

    # ---- called by the worker threads ------------------------------------------------------------------------------------
    def point(self, tid, label):
        with self.mutex:
            self.state[tid] = "ready"
            self.label[tid] = label
            nxt = self._pick(tid)
            self._handoff(tid, nxt)
        if nxt != tid:
            self.sems[tid].acquire()
            if self.finished.is_set() and self.state.get(tid) != "running":
                raise Deadlock()

    def block(self, tid, label):
        """the running thread cannot proceed (contended cooperative lock): pass the baton without being enabled"""
        with self.mutex:
            self.state[tid] = "blocked"
            self.label[tid] = label
            nxt = self._pick(None)
            self._handoff(tid, nxt)
        self.sems[tid].acquire()
        if self.finished.is_set() and self.state.get(tid) != "running":
            raise Deadlock()

    def unblock(self, tids):
        with self.mutex:
            for t in tids:
                if self.state.get(t) == "blocked":
                    self.state[t] = "ready"

    def finish(self, tid):
        with self.mutex:
            self.state[tid] = "done"
            nxt = self._pick(None)
            if nxt is None and all(s == "done" for s in self.state.values()):
                self.finished.set()
                return
            self._handoff(None, nxt)

    def start(self, tids):
        with self.mutex:
            for t in tids:
                self.state[t] = "ready"
                self.label[t] = "start"
            nxt = self._pick(None)
            self._handoff(None, nxt)


class CoopLock:
    """Drop-in for threading.Lock inside the explored code: contended acquire yields to the scheduler."""

    def __init__(self, sched_ref):
        self._ref = sched_ref
        self._owner = None
        self._waiters: list[int] = []

    def acquire(self, blocking=True, timeout=-1):
        tid = getattr(_TL, "tid", None)
        s = self._ref()
        while self._owner is not None:
            if tid is None or s is None:
                raise HarnessError("cooperative lock contended outside a scheduled thread")
            self._waiters.append(tid)
            s.block(tid, "lock")
        self._owner = tid if tid is not None else -1
        return True

    def release(self):
        self._owner = None
        s = self._ref()
        w, self._waiters = self._waiters, []
        if s is not None and w:
            s.unblock(w)

    def locked(self):
        return self._owner is not None

    __enter__ = acquire

    def __exit__(self, *a):
        self.release()


_CURRENT = {"sched": None}


def coop_locks(obj):
    """replace lock-typed attributes of obj (and of its class/module-level namespace) by cooperative locks"""
    n = 0
    for holder in (obj,):
        for k, v in list(vars(holder).items()):
            if isinstance(v, _LOCK_TYPES):
                setattr(holder, k, CoopLock(lambda: _CURRENT["sched"]))
                n += 1
    return n


_COOP = {"on": True}


class _ThreadingShim:
    """Stands in for the `threading` module inside fakesnow's modules: locks created by the library at any time
    (also lazily, e.g. one lock per database kept in a dict) are cooperative while schedules are explored."""

    def __init__(self, real):
        self._real = real

    def Lock(self):  # noqa: N802
        return CoopLock(lambda: _CURRENT["sched"]) if _COOP["on"] else self._real.Lock()

    def RLock(self):  # noqa: N802
        return CoopLock(lambda: _CURRENT["sched"]) if _COOP["on"] else self._real.RLock()

    def __getattr__(self, k):
        return getattr(self._real, k)


def install_threading_shim(on=True):
    import sys

    _COOP["on"] = on
    for name, mod in list(sys.modules.items()):
        if name == "fakesnow" or name.startswith("fakesnow."):
            t = getattr(mod, "threading", None)
            if t is threading:
                mod.threading = _ThreadingShim(threading)


def _before(kind, sql):
    tid = getattr(_TL, "tid", None)
    s = _CURRENT["sched"]
    if tid is not None and s is not None:
        s.point(tid, (sql or kind).strip().split("\n")[0][:40])


def run_schedule(prefix, make_env, bodies, timeout=30.0):
    """One execution. make_env() -> env (fresh instance etc., may call coop_locks); bodies: list of fn(env) -> result.
    Returns dict(choices, points, results, env, deadlock)."""
    hub = seam.install()
    hub.before = None
    env = make_env()
    s = Scheduler(prefix)
    _CURRENT["sched"] = s
    results = {}

    def work(tid, body):
        _TL.tid = tid
        s.sems[tid].acquire()
        if s.finished.is_set():
            results[tid] = ("not_run",)
            return
        try:
            results[tid] = ("ok", body(env))
        except Deadlock:
            results[tid] = ("deadlock",)
            return
        except Exception as e:  # noqa: BLE001
            results[tid] = ("exc", type(e).__module__.split(".")[0] + "." + type(e).__name__, str(e).split("\n")[0][:100])
        finally:
            _TL.tid = None
        s.finish(tid)

    threads = []
    for tid, b in enumerate(bodies):
        s.sems[tid] = threading.Semaphore(0)
        threads.append(threading.Thread(target=work, args=(tid, b), daemon=True))
    for t in threads:
        t.start()
    hub.before = _before
    s.start(list(range(len(bodies))))
    ok = s.finished.wait(timeout)
    hub.before = None
    _CURRENT["sched"] = None
    for t in threads:
        t.join(2.0)
    if not ok:
        raise HarnessError(f"schedule {prefix} did not finish within {timeout}s (states {s.state})")
    if s.error:
        raise HarnessError(f"scheduler: {s.error} (prefix {prefix})")
    return {"choices": list(s.choices), "points": list(s.points), "results": results, "env": env, "deadlock": s.deadlock}


def children(prefix_len, choices, points, bound):
    """prefixes to explore next (iterative context bounding)"""
    out = []
    pre = 0
    for i, (cur_enabled, nopt, _labels) in enumerate(points):
        if i >= prefix_len:
            cost = pre + (1 if cur_enabled else 0)
            if cost <= bound:
                for alt in range(1, nopt):
                    out.append(choices[:i] + [alt])
        if cur_enabled and choices[i] != 0:
            pre += 1
    return out


def preemptions(choices, points):
    return sum(1 for c, p in zip(choices, points) if p[0] and c != 0)


def _tb():
    return traceback.format_exc()
