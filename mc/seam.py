"""The only seam: a Python proxy around the object returned by duckdb.connect (installed in the harness process).

The proxy never rewrites SQL or results. It numbers engine calls (execute / cursor / close) and calls a hook before
each of them; E3 yields to its scheduler there, E4 kills the process there.
"""
from __future__ import annotations

import duckdb

_real_connect = duckdb.connect


class Hub:
    """Receives a callback before every engine call."""

    def __init__(self):
        self.log: list = []
        self.n = 0
        self.before = None  # callable(kind, sql) or None

    def point(self, kind: str, sql: str | None):
        self.n += 1
        self.log.append((kind, (sql or "").strip()[:120]))
        if self.before is not None:
            self.before(kind, sql)


HUB = Hub()


class Proxy:
    def __init__(self, real, hub: Hub):
        self._r = real
        self._hub = hub

    def execute(self, sql, params=None):
        self._hub.point("execute", sql)
        if params is not None:
            self._r.execute(sql, params)
        else:
            self._r.execute(sql)
        return self

    def cursor(self):
        self._hub.point("cursor", None)
        return Proxy(self._r.cursor(), self._hub)

    def close(self):
        self._hub.point("close", None)
        return self._r.close()

    def __getattr__(self, k):
        return getattr(self._r, k)


def install(hub: Hub | None = None) -> Hub:
    hub = hub or HUB
    duckdb.connect = lambda *a, **k: Proxy(_real_connect(*a, **k), hub)
    return hub


def uninstall():
    duckdb.connect = _real_connect
