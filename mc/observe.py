"""Ground-truth observers: read the real DuckDB catalog/data behind a FakeSnow instance, bypassing fakesnow."""
from __future__ import annotations

import duckdb

SKIP = "('memory','system','temp')"


def raw(fs):
    """A raw DuckDB cursor on the instance that does not go through fakesnow (nor through the seam proxy)."""
    c = fs.duck_conn
    c = getattr(c, "_r", c)
    return c.cursor()


def tx_open(duck_conn) -> bool:
    """Is an explicit transaction open on this DuckDB connection?
    NOT side-effect free when a transaction is open (the failing BEGIN invalidates DuckDB's pending state), so it is
    off by default; checks decide "transaction still open" from effects (pending rows still visible, still commit)."""
    c = getattr(duck_conn, "_r", duck_conn)
    try:
        c.execute("BEGIN")
    except duckdb.TransactionException:
        return True
    c.execute("ROLLBACK")
    return False


def engine_conn(conn):
    """the session's own engine connection, found by type (not by the name of a private attribute)"""
    for v in vars(conn).values():
        r = getattr(v, "_r", v) if type(v).__name__ == "Proxy" else v
        if isinstance(r, duckdb.DuckDBPyConnection):
            return r
    return None


def session_state(conn, with_tx: bool = False):
    """Per-session ground truth. Internal attributes are read defensively: if a behaviour-preserving refactoring
    renames one of them the component degrades to None instead of failing the check."""
    d = engine_conn(conn)
    cd = None
    if d is not None:
        try:
            cd = d.execute("select current_database(), current_schema()").fetchall()[0]
        except duckdb.Error as e:  # closed connection etc.
            cd = ("<err>", type(e).__name__)
    vobj = getattr(conn, "variables", None)
    variables = next((v for v in vars(vobj).values() if isinstance(v, dict)), None) if vobj is not None else None
    return (
        getattr(conn, "database", None),
        getattr(conn, "schema", None),
        getattr(conn, "database_set", None),
        getattr(conn, "schema_set", None),
        cd,
        tuple(sorted(variables.items())) if isinstance(variables, dict) else None,
        tx_open(d) if with_tx and d is not None and cd and cd[0] != "<err>" else None,
    )


def catalog(fs, views: bool = False, data: bool = True, cur=None):
    o = cur or raw(fs)
    q = lambda s: o.execute(s).fetchall()  # noqa: E731
    dbs = tuple(sorted(r[0] for r in q(f"select database_name from duckdb_databases() where database_name not in {SKIP}")))
    schemas = tuple(
        sorted(
            q(
                f"select database_name, schema_name from duckdb_schemas() where database_name not in {SKIP} "
                "and schema_name not in ('pg_catalog')"
            )
        )
    )
    tabs = q(
        f"select database_name, schema_name, table_name, sql from duckdb_tables() where database_name not in {SKIP} "
        "and not internal order by all"
    )
    out = {"dbs": dbs, "schemas": schemas, "tables": tuple(tabs)}
    if views:
        out["views"] = tuple(
            q(
                f"select database_name, schema_name, view_name, sql from duckdb_views() where database_name not in {SKIP} "
                "and not internal and schema_name <> 'information_schema' order by all"
            )
        )
    if data:
        rows = {}
        for d, s, t, _ in tabs:
            rows[f"{d}.{s}.{t}"] = tuple(map(repr, q(f'select * from "{d}"."{s}"."{t}" order by all')))
        out["data"] = tuple(sorted(rows.items()))
    return out


def digest(fs, sessions=(), views: bool = False, data: bool = True, with_tx: bool = False):
    """Canonical ground-truth state (hashable by repr): catalog + data + side tables + per-session state."""
    c = catalog(fs, views=views, data=data)
    c["sessions"] = tuple(session_state(s, with_tx) for s in sessions)
    return tuple(sorted(c.items()))


def user_view(cat_or_digest):
    """Drop fakesnow's own bookkeeping (side tables, _fs_global) from a catalog dict -> what a user owns."""
    c = dict(cat_or_digest)
    c["dbs"] = tuple(d for d in c["dbs"] if d != "_fs_global")
    c["schemas"] = tuple(s for s in c["schemas"] if s[0] != "_fs_global")
    c["tables"] = tuple(t for t in c["tables"] if not t[2].startswith("_fs_"))
    if "data" in c:
        c["data"] = tuple(kv for kv in c["data"] if "._fs_" not in kv[0])
    return c
