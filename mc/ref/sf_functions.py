"""Reference semantics of the Snowflake functions fakesnow rewrites (property C10).

Written from the Snowflake SQL reference (function pages of REGEXP_REPLACE, REGEXP_SUBSTR, SPLIT, TRIM/LTRIM/RTRIM,
TO_DATE, TO_TIMESTAMP, TO_DECIMAL, DATEADD, DATEDIFF, SHA2, EQUAL_NULL and "Data type conversion"), with nothing
but Python's re, datetime, decimal (ROUND_HALF_UP) and hashlib.  It never looks at fakesnow or DuckDB.

Conventions
* SQL NULL is None.  "If any argument is NULL the result is NULL" is applied by every function here.
* ``SfError`` = Snowflake documents an error for this input (the statement fails).
* ``NotDemanded`` = the documentation does not pin the result down (or the input is outside the subset in which the
  reference can be trusted); callers must not build an expectation from it.
* Strings are sequences of characters; positions are 1-based as in SQL.

Regular expressions: Snowflake documents POSIX ERE plus the Perl shorthands \\d \\s \\w.  POSIX picks the
leftmost-*longest* match, Python's ``re`` the leftmost-*first* one.  ``check_pattern`` admits only patterns on which
the two rules coincide (see its docstring); everything else raises NotDemanded.
"""
from __future__ import annotations

import datetime as dt
import decimal
import hashlib
import re
from decimal import Decimal

D = dt.date
TS = dt.datetime


class SfError(Exception):
    """Snowflake rejects this call."""


class NotDemanded(Exception):
    """The documentation leaves this case open; no expectation may be derived."""


# ------------------------------------------------------------------------------------------------------------------
# regular expressions

_ATOM = r"(?:[A-Za-z0-9 ,_#<>-]|\\[.dwsDWS\\]|\.|\[(?:[A-Za-z0-9]-[A-Za-z0-9]|[A-Za-z0-9])+\])"
_QUANT = r"[*+?]?"
_PIECE = rf"(?:{_ATOM}{_QUANT})"
_BRANCH = rf"(?:{_PIECE})+"
# a group holds one branch or an alternation of single literal characters (no alternative is a prefix of another)
_GROUP = rf"\((?:{_BRANCH}|[A-Za-z0-9](?:\|[A-Za-z0-9])+)\){_QUANT}"
_PATTERN = re.compile(rf"^\^?(?:{_PIECE}|{_GROUP})+\$?$")


def check_pattern(p: str) -> None:
    """Admit only the subset on which POSIX ERE (leftmost-longest) and Python re (leftmost-first) agree:

    literals, ``.``, bracket classes of literals/ranges, ``\\.`` ``\\\\`` ``\\d`` ``\\w`` ``\\s`` (and their upper-case complements), greedy ``* + ?``
    on single atoms or on groups, non-nested capturing groups, alternation only between single characters inside a
    group, optional ``^`` at the start and ``$`` at the end.  Patterns that can match the empty string are refused
    (engines disagree on where empty matches are counted).
    """
    if not _PATTERN.match(p):
        raise NotDemanded(f"pattern outside the agreed subset: {p!r}")
    if re.compile(p).match("") is not None or re.compile(p).search("") is not None:
        raise NotDemanded(f"pattern can match the empty string: {p!r}")
    # alternatives must be pairwise distinct single characters: guaranteed by the grammar; distinctness:
    for alt in re.findall(r"\(([A-Za-z0-9](?:\|[A-Za-z0-9])+)\)", p):
        xs = alt.split("|")
        if len(set(xs)) != len(xs):
            raise NotDemanded("repeated alternative")


def _flags(parameters: str) -> tuple[int, bool]:
    """regex parameters string -> (re flags, extract).  Default is case-sensitive ('c'); if both c and i are given
    the last one wins (documented).  m and s are not used by the check and refused here."""
    fl = 0
    extract = False
    for ch in parameters:
        if ch == "c":
            fl &= ~re.IGNORECASE
        elif ch == "i":
            fl |= re.IGNORECASE
        elif ch == "e":
            extract = True
        else:
            raise NotDemanded(f"regex parameter {ch!r}")
    return fl, extract


def n_groups(pattern: str) -> int:
    return re.compile(pattern).groups


def regexp_substr(subject, pattern, position=1, occurrence=1, parameters="c", group_num=None):
    """REGEXP_SUBSTR(<subject>, <pattern> [, <position> [, <occurrence> [, <regex_params> [, <group_num>]]]])

    Returns the substring matching the ``occurrence``-th non-overlapping match found when searching from character
    ``position``; NULL if there is no such match or any argument is NULL.  With 'e' the first group is returned
    (group_num defaults to 1); giving group_num implies 'e'."""
    if None in (subject, pattern, position, occurrence, parameters) :
        return None
    check_pattern(pattern)
    if position < 1 or occurrence < 1:
        raise NotDemanded("position/occurrence below 1")
    if pattern.startswith("^") and position != 1:
        raise NotDemanded("^ together with a start position")
    fl, extract = _flags(parameters)
    if group_num is not None:
        extract = True
        grp = group_num
    else:
        grp = 1 if extract else 0
    if extract:
        if n_groups(pattern) == 0:
            raise NotDemanded("'e' / group_num with a pattern without groups")
        if not 1 <= grp <= n_groups(pattern):
            raise NotDemanded("group_num out of range")
    ms = list(re.compile(pattern, fl).finditer(subject[position - 1 :]))
    if occurrence > len(ms):
        return None
    m = ms[occurrence - 1]
    return m.group(grp)  # a group that did not participate is NULL


def _expand(repl: str, m: re.Match) -> str:
    """Snowflake replacement strings: \\N is the N-th group; everything else is literal."""
    out = []
    i = 0
    while i < len(repl):
        c = repl[i]
        if c == "\\":
            if i + 1 < len(repl) and repl[i + 1].isdigit():
                g = int(repl[i + 1])
                if g > m.re.groups:
                    raise NotDemanded("back-reference to a missing group")
                out.append(m.group(g) or "")
                i += 2
                continue
            raise NotDemanded("backslash other than a back-reference in the replacement")
        out.append(c)
        i += 1
    return "".join(out)


def regexp_replace(subject, pattern, replacement="", position=1, occurrence=0, parameters="c"):
    """REGEXP_REPLACE(<subject>, <pattern> [, <replacement>, <position>, <occurrence>, <parameters>])

    Replaces every match (occurrence 0, the default) or only the n-th one, searching from ``position``; characters
    before ``position`` are kept.  Default replacement is the empty string.  NULL if any argument is NULL."""
    if None in (subject, pattern, replacement, position, occurrence, parameters):
        return None
    check_pattern(pattern)
    if position < 1 or occurrence < 0:
        raise NotDemanded("position below 1 / negative occurrence")
    if pattern.startswith("^") and position != 1:
        raise NotDemanded("^ together with a start position")
    fl, extract = _flags(parameters)
    if extract:
        raise NotDemanded("'e' is meaningless for REGEXP_REPLACE")
    head, tail = subject[: position - 1], subject[position - 1 :]
    out = []
    last = 0
    for k, m in enumerate(re.compile(pattern, fl).finditer(tail), start=1):
        if occurrence in (0, k):
            out.append(tail[last : m.start()])
            out.append(_expand(replacement, m))
            last = m.end()
    out.append(tail[last:])
    return head + "".join(out)


# ------------------------------------------------------------------------------------------------------------------
# SPLIT / TRIM


def split(string, separator):
    """SPLIT: list of the pieces; an empty separator gives a one-element array holding the source string;
    contiguous separators or a separator at either end give empty strings; NULL if either argument is NULL."""
    if string is None or separator is None:
        return None
    if string == "":
        raise NotDemanded("SPLIT of the empty string")
    if separator == "":
        return [string]
    return string.split(separator)


def _to_varchar(x):
    if x is None or isinstance(x, str):
        return x
    if isinstance(x, bool):
        raise NotDemanded("boolean to VARCHAR")
    if isinstance(x, int):
        return str(x)
    raise NotDemanded(f"implicit VARCHAR cast of {type(x).__name__}")


def _trim(x, chars, left: bool, right: bool):
    x = _to_varchar(x)
    if x is None or chars is None:
        return None
    if chars == "":
        raise NotDemanded("empty character set")
    a, b = 0, len(x)
    if left:
        while a < b and x[a] in chars:
            a += 1
    if right:
        while b > a and x[b - 1] in chars:
            b -= 1
    return x[a:b]


def trim(x, chars=" "):
    """TRIM(<expr> [, <characters>]): removes leading and trailing characters that are in <characters>
    (default: a single blank, only blanks are removed)."""
    return _trim(x, chars, True, True)


def ltrim(x, chars=" "):
    return _trim(x, chars, True, False)


def rtrim(x, chars=" "):
    return _trim(x, chars, False, True)


# ------------------------------------------------------------------------------------------------------------------
# dates and timestamps

_ISO_DATE = re.compile(r"^(\d{4})-(\d{2})-(\d{2})$")
_ISO_TS = re.compile(r"^(\d{4})-(\d{2})-(\d{2})[ T](\d{2}):(\d{2}):(\d{2})(?:\.(\d{1,9}))?$")
_INT_STR = re.compile(r"^-?\d+$")

EPOCH = TS(1970, 1, 1)


def parse_ts_string(s: str) -> TS:
    """AUTO detection restricted to the ISO forms YYYY-MM-DD, YYYY-MM-DD[ T]HH24:MI:SS[.FF]."""
    m = _ISO_DATE.match(s)
    try:
        if m:
            return TS(int(m[1]), int(m[2]), int(m[3]))
        m = _ISO_TS.match(s)
        if m:
            frac = (m[7] or "").ljust(9, "0")
            if frac[6:] not in ("", "000"):
                raise NotDemanded("sub-microsecond digits (Python datetimes cannot carry them)")
            return TS(int(m[1]), int(m[2]), int(m[3]), int(m[4]), int(m[5]), int(m[6]), int(frac[:6] or 0))
    except ValueError:
        raise SfError(f"not a valid date/time: {s!r}") from None
    if not re.search(r"\d", s) and s.strip():
        raise SfError(f"not recognised as a date/time: {s!r}")  # no digit at all: no AUTO format can apply
    raise NotDemanded(f"non-ISO date/time string {s!r} (other AUTO formats are not modelled)")


def epoch_to_ts(n: int, scale: int | None = None) -> TS:
    """Integer → timestamp.  Without scale the documented magnitude rule applies: < 31536000000 seconds,
    < 31536000000000 milliseconds, < 31536000000000000 microseconds, else nanoseconds."""
    if scale is None:
        if n <= -31536000000:
            raise NotDemanded("large negative integers (the documented rule is stated for magnitudes)")
        a = abs(n)
        scale = 0 if a < 31536000000 else 3 if a < 31536000000000 else 6 if a < 31536000000000000 else 9
    if scale not in (0, 3, 6, 9):
        raise NotDemanded("scale other than 0/3/6/9")
    ns = n * 10 ** (9 - scale)
    if ns % 1000:
        raise NotDemanded("sub-microsecond digits")
    try:
        return EPOCH + dt.timedelta(microseconds=ns // 1000)
    except OverflowError:
        raise NotDemanded("outside the range of Python datetimes") from None


def to_timestamp(x, scale=None):
    """TO_TIMESTAMP / TO_TIMESTAMP_NTZ (TIMESTAMP_TYPE_MAPPING = TIMESTAMP_NTZ, the default): naive datetime."""
    if x is None:
        return None
    if isinstance(x, bool):
        raise NotDemanded("boolean")
    if isinstance(x, int):
        return epoch_to_ts(x, scale)
    if scale is not None:
        raise NotDemanded("scale with a non-integer argument")
    if isinstance(x, TS):
        if x.tzinfo is not None:
            raise NotDemanded("zoned input")
        return x
    if isinstance(x, D):
        return TS(x.year, x.month, x.day)
    if isinstance(x, str):
        if _INT_STR.match(x):  # "a string containing an integer" is treated like the integer
            return epoch_to_ts(int(x))
        return parse_ts_string(x)
    raise NotDemanded(type(x).__name__)


def to_date(x):
    """TO_DATE / DATE: date part of whatever TO_TIMESTAMP would produce for strings/timestamps; dates unchanged."""
    if x is None:
        return None
    if isinstance(x, TS):
        return x.date()
    if isinstance(x, D):
        return x
    if isinstance(x, str):
        return to_timestamp(x).date()
    raise NotDemanded(type(x).__name__)


PART_ALIASES = {
    "year": "y yy yyy yyyy yr years yrs",
    "quarter": "q qtr qtrs quarters",
    "month": "mm mon mons months",
    "week": "w wk weekofyear woy wy",
    "day": "d dd days dayofmonth",
    "hour": "h hh hr hours hrs",
    "minute": "m mi min minutes mins",
    "second": "s sec seconds secs",
    "millisecond": "ms msec milliseconds",
    "microsecond": "us usec microseconds",
    "nanosecond": "ns nsec nanosec nsecond nanoseconds nanosecs nseconds",
}
_PART = {a: p for p, al in PART_ALIASES.items() for a in [p] + al.split()}
DAY_OR_LARGER = ("year", "quarter", "month", "week", "day")
_US = {"hour": 3600 * 10**6, "minute": 60 * 10**6, "second": 10**6, "millisecond": 1000, "microsecond": 1}


def part(name: str) -> str:
    try:
        return _PART[name.lower()]
    except KeyError:
        raise NotDemanded(f"date part {name!r}") from None


def _days_in_month(y: int, m: int) -> int:
    return (D(y + (m == 12), m % 12 + 1, 1) - D(y, m, 1)).days


def add_months(d, n: int):
    """Documented rule: the day of month is kept unless the result month is shorter, then its last day is used."""
    k = d.year * 12 + (d.month - 1) + n
    y, m = divmod(k, 12)
    m += 1
    if not 1 <= y <= 9999:
        raise NotDemanded("year out of range")
    return d.replace(year=y, month=m, day=min(d.day, _days_in_month(y, m)))


def dateadd(part_name: str, n, value):
    """DATEADD(<part>, <n>, <date_or_time_expr>).

    Result type: a DATE input with a part of day or larger stays a DATE; a DATE input with a smaller part becomes a
    TIMESTAMP_NTZ starting at midnight; a timestamp input stays a timestamp."""
    p = part(part_name)
    if n is None or value is None:
        return None
    if not isinstance(n, int) or isinstance(n, bool):
        raise NotDemanded("non-integer amount")
    is_date = isinstance(value, D) and not isinstance(value, TS)
    if p in ("year", "quarter", "month"):
        return add_months(value, n * {"year": 12, "quarter": 3, "month": 1}[p])
    if p in ("week", "day"):
        return value + dt.timedelta(days=n * (7 if p == "week" else 1))
    if p == "nanosecond":
        if n % 1000:
            raise NotDemanded("sub-microsecond result")
        us = n // 1000
    else:
        us = n * _US[p]
    base = TS(value.year, value.month, value.day) if is_date else value
    return base + dt.timedelta(microseconds=us)


def _as_ts(x) -> TS:
    return x if isinstance(x, TS) else TS(x.year, x.month, x.day)


def datediff(part_name: str, a, b) -> int | None:
    """DATEDIFF(<part>, <a>, <b>) = number of <part> boundaries crossed going from a to b: both values are cut down
    to the part (smaller units ignored), then subtracted.  Weeks start on Monday (WEEK_START default 0)."""
    p = part(part_name)
    if a is None or b is None:
        return None
    a, b = _as_ts(a), _as_ts(b)
    if p == "year":
        return b.year - a.year
    if p == "quarter":
        return (b.year * 4 + (b.month - 1) // 3) - (a.year * 4 + (a.month - 1) // 3)
    if p == "month":
        return (b.year * 12 + b.month) - (a.year * 12 + a.month)
    if p == "week":
        ma = a.date().toordinal() - a.weekday()
        mb = b.date().toordinal() - b.weekday()
        return (mb - ma) // 7
    if p == "day":
        return b.date().toordinal() - a.date().toordinal()

    def us(t: TS) -> int:
        d = t - EPOCH
        return (d.days * 86400 + d.seconds) * 10**6 + d.microseconds

    if p == "nanosecond":
        return (us(b) - us(a)) * 1000
    unit = _US[p]
    return us(b) // unit - us(a) // unit


# ------------------------------------------------------------------------------------------------------------------
# fixed-point numbers

_NUM_STR = re.compile(r"^[+-]?(?:\d+\.?\d*|\.\d+)(?:[eE][+-]?\d+)?$")


def _fit(v: Decimal, precision: int, scale: int) -> Decimal:
    if not (1 <= precision <= 38 and 0 <= scale <= precision):
        raise NotDemanded("precision/scale outside 1..38 / 0..p")
    q = v.quantize(Decimal(1).scaleb(-scale), rounding=decimal.ROUND_HALF_UP, context=decimal.Context(prec=80))
    # copy_abs / an integer power: plain abs() and Decimal ** would round to the 28 digits of the default context
    if q.copy_abs() >= Decimal(10 ** (precision - scale)):
        raise SfError(f"numeric value {v} is out of range for NUMBER({precision},{scale})")
    return q


def to_decimal(x, precision: int = 38, scale: int = 0):
    """TO_DECIMAL / TO_NUMBER / TO_NUMERIC(<expr> [, <precision> [, <scale>]]) — defaults 38 and 0.

    Fixed-point and string inputs are rounded half away from zero to <scale> digits; a value that does not fit the
    precision, or a string that is not a number, is an error."""
    if x is None:
        return None
    if isinstance(x, bool):
        raise NotDemanded("boolean")
    if isinstance(x, float):
        # binary fractions: only demanded where the decimal expansion of the double is not at a rounding midpoint
        v = Decimal(x)
        q = _fit(v, precision, scale)
        if (v - q).copy_abs() == Decimal(1).scaleb(-scale) / 2:
            raise NotDemanded("FLOAT exactly at a rounding midpoint")
        return q
    if isinstance(x, (int, Decimal)):
        return _fit(Decimal(x), precision, scale)
    if isinstance(x, str):
        if not _NUM_STR.match(x):
            if x.strip() != x or x.strip() == "":
                raise NotDemanded("blank / padded string")
            raise SfError(f"{x!r} is not recognised as a numeric value")
        return _fit(Decimal(x), precision, scale)
    raise NotDemanded(type(x).__name__)


def try_to_decimal(x, precision: int = 38, scale: int = 0):
    """TRY_ form: NULL instead of the conversion error (string input only)."""
    if x is not None and not isinstance(x, str):
        raise NotDemanded("TRY_TO_DECIMAL takes a string expression")
    try:
        return to_decimal(x, precision, scale)
    except SfError:
        return None


def cast_number(x, precision: int = 38, scale: int = 0):
    """<x>::NUMBER(p,s); INT / INTEGER / BIGINT / SMALLINT / TINYINT / BYTEINT are synonyms of NUMBER(38,0)."""
    return to_decimal(x, precision, scale)


def cast_float(x):
    if x is None:
        return None
    if isinstance(x, bool):
        raise NotDemanded("boolean")
    if isinstance(x, (int, float, Decimal)):
        return float(x)
    if isinstance(x, str):
        if not _NUM_STR.match(x):
            raise NotDemanded("special float spellings")
        return float(x)
    raise NotDemanded(type(x).__name__)


# ------------------------------------------------------------------------------------------------------------------
# SHA2 / EQUAL_NULL


def sha2_hex(msg, bits: int = 256):
    """SHA2 / SHA2_HEX(<msg> [, <digest_size>]): hex string of the SHA-2 digest; sizes 224, 256 (default), 384, 512."""
    if msg is None or bits is None:
        return None
    if not isinstance(msg, str):
        raise NotDemanded("non-string message")
    if bits not in (224, 256, 384, 512):
        raise SfError("invalid digest size")
    return hashlib.new(f"sha{bits}", msg.encode("utf-8")).hexdigest()


def sha2_binary(msg, bits: int = 256):
    h = sha2_hex(msg, bits)
    return None if h is None else bytes.fromhex(h)


def equal_null(a, b) -> bool:
    """EQUAL_NULL: NULL-safe equality — TRUE for two NULLs, FALSE for one NULL, otherwise a = b."""
    if a is None or b is None:
        return a is None and b is None
    return a == b


# ------------------------------------------------------------------------------------------------------------------
# operator contexts: a function call is atomic — as an operand of an operator (or with a compound argument) it keeps its
# value.  SQL three-valued logic and the expectations of a call standing in the operand positions of the operators.


def sql_not(a):
    return None if a is None else (not a)


def sql_and(a, b):
    if a is False or b is False:
        return False
    if a is None or b is None:
        return None
    return True


def sql_or(a, b):
    if a is True or b is True:
        return True
    if a is None or b is None:
        return None
    return False


def sql_cmp(op: str, a, b):
    """Comparison of two values of one type family; NULL if an operand is NULL."""
    if a is None or b is None:
        return None
    return {"=": a == b, "<>": a != b, "<": a < b, "<=": a <= b, ">": a > b, ">=": a >= b}[op]


def sql_in(a, items):
    """a IN (items): TRUE if a equals an item, else NULL if a or an item is NULL, else FALSE."""
    if a is None:
        return None
    if any(x is not None and x == a for x in items):
        return True
    return None if any(x is None for x in items) else False


def different(v):
    """A value of the same type that is greater than v (bool: the other one)."""
    if isinstance(v, bool):
        return not v
    if isinstance(v, (int, Decimal)):
        return v + 1
    if isinstance(v, float):
        return v + 1.0
    if isinstance(v, str):
        return v + "x"
    if isinstance(v, (D, TS)):
        return v + dt.timedelta(days=1)
    raise NotDemanded(type(v).__name__)


def operator_contexts(v, kind: str):
    """The operand positions a call can stand in, for a call whose documented value is v (of result kind ``kind``:
    str | num | float | bool | date | ts).  Returns [(family, template, expected value, expected kind)]: the template holds
    {F} for the text of the call, {V} for a literal of v and {W} for a literal of different(v).  The expectation is what the
    operator yields when {F} is replaced by the *value* v (operator semantics of standard SQL: comparison, three-valued
    AND / OR / NOT, IS NULL, IN, BETWEEN, CASE, + - * and unary minus on numbers, || on strings, DATE + integer = days,
    and the casts documented under "Data type conversion")."""
    out = []

    def add(family, tpl, val, k="bool"):
        out.append((family, tpl, val, k))

    add("is_null", "{F} IS NULL", v is None)
    add("is_null", "{F} IS NOT NULL", v is not None)
    add("is_null", "NOT {F} IS NULL", v is not None)
    add("case", "CASE WHEN 1 = 1 THEN {F} END", v, kind)
    add("function_argument", "COALESCE(NULL, {F})", v, kind)
    if v is None:
        add("cmp_both", "{F} = {F}", None)
        add("function_argument", "NVL2({F}, 1, 0)", 0, "num")
        return out
    w = different(v)
    ops = ("=", "<>") if kind == "bool" else ("=", "<>", "<", "<=", ">", ">=")
    for op in ops:
        add("cmp_left", f"{{F}} {op} {{V}}", sql_cmp(op, v, v))
        add("cmp_left", f"{{F}} {op} {{W}}", sql_cmp(op, v, w))
        add("cmp_right", f"{{V}} {op} {{F}}", sql_cmp(op, v, v))
        add("cmp_right", f"{{W}} {op} {{F}}", sql_cmp(op, w, v))
    add("cmp_both", "{F} = {F}", True)
    add("cmp_both", "{F} <> {F}", False)
    add("in_subject", "{F} IN ({W}, {V})", sql_in(v, [w, v]))
    add("in_subject", "{F} IN ({W})", sql_in(v, [w]))
    add("in_subject", "{F} NOT IN ({V})", sql_not(sql_in(v, [v])))
    add("in_subject", "{F} NOT IN ({W})", sql_not(sql_in(v, [w])))
    add("in_member", "{V} IN ({F})", sql_in(v, [v]))
    add("in_member", "{W} IN ({V}, {F})", sql_in(w, [v, v]))
    add("in_member", "{W} NOT IN ({F})", sql_not(sql_in(w, [v])))
    if kind != "bool":
        add("between_subject", "{F} BETWEEN {V} AND {W}", True)
        add("between_subject", "{F} NOT BETWEEN {V} AND {W}", False)
        add("between_bound", "{W} BETWEEN {F} AND {W}", True)
        add("between_bound", "{V} BETWEEN {W} AND {F}", False)
    add("not_comparison", "NOT {F} = {V}", False)
    add("not_comparison", "NOT {F} = {W}", True)
    add("and_or_of_comparisons", "{F} = {V} AND {F} <> {W}", True)
    add("and_or_of_comparisons", "{F} = {W} OR {F} = {V}", True)
    add("and_or_of_comparisons", "{F} = {W} OR {F} <> {V}", False)
    add("case", "CASE WHEN {F} = {V} THEN 1 ELSE 0 END", 1, "num")
    add("case", "CASE WHEN {F} = {W} THEN 1 ELSE 0 END", 0, "num")
    add("case", "CASE {F} WHEN {W} THEN 0 WHEN {V} THEN 1 ELSE 2 END", 1, "num")
    add("function_argument", "COALESCE({F}, {W})", v, kind)
    add("function_argument", "IFF({F} = {V}, 1, 0)", 1, "num")
    add("function_argument", "NULLIF({F}, {W})", v, kind)
    add("function_argument", "NULLIF({F}, {V})", None, kind)
    add("function_argument", "NVL2({F}, 1, 0)", 1, "num")
    if kind == "bool":
        for other in (True, False, None):
            o = "NULL" if other is None else "TRUE" if other else "FALSE"
            add("bool_left", f"{{F}} AND {o}", sql_and(v, other))
            add("bool_left", f"{{F}} OR {o}", sql_or(v, other))
            add("bool_right", f"{o} AND {{F}}", sql_and(other, v))
            add("bool_right", f"{o} OR {{F}}", sql_or(other, v))
        add("bool_not", "NOT {F}", sql_not(v))
        add("bool_not", "NOT {F} AND TRUE", sql_not(v))
        add("bool_not", "NOT {F} OR FALSE", sql_not(v))
        add("bool_both", "{F} AND {F}", v)
        add("bool_both", "{F} OR {F}", v)
        add("bool_both", "{F} AND NOT {F}", False)
        add("case", "CASE WHEN {F} THEN 1 ELSE 0 END", 1 if v else 0, "num")
        add("function_argument", "IFF({F}, 1, 0)", 1 if v else 0, "num")
        add("cast", "{F}::BOOLEAN", v, "bool")
        add("cast", "CAST({F} AS BOOLEAN)", v, "bool")
        add("cast", "{F}::VARCHAR", "true" if v else "false", "str")
    elif kind in ("num", "float"):
        one, two, hundred = (1.0, 2.0, 100.0) if kind == "float" else (1, 2, 100)
        add("arith_left", "{F} + 1", v + one, kind)
        add("arith_left", "{F} - 1", v - one, kind)
        add("arith_left", "{F} * 2", v * two, kind)
        add("arith_right", "1 + {F}", one + v, kind)
        add("arith_right", "100 - {F}", hundred - v, kind)
        add("arith_right", "2 * {F}", two * v, kind)
        add("arith_right", "100 - {F} - 1", hundred - v - one, kind)
        add("arith_both", "{F} + {F}", v + v, kind)
        add("arith_both", "{F} - {F}", v - v, kind)
        add("unary_minus", "-{F}", -v, kind)
        add("unary_minus", "- {F} + 1", -v + one, kind)
        add("unary_minus", "1 - -{F}", one + v, kind)
        if kind == "num":
            add("cast", "{F}::NUMBER(38,6)", v, "num")
            add("cast", "CAST({F} AS NUMBER(38,6))", v, "num")
            add("cast", "{F}::FLOAT", float(v), "float")
        else:
            add("cast", "{F}::FLOAT", v, "float")
            add("cast", "CAST({F} AS DOUBLE)", v, "float")
    elif kind == "str":
        add("concat_left", "{F} || 'x'", v + "x", "str")
        add("concat_right", "'x' || {F}", "x" + v, "str")
        add("concat_right", "'x' || {F} || 'y'", "x" + v + "y", "str")
        add("concat_both", "{F} || {F}", v + v, "str")
        add("cast", "{F}::VARCHAR", v, "str")
        add("cast", "CAST({F} AS VARCHAR)", v, "str")
    elif kind == "date":
        add("arith_left", "{F} + 1", v + dt.timedelta(days=1), "date")
        add("arith_left", "{F} - 1", v - dt.timedelta(days=1), "date")
        add("arith_right", "1 + {F}", v + dt.timedelta(days=1), "date")
        add("cast", "{F}::DATE", v, "date")
        add("cast", "{F}::TIMESTAMP_NTZ", TS(v.year, v.month, v.day), "ts")
        add("cast", "CAST({F} AS TIMESTAMP_NTZ)", TS(v.year, v.month, v.day), "ts")
    elif kind == "ts":
        add("cast", "{F}::TIMESTAMP_NTZ", v, "ts")
        add("cast", "{F}::DATE", v.date(), "date")
        add("cast", "CAST({F} AS DATE)", v.date(), "date")
    else:
        raise NotDemanded(kind)
    return out
