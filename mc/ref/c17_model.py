"""Reference model for C17 (the HTTP server answers exactly like the in-process fake).

Two independent pieces, neither of which looks at fakesnow:

  1. the *equality* the property statement talks about: what it means for two fetched cells / rows / descriptions /
     errors (one seen through snowflake.connector over HTTP, one seen on the in-process fake connection) to be "the
     same": cmp_cell, cmp_rows, cmp_description, cmp_error, plus the value-class helpers used in class keys
     (frac_class: which microsecond fractions are not exactly representable when scaled in binary floating point);
  2. the session machine of the server: SessionModel = one dict per token (own database / schema / variables) plus one
     data store per instance (the shared one, one per ':isolated:' login, one per path-backed login); step() returns
     the expected answer of every operation of the alphabet and updates the model from the *operation* alone.

Sources: Python connector documentation (data type mapping: FIXED scale 0 -> int, scale > 0 -> Decimal, REAL -> float,
TEXT -> str, DATE -> date, TIME -> time, TIMESTAMP_NTZ -> naive datetime, TIMESTAMP_TZ -> aware datetime, BINARY ->
bytearray, VARIANT -> str), Snowflake documentation (sessions: "each session has its own current database, schema and
session variables"; unknown table -> 002003 / 42S02), fakesnow README ("FAKESNOW_DB_PATH=':isolated:' creates a new
in-memory database per connection, otherwise connections share one in-memory database") and server.py's two 401 codes
(390103 no Authorization header, 390104 unknown token).
"""
from __future__ import annotations

import datetime as dt
import decimal
import math
import struct

D = decimal.Decimal
ZERO = dt.timedelta(0)


# ----------------------------------------------------------------------------------------------------------------------
# 1. equality of observations


def pytype_name(v) -> str:
    """Python type as a user sees it; aware and naive datetimes / times are different kinds of thing."""
    if v is None:
        return "NoneType"
    if isinstance(v, dt.datetime):
        return "datetime(aware)" if v.tzinfo is not None else "datetime(naive)"
    if isinstance(v, dt.time):
        return "time(aware)" if v.tzinfo is not None else "time(naive)"
    t = type(v)
    return t.__name__ if t.__module__ == "builtins" else f"{t.__module__}.{t.__name__}"


def cmp_cell(a, b) -> set:
    """Compare one cell fetched in-process (a) with the same cell fetched over HTTP (b).

    Returns the set of failed sub-clauses:
      'null'    one side is None, the other is not
      'pytype'  the Python types differ (tzinfo *class* is not part of the type: pytz.UTC and zoneinfo UTC are both
                "aware datetime"; aware vs naive is a type difference)
      'value'   the values differ.  Judged whenever the two cells are comparable (numbers with numbers, bytes-likes
                with bytes-likes, datetimes with datetimes): floats bit-exact except that every NaN equals every NaN,
                Decimals numerically and by exponent (str() of both is what a user prints), aware datetimes by instant
                and both with zero UTC offset, naive datetimes by wall clock.
    """
    if a is None or b is None:
        return set() if (a is None and b is None) else {"null"}
    bad = set()
    if pytype_name(a) != pytype_name(b):
        bad.add("pytype")
    # value
    if isinstance(a, bool) or isinstance(b, bool):
        # True vs 1 is a type difference only; True vs 0 / True vs 'x' also a value difference
        other_ok = (isinstance(a, bool) or _is_num(a)) and (isinstance(b, bool) or _is_num(b))
        if not other_ok or bool(a) != bool(b):
            bad.add("value")
        return bad
    if isinstance(a, float) and isinstance(b, float):
        if math.isnan(a) or math.isnan(b):
            if not (math.isnan(a) and math.isnan(b)):
                bad.add("value")
        elif struct.pack(">d", a) != struct.pack(">d", b):
            bad.add("value")
        return bad
    if isinstance(a, D) and isinstance(b, D):
        if a.is_nan() or b.is_nan():
            if not (a.is_nan() and b.is_nan()):
                bad.add("value")
        elif a != b or a.as_tuple().exponent != b.as_tuple().exponent:
            bad.add("value")
        return bad
    if _is_num(a) and _is_num(b):
        ea, eb = _exact(a), _exact(b)
        if ea is None or eb is None or ea != eb:
            bad.add("value")
        return bad
    if isinstance(a, (bytes, bytearray)) and isinstance(b, (bytes, bytearray)):
        if bytes(a) != bytes(b):
            bad.add("value")
        return bad
    if isinstance(a, dt.datetime) and isinstance(b, dt.datetime):
        if (a.tzinfo is None) != (b.tzinfo is None):
            # comparable by wall clock only
            if a.replace(tzinfo=None) != b.replace(tzinfo=None):
                bad.add("value")
            return bad
        if a.tzinfo is not None:
            if a.utcoffset() != ZERO or b.utcoffset() != ZERO:
                bad.add("value")  # the fake hands out UTC instants; a non-zero offset on one side is a difference
            elif a != b:
                bad.add("value")
        elif a != b:
            bad.add("value")
        return bad
    if isinstance(a, dt.date) and isinstance(b, dt.date) and not isinstance(a, dt.datetime) and not isinstance(b, dt.datetime):
        if a != b:
            bad.add("value")
        return bad
    if isinstance(a, dt.time) and isinstance(b, dt.time):
        if a.replace(tzinfo=None) != b.replace(tzinfo=None):
            bad.add("value")
        return bad
    if isinstance(a, str) and isinstance(b, str):
        if a != b:
            bad.add("value")
        return bad
    if isinstance(a, (list, tuple)) and isinstance(b, (list, tuple)):
        if len(a) != len(b) or any(cmp_cell(x, y) for x, y in zip(a, b)):
            bad.add("value")
        return bad
    if isinstance(a, dict) and isinstance(b, dict):
        if a.keys() != b.keys() or any(cmp_cell(a[k], b[k]) for k in a):
            bad.add("value")
        return bad
    # unrelated kinds of thing (str vs date, ...): the type difference is the whole finding
    if "pytype" not in bad:
        if a != b:
            bad.add("value")
    return bad


def _is_num(x) -> bool:
    return isinstance(x, (int, float, D)) and not isinstance(x, bool)


def _exact(x):
    if isinstance(x, float):
        return D(x) if x == x and abs(x) != float("inf") else None
    if isinstance(x, D):
        return x if x.is_finite() else None
    return D(x)


def cell_key(v):
    """Total order key for multiset comparison of unordered results (never used to *judge* equality)."""
    if isinstance(v, float) and v != v:
        return ("float", "nan")
    if isinstance(v, dt.datetime) and v.tzinfo is not None:
        return ("datetime(aware)", v.astimezone(dt.timezone.utc).replace(tzinfo=None).isoformat())
    if isinstance(v, (bytes, bytearray)):
        return ("bytes", bytes(v).hex())
    if isinstance(v, D):
        return ("num", str(v.normalize()))
    if isinstance(v, bool):
        return ("bool", str(v))
    if isinstance(v, (int, float)):
        return ("num", str(D(v).normalize()) if v == v and abs(v) != float("inf") else repr(v))
    return (type(v).__name__, repr(v))


def row_key(r):
    return tuple(cell_key(v) for v in r)


def cmp_rows(ra, rb, ordered: bool):
    """Compare two fetched row lists.  Returns a list of findings
        ('count', len_a, len_b) | ('width', i, len_a, len_b) | ('cell', row index, column index, sub-clause set)
    Unordered results (no ORDER BY) are compared as multisets: both lists are sorted by a canonical key first."""
    if not ordered:
        ra = sorted(ra, key=row_key)
        rb = sorted(rb, key=row_key)
    out = []
    if len(ra) != len(rb):
        out.append(("count", len(ra), len(rb)))
    for i, (x, y) in enumerate(zip(ra, rb)):
        if len(x) != len(y):
            out.append(("width", i, len(x), len(y)))
            continue
        for j, (u, v) in enumerate(zip(x, y)):
            bad = cmp_cell(u, v)
            if bad:
                out.append(("cell", i, j, bad))
    return out


DESC_FIELDS = ("name", "type_code", "display_size", "internal_size", "precision", "scale", "is_nullable")


def desc_tuple(d):
    """The seven DB-API fields of one ResultMetadata entry."""
    return tuple(getattr(d, f) for f in DESC_FIELDS)


def cmp_description(da, db):
    """da, db: lists of 7-tuples.  Returns list of ('count', na, nb) | ('field', column index, field name)."""
    out = []
    if len(da) != len(db):
        out.append(("count", len(da), len(db)))
    for i, (x, y) in enumerate(zip(da, db)):
        for f, u, v in zip(DESC_FIELDS, x, y):
            if u != v or type(u) is not type(v):
                out.append(("field", i, f))
    return out


def cmp_error(ea, eb):
    """ea, eb: (class path, errno, sqlstate, msg).  The property names errno, sqlstate and message; the exception
    class is what a user catches.  Returns the list of differing parts."""
    return [n for n, u, v in zip(("class", "errno", "sqlstate", "message"), ea, eb) if u != v]


# ---- value classes used in class keys (functions of the *input* only) ------------------------------------------------


def frac_class(us: int) -> str:
    """Class of a microsecond fraction 0 <= us < 10**6:
       'zero'            no sub-second part
       'binary_inexact'  (us / 10**6) * 10**9, evaluated in IEEE-754 double arithmetic, is not an integer (e.g. 65 µs:
                         0.000065 * 1e9 = 65000.00000000001) - 34151 of the 10**6 fractions
       'binary_exact'    every other fraction
    An implementation that scales the sub-second part in floating point and converts to an integer is at the mercy of
    exactly this distinction; one that works in integers is not."""
    assert 0 <= us < 1_000_000
    if us == 0:
        return "zero"
    x = (us / 1_000_000) * 1_000_000_000.0
    return "binary_exact" if x == float(us * 1000) else "binary_inexact"


# ----------------------------------------------------------------------------------------------------------------------
# 2. session machine

LOGIN_KINDS = ("shared", "isolated", "path")
SCHEMAS = ("S1", "S2")
DATABASE = "DB1"
MAX_TOKENS = 3

# What a token writes depends on the token, in value AND in type, while the texts it reads with (sel, getv) are the same
# for every token: the identical query text therefore has different expected answers of different result types
# depending on who wrote last, on the sender's current schema, on its instance and on its own variables.
MARK_LITERALS = ("0", "'w1'", "'2002-02-02'::date")  # token index -> SQL constant written into MARK.WHO
MARK_VALUES = (0, "w1", dt.date(2002, 2, 2))  # ... and what the connector returns for it (int / str / date)
VAR_LITERALS = ("10", "'v1'", "2.5")  # token index -> SQL constant assigned to $V
VAR_VALUES = (10, "v1", D("2.5"))  # SELECT $V: NUMBER(2,0) -> int, VARCHAR -> str, NUMBER(2,1) -> Decimal

# statements a token can send: id -> sql template ({mark} / {var} = the token's own constants)
STMTS = {
    "put": "create or replace table MARK as select {mark} as WHO",
    "sel": "select WHO from MARK",
    "use1": "use schema S1",
    "use2": "use schema S2",
    "set": "set V = {var}",
    "getv": "select $V",
}
READ_STMTS = ("sel", "getv")  # token independent texts whose answers depend on the state


def stmt_sql(s: str, i: int) -> str:
    """SQL text of statement s sent by token i."""
    return STMTS[s].format(mark=MARK_LITERALS[i], var=VAR_LITERALS[i])


# statements sent WITHOUT a valid token: all of them would change something if they were executed on any session
INTRUDER_STMTS = {
    "put": "create or replace table MARK as select 9 as WHO",
    "use2": "use schema S2",
    "use1": "use schema S1",
    "set": "set V = 'intruder'",
}
AUTH_VARIANTS = ("missing", "bogus", "truncated", "extended", "empty", "other_scheme")
CODE_MISSING = "390103"
CODE_UNKNOWN = "390104"


class SessionModel:
    """tokens[i] = {'kind','inst','schema','vars'};  data[inst] = {schema: who | None}"""

    def __init__(self):
        self.tokens = []
        self.data = {}
        self._n_inst = 0

    # -- construction ------------------------------------------------------------------------------------------------
    def copy(self):
        m = SessionModel()
        m.tokens = [dict(t, vars=dict(t["vars"])) for t in self.tokens]
        m.data = {k: dict(v) for k, v in self.data.items()}
        m._n_inst = self._n_inst
        return m

    def key(self):
        """Canonical state: per token (kind, instance, schema, V); per instance the MARK table of each schema."""
        toks = tuple((t["kind"], t["inst"], t["schema"], t["vars"].get("V")) for t in self.tokens)
        data = tuple(sorted((k, tuple(sorted(v.items()))) for k, v in self.data.items()))
        return (toks, data)

    # -- alphabet ----------------------------------------------------------------------------------------------------
    def enabled(self, stmts, intruder_stmts, auth_variants):
        ops = []
        if len(self.tokens) < MAX_TOKENS:
            ops += [("login", k) for k in LOGIN_KINDS]
        for i in range(len(self.tokens)):
            ops += [("query", i, s) for s in stmts]
        for v in auth_variants:
            if v in ("truncated", "extended", "other_scheme") and not self.tokens:
                continue  # derived from a valid token: needs one
            ops += [("noauth", v, s) for s in intruder_stmts]
        return ops

    def changes_state(self, op) -> bool:
        """Does the model predict that op changes the state?  (pure: works on a copy)"""
        if op[0] == "login":
            return True
        if op[0] == "noauth":
            return False
        m = self.copy()
        m.step(op)
        return m.key() != self.key()

    # -- transition --------------------------------------------------------------------------------------------------
    def step(self, op):
        """Apply op, return the expected answer:
           ('login',)                          a new session, schema S1, no variables
           ('status',)                         the statement succeeds (content of the status row not demanded)
           ('rows', [tuple, ...])              exactly these rows
           ('err', errno|None, sqlstate|None)  ProgrammingError (None = not demanded)
           ('401', code)                       HTTP 401, success false, this code; nothing changes
        """
        if op[0] == "login":
            kind = op[1]
            if kind == "shared":
                inst = "shared"
            else:
                self._n_inst += 1
                inst = f"{kind}{self._n_inst}"
            # every instance starts without a MARK table in either schema
            self.data.setdefault(inst, {s: None for s in SCHEMAS})
            self.tokens.append({"kind": kind, "inst": inst, "schema": "S1", "vars": {}})
            return ("login",)
        if op[0] == "noauth":
            return ("401", CODE_MISSING if op[1] == "missing" else CODE_UNKNOWN)
        _, i, s = op
        t = self.tokens[i]
        store = self.data[t["inst"]]
        if s == "put":
            store[t["schema"]] = i
            return ("status",)
        if s == "sel":
            who = store[t["schema"]]
            if who is None:
                return ("err", 2003, "42S02")
            return ("rows", [(MARK_VALUES[who],)])
        if s in ("use1", "use2"):
            t["schema"] = "S1" if s == "use1" else "S2"
            return ("status",)
        if s == "set":
            t["vars"]["V"] = VAR_VALUES[i]
            return ("status",)
        if s == "getv":
            if "V" not in t["vars"]:
                return ("err", None, None)
            return ("rows", [(t["vars"]["V"],)])
        raise AssertionError(op)

    # -- expectations about ground truth -----------------------------------------------------------------------------
    def expected_context(self):
        """per token: (database, schema, variables dict)"""
        return [(DATABASE, t["schema"], dict(t["vars"])) for t in self.tokens]

    def expected_marks(self, i):
        """what token i's instance holds: {schema: who|None}"""
        return dict(self.data[self.tokens[i]["inst"]])


def auth_header(variant: str, valid_token: str | None):
    """Authorization header of a request that must be refused.  The documented form is  Snowflake Token="<token>"."""
    if variant == "missing":
        return None
    if variant == "bogus":
        return 'Snowflake Token="bogus"'
    if variant == "empty":
        return 'Snowflake Token=""'
    assert valid_token
    if variant == "truncated":
        return f'Snowflake Token="{valid_token[:-1]}"'
    if variant == "extended":
        return f'Snowflake Token="{valid_token}x"'
    if variant == "other_scheme":
        return f"Bearer {valid_token}"
    raise AssertionError(variant)
