"""Reference: three-valued-logic predicate evaluator and DML semantics over Python lists (boring on purpose).

Rows are tuples over the column list COLS. Predicates are small ASTs:
  None | ('true',) | ('false',)
  ('cmp', col, op, const)      op in = <> < <= > >=   (const may be None => comparison with NULL)
  ('colcmp', col, op, col2)
  ('isnull', col) | ('notnull', col)
  ('in', col, [consts]) | ('notin', col, [consts])
  ('equal_null', A, B) | ('isdistinct', A, B) | ('isnotdistinct', A, B)
        NULL-safe comparisons EQUAL_NULL(A, B), A IS DISTINCT FROM B, A IS NOT DISTINCT FROM B; an operand A/B is
        ('col', name) or ('const', value) (value may be None = the literal NULL). They are two-valued: never unknown.
  ('not', p) | ('and', p, q) | ('or', p, q)
Truth values: True, False, None (unknown).
"""
from __future__ import annotations

COLS = ("k", "v", "n")


def _cmp(a, op, b):
    if a is None or b is None:
        return None
    return {
        "=": a == b,
        "<>": a != b,
        "<": a < b,
        "<=": a <= b,
        ">": a > b,
        ">=": a >= b,
    }[op]


def _not(a):
    return None if a is None else (not a)


def _and(a, b):
    if a is False or b is False:
        return False
    if a is None or b is None:
        return None
    return True


def _or(a, b):
    if a is True or b is True:
        return True
    if a is None or b is None:
        return None
    return False


def _same(a, b):
    """NULL-safe equality (Snowflake EQUAL_NULL / IS NOT DISTINCT FROM): two NULLs are the same, a NULL and a value
    are not, two values are the same iff they are equal. Never unknown."""
    if a is None or b is None:
        return a is None and b is None
    return a == b


def operand(o, row, cols=COLS):
    return row[cols.index(o[1])] if o[0] == "col" else o[1]


def operand_sql(o):
    return o[1] if o[0] == "col" else lit(o[1])


def ev(p, row, cols=COLS):
    if p is None:
        return True
    t = p[0]
    g = lambda c: row[cols.index(c)]  # noqa: E731
    if t == "true":
        return True
    if t == "false":
        return False
    if t == "cmp":
        return _cmp(g(p[1]), p[2], p[3])
    if t == "colcmp":
        return _cmp(g(p[1]), p[2], g(p[3]))
    if t == "isnull":
        return g(p[1]) is None
    if t == "notnull":
        return g(p[1]) is not None
    if t == "in":
        r = False
        for c in p[2]:
            r = _or(r, _cmp(g(p[1]), "=", c))
        return r
    if t == "notin":
        return _not(ev(("in", p[1], p[2]), row, cols))
    if t in ("equal_null", "isnotdistinct"):
        return _same(operand(p[1], row, cols), operand(p[2], row, cols))
    if t == "isdistinct":
        return not _same(operand(p[1], row, cols), operand(p[2], row, cols))
    if t == "not":
        return _not(ev(p[1], row, cols))
    if t == "and":
        return _and(ev(p[1], row, cols), ev(p[2], row, cols))
    if t == "or":
        return _or(ev(p[1], row, cols), ev(p[2], row, cols))
    raise AssertionError(p)


def lit(c):
    if c is None:
        return "NULL"
    if isinstance(c, str):
        return "'" + c.replace("'", "''") + "'"
    return str(c)


def sql(p):
    """Render a predicate AST as SQL text (the check's own grammar, so the evaluator never parses SQL)."""
    if p is None:
        return ""
    t = p[0]
    if t == "true":
        return "TRUE"
    if t == "false":
        return "FALSE"
    if t == "cmp":
        return f"{p[1]} {p[2]} {lit(p[3])}"
    if t == "colcmp":
        return f"{p[1]} {p[2]} {p[3]}"
    if t == "isnull":
        return f"{p[1]} IS NULL"
    if t == "notnull":
        return f"{p[1]} IS NOT NULL"
    if t == "in":
        return f"{p[1]} IN ({', '.join(lit(c) for c in p[2])})"
    if t == "notin":
        return f"{p[1]} NOT IN ({', '.join(lit(c) for c in p[2])})"
    if t == "equal_null":
        return f"EQUAL_NULL({operand_sql(p[1])}, {operand_sql(p[2])})"
    if t == "isdistinct":
        return f"{operand_sql(p[1])} IS DISTINCT FROM {operand_sql(p[2])}"
    if t == "isnotdistinct":
        return f"{operand_sql(p[1])} IS NOT DISTINCT FROM {operand_sql(p[2])}"
    if t == "not":
        return f"NOT ({sql(p[1])})"
    if t == "and":
        return f"({sql(p[1])}) AND ({sql(p[2])})"
    if t == "or":
        return f"({sql(p[1])}) OR ({sql(p[2])})"
    raise AssertionError(p)


# ---- DML semantics ---------------------------------------------------------------------------------------------------
# SET forms: ('const', col, value) | ('incr', col, delta) | ('concat', col, suffix) | ('copy', col, col2)


def apply_set(row, sets, cols=COLS):
    r = list(row)
    for s in sets:
        i = cols.index(s[1])
        if s[0] == "const":
            r[i] = s[2]
        elif s[0] == "incr":
            r[i] = None if row[i] is None else row[i] + s[2]
        elif s[0] == "concat":
            r[i] = None if row[i] is None else row[i] + s[2]
        elif s[0] == "copy":
            r[i] = row[cols.index(s[2])]
        else:
            raise AssertionError(s)
    return tuple(r)


def set_sql(sets):
    out = []
    for s in sets:
        if s[0] == "const":
            out.append(f"{s[1]} = {lit(s[2])}")
        elif s[0] == "incr":
            out.append(f"{s[1]} = {s[1]} + {s[2]}")
        elif s[0] == "concat":
            out.append(f"{s[1]} = {s[1]} || {lit(s[2])}")
        elif s[0] == "copy":
            out.append(f"{s[1]} = {s[2]}")
    return ", ".join(out)


def update(rows, sets, pred):
    out, n = [], 0
    for r in rows:
        if ev(pred, r) is True:
            out.append(apply_set(r, sets))
            n += 1
        else:
            out.append(r)
    return out, n


def delete(rows, pred):
    keep = [r for r in rows if ev(pred, r) is not True]
    return keep, len(rows) - len(keep)
