"""Independent renderer of Python values as Snowflake SQL constants (reference model of C08).

Written from Snowflake's documented constant syntax, NOT from snowflake.connector.converter (nothing of the
connector or of fakesnow is imported here):

* String constants (docs: "String & binary data types" -> "String constants", single-quoted form): delimited by
  single quotes; a single quote inside is written as two single quotes (''), a backslash starts an escape sequence:
  \\' \\" \\\\ \\b \\f \\n \\r \\t \\0, \\ooo (octal), \\xhh (hex), \\uhhhh (unicode); a backslash before any other
  character is dropped.  Hence: quote -> '', backslash -> \\\\, the five control characters BS FF LF CR TAB are written
  with their symbolic escape and NUL as \\x00 (so that the statement text never contains a raw NUL/CR/LF, and a NUL
  followed by digits cannot be read as an octal escape); every other character
  (including % $ ? ; -- /* " and all non-ASCII) is an ordinary character of the constant and is written as is.
* Numeric constants (docs: "Numeric data types" -> "Numeric constants"): [+-]digits[.digits][e[+-]digits].
  A constant written without exponent is fixed point (NUMBER); ints and Decimals are written that way, exactly.
* Python float is Snowflake FLOAT (double).  To stay a FLOAT whatever the context, it is written as a string
  constant holding the shortest round-trip decimal representation, cast to FLOAT ('1e-320'::FLOAT); the docs define
  string -> FLOAT conversion for that notation.  NaN/inf are outside the domain (C08 "not demanded").
* BOOLEAN constants TRUE / FALSE; NULL.
* DATE / TIME / TIMESTAMP_NTZ / TIMESTAMP_TZ: documented ISO formats in a string constant cast to the type:
  'YYYY-MM-DD'::DATE, 'HH24:MI:SS[.FF6]'::TIME, 'YYYY-MM-DD HH24:MI:SS[.FF6]'::TIMESTAMP_NTZ,
  'YYYY-MM-DD HH24:MI:SS[.FF6]+TZH:TZM'::TIMESTAMP_TZ (the ISO form, offset directly after the seconds).
* A list/tuple (for IN) is the comma separated sequence of its elements' constants.

Also here, because the C08 oracle and its self-test need them:
* read_string_constant(): an independent *reader* of single-quoted string constants following the same documented
  rules (used by selftest/test_c08.py to prove render_str() round-trips, and to evaluate hand-written constants);
* like(): Snowflake LIKE without ESCAPE clause ('%' any sequence incl. empty and newlines, '_' exactly one
  character, no default escape character, case-sensitive, whole string must match; NULL operands are the caller's
  business).
"""
from __future__ import annotations

import datetime
import decimal

_SYMBOLIC = {
    "\\": "\\\\",
    "'": "''",
    "\x00": "\\x00",  # not \0: "\0" followed by two octal digits would read as an \ooo escape
    "\b": "\\b",
    "\f": "\\f",
    "\n": "\\n",
    "\r": "\\r",
    "\t": "\\t",
}
_UNESCAPE = {"'": "'", '"': '"', "\\": "\\", "b": "\b", "f": "\f", "n": "\n", "r": "\r", "t": "\t", "0": "\x00"}


class NotRenderable(ValueError):
    pass


def render_str(s: str) -> str:
    return "'" + "".join(_SYMBOLIC.get(ch, ch) for ch in s) + "'"


def render_int(i: int) -> str:
    return str(int(i))


def render_decimal(d: decimal.Decimal) -> str:
    if not d.is_finite():
        raise NotRenderable(d)
    return format(d, "f")  # never exponent notation


def render_float(f: float) -> str:
    if f != f or f in (float("inf"), float("-inf")):
        raise NotRenderable(f)
    return render_str(repr(float(f))) + "::FLOAT"


def _frac(us: int) -> str:
    return f".{us:06d}" if us else ""


def render_date(d: datetime.date) -> str:
    return f"'{d.year:04d}-{d.month:02d}-{d.day:02d}'::DATE"


def render_time(t: datetime.time) -> str:
    if t.tzinfo is not None:
        raise NotRenderable(t)
    return f"'{t.hour:02d}:{t.minute:02d}:{t.second:02d}{_frac(t.microsecond)}'::TIME"


def render_datetime(t: datetime.datetime) -> str:
    base = (
        f"{t.year:04d}-{t.month:02d}-{t.day:02d} {t.hour:02d}:{t.minute:02d}:{t.second:02d}{_frac(t.microsecond)}"
    )
    off = t.utcoffset()
    if off is None:
        return f"'{base}'::TIMESTAMP_NTZ"
    secs = off.days * 86400 + off.seconds
    if off.microseconds or secs % 60:
        raise NotRenderable(t)
    sign = "-" if secs < 0 else "+"
    hh, mm = divmod(abs(secs) // 60, 60)
    return f"'{base}{sign}{hh:02d}:{mm:02d}'::TIMESTAMP_TZ"


def render(v) -> str:
    """Python value -> text of a Snowflake constant (expression) denoting exactly that value."""
    if v is None:
        return "NULL"
    if isinstance(v, bool):
        return "TRUE" if v else "FALSE"
    if isinstance(v, int):
        return render_int(v)
    if isinstance(v, float):
        return render_float(v)
    if isinstance(v, decimal.Decimal):
        return render_decimal(v)
    if isinstance(v, str):
        return render_str(v)
    if isinstance(v, datetime.datetime):
        return render_datetime(v)
    if isinstance(v, datetime.date):
        return render_date(v)
    if isinstance(v, datetime.time):
        return render_time(v)
    if isinstance(v, (list, tuple)):
        if not v:
            raise NotRenderable(v)
        return ", ".join(render(x) for x in v)
    raise NotRenderable(type(v).__name__)


# ---- independent reader of single-quoted string constants (documented escape rules) ------------------------------
def read_string_constant(text: str, pos: int = 0):
    """Parse the single-quoted string constant starting at text[pos]; returns (value, index after the constant).

    Raises ValueError if there is no well-formed constant there."""
    if pos >= len(text) or text[pos] != "'":
        raise ValueError("no string constant at position %d" % pos)
    i = pos + 1
    out = []
    n = len(text)
    while True:
        if i >= n:
            raise ValueError("unterminated string constant")
        ch = text[i]
        if ch == "'":
            if i + 1 < n and text[i + 1] == "'":
                out.append("'")
                i += 2
                continue
            return "".join(out), i + 1
        if ch == "\\":
            if i + 1 >= n:
                raise ValueError("unterminated string constant")
            e = text[i + 1]
            if "0" <= e <= "7" and _is_octal3(text, i + 1):
                out.append(chr(int(text[i + 1 : i + 4], 8)))
                i += 4
            elif e in _UNESCAPE:
                out.append(_UNESCAPE[e])
                i += 2
            elif e == "x" and _is_hex(text[i + 2 : i + 4], 2):
                out.append(chr(int(text[i + 2 : i + 4], 16)))
                i += 4
            elif e == "u" and _is_hex(text[i + 2 : i + 6], 4):
                out.append(chr(int(text[i + 2 : i + 6], 16)))
                i += 6
            else:  # backslash before any other character: the backslash is ignored
                out.append(e)
                i += 2
            continue
        out.append(ch)
        i += 1


def _is_octal3(text, i):
    s = text[i : i + 3]
    return len(s) == 3 and all("0" <= c <= "7" for c in s)


def _is_hex(s, k):
    return len(s) == k and all(c in "0123456789abcdefABCDEF" for c in s)


# ---- LIKE (no ESCAPE clause) ----------------------------------------------------------------------------------------
def like(subject: str, pattern: str) -> bool:
    """Snowflake `subject LIKE pattern` for non-NULL operands, no ESCAPE clause: there is no default escape
    character, so a backslash in the pattern value is an ordinary character."""
    # classic two-pointer wildcard match, iterative (patterns are tiny; no regex so no metacharacter surprises)
    s, p = subject, pattern
    si = pi = 0
    star = -1
    mark = 0
    while si < len(s):
        if pi < len(p) and p[pi] == "%":
            star = pi
            mark = si
            pi += 1
        elif pi < len(p) and (p[pi] == "_" or p[pi] == s[si]):
            pi += 1
            si += 1
        elif star != -1:
            pi = star + 1
            mark += 1
            si = mark
        else:
            return False
    while pi < len(p) and p[pi] == "%":
        pi += 1
    return pi == len(p)
