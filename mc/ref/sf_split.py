"""Independent statement splitter / literal reader for Snowflake SQL text (reference model of C16).

Written from Snowflake's documented lexical rules, NOT from sqlglot, fakesnow or snowflake.connector.util_text
(nothing of those is imported here):

* a statement ends at a semicolon, except a semicolon that is inside
    - a single-quoted string constant  '...'   (a quote inside is written '' ; a backslash escapes the next
      character, so \\' does not end the constant),
    - a double-quoted identifier       "..."   (a double quote inside is written "" ; no backslash escapes),
    - a dollar-quoted string constant  $$...$$ (ends at the next $$ ; nothing is escaped inside),
    - a line comment                   -- ... up to the end of the line,
    - a block comment                  /* ... */ (ends at the first */ ; not nested);
* comments and white space are not part of a statement's meaning; a piece of text that holds nothing but comments
  and white space is not a statement (an "empty statement") and produces no result;
* the value of a single-quoted constant follows the documented escape sequences (reader shared with C08:
  mc.ref.sf_literal.read_string_constant); the value of a dollar-quoted constant is the text between the $$ pairs,
  byte for byte.

Outside the domain (callers must not feed it, `tokens` raises ValueError where it can tell): unterminated
constants / identifiers / block comments, the `//` line-comment form, nested block comments.
"""
from __future__ import annotations

from mc.ref.sf_literal import read_string_constant

WS = " \t\r\n\f\v"


def tokens(text: str):
    """-> list of (kind, source, value) with kind in
    'str' (value = the constant's value), 'dstr' (value = content), 'ident' (value = the identifier's name),
    'lcomment', 'bcomment', 'ws', 'semi', 'code' (maximal run of other characters).
    The sources concatenate to text."""
    out = []
    i, n = 0, len(text)
    run = []

    def flush():
        if run:
            out.append(("code", "".join(run), None))
            run.clear()

    while i < n:
        ch = text[i]
        two = text[i : i + 2]
        if ch == "'":
            flush()
            val, j = read_string_constant(text, i)
            out.append(("str", text[i:j], val))
            i = j
        elif ch == '"':
            flush()
            j = i + 1
            name = []
            while True:
                if j >= n:
                    raise ValueError("unterminated quoted identifier")
                if text[j] == '"':
                    if text[j : j + 2] == '""':
                        name.append('"')
                        j += 2
                        continue
                    break
                name.append(text[j])
                j += 1
            out.append(("ident", text[i : j + 1], "".join(name)))
            i = j + 1
        elif two == "$$":
            flush()
            j = text.find("$$", i + 2)
            if j < 0:
                raise ValueError("unterminated dollar-quoted constant")
            out.append(("dstr", text[i : j + 2], text[i + 2 : j]))
            i = j + 2
        elif two == "--":
            flush()
            j = i
            while j < n and text[j] != "\n":
                j += 1
            out.append(("lcomment", text[i:j], None))  # the newline itself is white space
            i = j
        elif two == "/*":
            flush()
            j = text.find("*/", i + 2)
            if j < 0:
                raise ValueError("unterminated block comment")
            out.append(("bcomment", text[i : j + 2], None))
            i = j + 2
        elif ch == ";":
            flush()
            out.append(("semi", ";", None))
            i += 1
        elif ch in WS:
            flush()
            j = i
            while j < n and text[j] in WS:
                j += 1
            out.append(("ws", text[i:j], None))
            i = j
        else:
            run.append(ch)
            i += 1
    flush()
    return out


def _code_of(toks) -> str:
    """Statement text with comments dropped and every white-space/comment run outside constants collapsed to one
    blank; constants and quoted identifiers are kept byte for byte."""
    parts = []
    gap = False
    for kind, src, _ in toks:
        if kind in ("ws", "lcomment", "bcomment"):
            gap = True
            continue
        if gap and parts:
            parts.append(" ")
        gap = False
        parts.append(src)
    return "".join(parts)


def split(text: str):
    """-> list of statements, each a dict {raw, code, literals}:
    raw       the exact slice of text (without the terminating semicolon),
    code      comments removed / white space normalised (see _code_of),
    literals  [(kind, value)] for the string constants of the statement in order ('str' | 'dstr').
    Pieces without any code (empty statements, comment-only pieces) are left out."""
    out = []
    cur = []
    for tok in tokens(text) + [("semi", "", None)]:
        if tok[0] != "semi":
            cur.append(tok)
            continue
        code = _code_of(cur)
        if code:
            out.append(
                {
                    "raw": "".join(t[1] for t in cur),
                    "code": code,
                    "literals": [(k, v) for k, _, v in cur if k in ("str", "dstr")],
                }
            )
        cur = []
    return out


def inline_comments(text: str):
    """-> [(source, own_line)] for the comments that stand *inside* a statement of text (code of the same statement
    before and after them), in order; own_line = there is a line break between the code before it and the comment.
    Comments between statements / before the terminating semicolon are not included."""
    out = []
    cur = []
    for tok in tokens(text) + [("semi", "", None)]:
        if tok[0] != "semi":
            cur.append(tok)
            continue
        code_at = [i for i, t in enumerate(cur) if t[0] not in ("ws", "lcomment", "bcomment")]
        if code_at:
            own_line = False
            for t in cur[code_at[0] : code_at[-1]]:
                if t[0] == "ws":
                    own_line = own_line or "\n" in t[1]
                elif t[0] in ("lcomment", "bcomment"):
                    out.append((t[1], own_line))
                    own_line = own_line or "\n" in t[1]
                else:
                    own_line = False
        cur = []
    return out


def normalise(stmt: str) -> str:
    """The `code` form of a single statement (used to compare a piece of a composed text with the statement it was
    composed from)."""
    return _code_of([t for t in tokens(stmt) if t[0] != "semi"])


def count(text: str) -> int:
    return len(split(text))
