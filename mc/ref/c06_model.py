"""Reference model for C06 (cursor.description matches the result of every executed statement).

Nothing here looks at fakesnow.  Three small tables/functions, each taken from the Snowflake documentation:

  FIELD_TYPES        type codes of ResultMetadata.type_code ("Python Connector API", section "Type codes")
  declared_meta      declared column type -> what description must say for a column of that type
                     ("Summary of data types": INT.. are synonyms of NUMBER(38,0); NUMBER defaults to (38,0);
                     FLOAT.. are one 64 bit type; TIME / TIMESTAMP_* default to 9 fractional digits;
                     TIMESTAMP = DATETIME = TIMESTAMP_NTZ under the default TIMESTAMP_TYPE_MAPPING)
  value_consistency  (python value, type code, precision, scale) -> set of failed sub-rules, after the connector's
                     documented "data type mappings": FIXED scale 0 <-> int, FIXED scale>0 <-> Decimal with that scale,
                     REAL <-> float, TEXT <-> str, DATE <-> date, TIME <-> time, TIMESTAMP_NTZ <-> naive datetime,
                     TIMESTAMP_TZ/LTZ <-> aware datetime, BINARY <-> bytes, BOOLEAN <-> bool,
                     VARIANT/OBJECT/ARRAY <-> str holding a JSON document (a list / dict is tolerated under these codes)
  select_names       names of the result columns of a select list after Snowflake's identifier rules (an unquoted
                     alias or column reference folds to upper case, a quoted one is kept verbatim); None for an
                     unaliased expression (Snowflake names those after the expression text; not demanded)

plus the abstract fetch state of a cursor (FetchModel: rows + index), on which reading description is the identity.
"""
from __future__ import annotations

import datetime as dt
import decimal
import json
import re

from mc.ref.c01_model import TYPE_BY_NAME, TYPES  # the column types of the property statement

# ---- type codes ------------------------------------------------------------------------------------------------------
FIELD_TYPES = {
    0: "FIXED",
    1: "REAL",
    2: "TEXT",
    3: "DATE",
    4: "TIMESTAMP",
    5: "VARIANT",
    6: "TIMESTAMP_LTZ",
    7: "TIMESTAMP_TZ",
    8: "TIMESTAMP_NTZ",
    9: "OBJECT",
    10: "ARRAY",
    11: "BINARY",
    12: "TIME",
    13: "BOOLEAN",
}
CODE = {v: k for k, v in FIELD_TYPES.items()}
SEMI = {CODE["VARIANT"], CODE["OBJECT"], CODE["ARRAY"]}


def code_name(c) -> str:
    return FIELD_TYPES.get(c, f"?{c!r}")


# ---- declared column type -> description ----------------------------------------------------------------------------


def declared_meta(type_sql: str) -> dict:
    """{'codes': allowed type codes, 'precision': int|None (None = not demanded), 'scale': int|None}"""
    t = TYPE_BY_NAME.get(type_sql)
    if t is None:
        # NUMBER(p[,s]) with any precision / scale (only the spellings of the property statement are in TYPES)
        m = re.fullmatch(r"(?:NUMBER|DECIMAL|NUMERIC)\((\d+)(?:,\s*(\d+))?\)", type_sql)
        if not m:
            raise KeyError(type_sql)
        return {"codes": {CODE["FIXED"]}, "precision": int(m.group(1)), "scale": int(m.group(2) or 0)}
    f = t["family"]
    if f == "bool":
        return {"codes": {CODE["BOOLEAN"]}, "precision": None, "scale": None}
    if f in ("fixed0", "fixedS"):
        return {"codes": {CODE["FIXED"]}, "precision": t["p"], "scale": t["s"]}
    if f == "float":
        return {"codes": {CODE["REAL"]}, "precision": None, "scale": None}
    if f == "text":
        return {"codes": {CODE["TEXT"]}, "precision": None, "scale": None}
    if f == "date":
        return {"codes": {CODE["DATE"]}, "precision": None, "scale": None}
    if f == "time":
        return {"codes": {CODE["TIME"]}, "precision": None, "scale": 9}
    if f == "ntz":
        return {"codes": {CODE["TIMESTAMP_NTZ"]}, "precision": None, "scale": 9}
    if f == "tz":
        return {"codes": {CODE["TIMESTAMP_TZ"]}, "precision": None, "scale": 9}
    if f == "binary":
        return {"codes": {CODE["BINARY"]}, "precision": None, "scale": None}
    if f == "json":
        # the property statement names VARIANT only: an OBJECT / ARRAY column reported as VARIANT is not demanded away
        extra = {"any": set(), "object": {CODE["OBJECT"]}, "array": {CODE["ARRAY"]}}[t["json_kind"]]
        return {"codes": {CODE["VARIANT"]} | extra, "precision": None, "scale": None}
    raise AssertionError(f)


def declared_mismatch(type_sql: str, type_code, precision, scale) -> set:
    """sub-rules of 'agrees with the declared column type' that fail: {'code','precision','scale'}"""
    m = declared_meta(type_sql)
    bad = set()
    if type_code not in m["codes"]:
        bad.add("code")
        return bad
    if m["precision"] is not None and precision != m["precision"]:
        bad.add("precision")
    if m["scale"] is not None and scale != m["scale"]:
        bad.add("scale")
    return bad


# ---- fetched python value <-> description ---------------------------------------------------------------------------


def pytype(v) -> str:
    """Exact Python type of a fetched value (`type(v) is`, never isinstance: Decimal('0') == 0 and True == 1, a subclass
    or a look-alike is not what the connector hands out)."""
    if v is None:
        return "None"
    t = type(v)
    if t is bool:
        return "bool"
    if t is int:
        return "int"
    if t is float:
        return "float"
    if t is decimal.Decimal:
        return "Decimal"
    if t is str:
        return "str"
    if t is bytes or t is bytearray:
        return "bytes"
    if t is dt.datetime:
        return "datetime_aware" if v.tzinfo is not None else "datetime_naive"
    if t is dt.date:
        return "date"
    if t is dt.time:
        return "time"
    return t.__name__


def _digits(v) -> int:
    """number of decimal digits needed for the coefficient of an int / finite Decimal"""
    if type(v) is int:
        return len(str(abs(v)))
    t = v.as_tuple()
    return len(t.digits)


def value_consistency(v, type_code, precision, scale) -> set:
    """Failed sub-rules for one fetched value against one description entry.  None is consistent with anything
    (a SQL NULL carries no type on the wire)."""
    p = pytype(v)
    bad = set()
    if p == "None":
        return bad
    name = FIELD_TYPES.get(type_code)
    if name is None:
        return {"code"}
    if p == "bool":
        return set() if name == "BOOLEAN" else {"code"}
    if p == "int":
        if name != "FIXED":
            return {"code"}
        if scale != 0:
            bad.add("scale")
        if precision is None or _digits(v) > precision:
            bad.add("precision")
        return bad
    if p == "Decimal":
        if name != "FIXED":
            return {"code"}
        if not v.is_finite():
            return {"value"}
        exp = v.as_tuple().exponent
        if scale is None or scale <= 0 or -exp != scale:
            bad.add("scale")  # FIXED scale 0 is an int; a Decimal carries exactly `scale` fractional digits
        if precision is None or _digits(v) > precision:
            bad.add("precision")
        return bad
    if p == "float":
        return set() if name == "REAL" else {"code"}
    if p == "str":
        if name == "TEXT":
            return set()
        if type_code in SEMI:
            try:
                doc = json.loads(v)
            except ValueError:
                return {"value"}
            if name == "OBJECT" and not isinstance(doc, dict):
                return {"value"}
            if name == "ARRAY" and not isinstance(doc, list):
                return {"value"}
            return set()
        return {"code"}
    if p == "bytes":
        return set() if name == "BINARY" else {"code"}
    if p == "date":
        return set() if name == "DATE" else {"code"}
    if p == "time":
        return set() if name == "TIME" else {"code"}
    if p == "datetime_naive":
        return set() if name == "TIMESTAMP_NTZ" else {"code"}
    if p == "datetime_aware":
        return set() if name in ("TIMESTAMP_TZ", "TIMESTAMP_LTZ") else {"code"}
    # the Python representation of semi-structured values is C11's business: a list / dict (instead of the connector's
    # JSON text) is only required to sit under a semi-structured type code
    if type(v) is list:
        return set() if name in ("ARRAY", "VARIANT") else {"code"}
    if type(v) is dict:
        return set() if name in ("OBJECT", "VARIANT") else {"code"}
    return {"pytype"}  # not a type the connector hands out (UUID, ...): nothing can describe it


# ---- result column names ------------------------------------------------------------------------------------------------

_IDENT = re.compile(r"^[A-Za-z_][A-Za-z0-9_$]*$")
_QUOTED = re.compile(r'^"((?:[^"]|"")*)"$')


def fold(ident: str) -> str:
    """Snowflake identifier resolution of one identifier token."""
    m = _QUOTED.match(ident)
    if m:
        return m.group(1).replace('""', '"')
    return ident.upper()


def item_name(expr: str, alias: str | None):
    if alias is not None:
        return fold(alias)
    parts = expr.strip().split(".")
    last = parts[-1]
    if all(_IDENT.match(p) or _QUOTED.match(p) for p in parts) and not last.isdigit():
        if last.upper() in ("NULL", "TRUE", "FALSE", "CURRENT_DATE", "CURRENT_TIMESTAMP", "CURRENT_TIME"):
            return None
        return fold(last)
    return None


def select_names(items) -> list:
    """items = [(expr, alias|None)]"""
    return [item_name(e, a) for e, a in items]


def dict_keys_of(names: list) -> list:
    """keys of a DictCursor row for these column names: a dict holds each name once, at its first position"""
    out = []
    for n in names:
        if n not in out:
            out.append(n)
    return out


# ---- fetch state --------------------------------------------------------------------------------------------------------


class FetchModel:
    """A result set being fetched: list + index.  `description` is the identity on this state."""

    def __init__(self, rows):
        self.rows = list(rows)
        self.pos = 0

    def fetchone(self):
        r = self.rows[self.pos] if self.pos < len(self.rows) else None
        self.pos += 1
        return r

    def fetchall(self):
        r = self.rows[self.pos :]
        self.pos = max(self.pos, len(self.rows))
        return r

    def description(self):
        return None  # no effect on (rows, pos)

    def key(self):
        n = len(self.rows)
        p = min(self.pos, n + 1)
        return "before" if p == 0 else ("exhausted" if p >= n else "mid")


__all__ = [
    "TYPES",
    "TYPE_BY_NAME",
    "FIELD_TYPES",
    "CODE",
    "code_name",
    "declared_meta",
    "declared_mismatch",
    "pytype",
    "value_consistency",
    "fold",
    "item_name",
    "select_names",
    "dict_keys_of",
    "FetchModel",
]
