"""Reference splitter for the `fakesnow` command line (property C20).

Written from argparse's own grammar (Python 3.12 `ArgumentParser._parse_optional` / `consume_optional`) applied to
fakesnow's option table, *not* from fakesnow.cli:

    -d VALUE | --db_path VALUE | --db_path=VALUE | -dVALUE        (store; may be repeated, last one wins)
    -m MOD   | --module MOD    | --module=MOD    | -mMOD          (names the target module)
    -h | --help
    PATH                                                          (first positional: names the target script)

and from the one rule that makes the command a *launcher* (the same rule as `python [opts] (-m mod | script) args`):
fakesnow's own options are the leading ones; the first `-m/--module` option or the first positional names the target
and everything after the target specification belongs to the target, verbatim and in order.

parse(tokens) -> Parsed(status, why, db_paths, opt_forms, target, target_form, targs)

status
  "ok"           well-formed. target is None (nothing to run), ("path", p) or ("module", m); targs is what the
                 target must receive as sys.argv[1:]; db_paths the values given to -d/--db_path in order.
  "help"         -h/--help among fakesnow's own options: argparse prints help and exits, no target runs.
  "malformed"    argparse would exit with a usage error on fakesnow's part of the line (unknown option among the
                 leading options; an option that needs a value is last or is followed by an option-like token;
                 --help=VALUE).
  "unspecified"  forms whose treatment differs between argparse versions or is not fixed by the option table:
                 `--` followed by an option-like token, `-d=VALUE` / `-m=VALUE`, `-hXYZ` clusters. Nothing specific
                 is expected.

Token classification (argparse `_parse_optional`, parser without negative-number-like options): a token is an
*argument* if it is empty, does not start with '-', is exactly '-', looks like a negative number, or contains a
space (and is not NAME=VALUE of a known option); `--` is the option terminator; everything else starting with '-'
is *option-like* (a known option, a unique abbreviation of a long option, or an unknown option).
"""
from __future__ import annotations

import re
from typing import NamedTuple

LONG = {"--db_path": "db_path", "--module": "module", "--help": "help"}
SHORT = {"-d": "db_path", "-m": "module", "-h": "help"}
_NEGATIVE_NUMBER = re.compile(r"^-\d+$|^-\d*\.\d+$")

# names of the concrete forms (used by the check's classifier)
F_SHORT_SEP = "-d V"
F_LONG_SEP = "--db_path V"
F_LONG_EQ = "--db_path=V"
F_SHORT_ATT = "-dV"
F_TERMINATOR = "--"
T_PATH = "path"
T_SHORT_SEP = "-m MOD"
T_LONG_SEP = "--module MOD"
T_LONG_EQ = "--module=MOD"
T_SHORT_ATT = "-mMOD"


class Parsed(NamedTuple):
    status: str
    why: str
    db_paths: tuple
    opt_forms: tuple  # forms of fakesnow's own leading options, in order (db_path forms and "--")
    target: tuple | None
    target_form: str | None
    targs: tuple

    @property
    def db_path(self):
        return self.db_paths[-1] if self.db_paths else None


def _long_match(name: str):
    """exact long option or unique abbreviation (argparse allow_abbrev=True) -> canonical long option | None | 'ambiguous'"""
    if name in LONG:
        return name
    if len(name) < 3:
        return None
    hits = [lo for lo in LONG if lo.startswith(name)]
    if len(hits) == 1:
        return hits[0]
    return "ambiguous" if hits else None


def match_option(tok: str):
    """-> (dest, spelling kind, explicit value | None) for a token that names one of fakesnow's options, else None.
    spelling kind: 'short' | 'long' | 'long=' | 'short-attached' | 'short=' ."""
    if tok in SHORT:
        return SHORT[tok], "short", None
    if tok.startswith("--"):
        name, eq, val = tok.partition("=")
        lo = _long_match(name)
        if lo in (None, "ambiguous"):
            return None
        return LONG[lo], ("long=" if eq else "long"), (val if eq else None)
    if len(tok) > 2 and tok[:2] in SHORT:
        if tok[2] == "=":
            return SHORT[tok[:2]], "short=", tok[3:]
        return SHORT[tok[:2]], "short-attached", tok[2:]
    return None


def kind(tok: str) -> str:
    """'A' argument, 'O' option-like, '--' terminator."""
    if tok == "--":
        return "--"
    if not tok or tok[0] != "-" or tok == "-":
        return "A"
    if match_option(tok) is not None:
        return "O"
    if tok.startswith("--") and _long_match(tok.partition("=")[0]) == "ambiguous":
        return "O"
    if _NEGATIVE_NUMBER.match(tok):
        return "A"
    if " " in tok:
        return "A"
    return "O"


_DB_FORM = {"short": F_SHORT_SEP, "long": F_LONG_SEP, "long=": F_LONG_EQ, "short-attached": F_SHORT_ATT}
_MOD_FORM = {"short": T_SHORT_SEP, "long": T_LONG_SEP, "long=": T_LONG_EQ, "short-attached": T_SHORT_ATT}


def parse(tokens) -> Parsed:
    toks = list(tokens)
    n = len(toks)
    dbs: list = []
    forms: list = []

    def out(status, why="", target=None, tform=None, targs=()):
        return Parsed(status, why, tuple(dbs), tuple(forms), target, tform, tuple(targs))

    i = 0
    while i < n:
        t = toks[i]
        k = kind(t)
        if k == "--":
            forms.append(F_TERMINATOR)
            if i + 1 >= n:
                return out("ok", "option terminator, nothing follows")
            if kind(toks[i + 1]) != "A":
                return out("unspecified", "token after '--' looks like an option")
            return out("ok", "", ("path", toks[i + 1]), T_PATH, toks[i + 2 :])
        if k == "A":
            return out("ok", "", ("path", t), T_PATH, toks[i + 1 :])
        m = match_option(t)
        if m is None:
            return out("malformed", f"unrecognized option {t!r} among fakesnow's own options")
        dest, spelling, explicit = m
        if spelling == "short=":
            return out("unspecified", "short option with '=' (argparse version dependent)")
        if dest == "help":
            if explicit is not None and spelling == "short-attached":
                # argparse re-reads the tail of `-hXYZ` as further single-dash options
                return out("unspecified", "short option cluster starting with -h")
            if explicit is not None:
                return out("malformed", "--help takes no value")
            return out("help", "help requested")
        if explicit is None:
            if i + 1 >= n or kind(toks[i + 1]) != "A":
                return out("malformed", f"{t} expects one argument")
            value = toks[i + 1]
            i += 2
        else:
            value = explicit
            i += 1
        if dest == "db_path":
            dbs.append(value)
            forms.append(_DB_FORM[spelling])
        else:
            return out("ok", "", ("module", value), _MOD_FORM[spelling], toks[i:])
    return out("ok", "no target named")


def target_specs(tokens):
    """Every (index_after_spec, target) at which some token (pair) of the line could name a target, whatever precedes
    it. Used only for the weak demand on malformed/unspecified lines: *if* something was run, it must have received
    exactly the tokens following one of its possible specifications."""
    toks = list(tokens)
    res = []
    for j, t in enumerate(toks):
        res.append((j + 1, ("path", t)))
        m = match_option(t) if kind(t) == "O" else None
        if m and m[0] == "module":
            if m[2] is not None:
                res.append((j + 1, ("module", m[2])))
            elif j + 1 < len(toks):
                res.append((j + 2, ("module", toks[j + 1])))
    return res
