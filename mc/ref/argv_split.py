"""Reference splitter for the `fakesnow` command line (property C20).

Written from argparse's own grammar (Python 3.12 `ArgumentParser._parse_optional` / `consume_optional`) applied to an
*option table*, *not* from fakesnow.cli.  The table says, per option, its spellings, whether it takes one value or
none, and its role:

    own      fakesnow's own option, e.g.  -d VALUE | --db_path VALUE | --db_path=VALUE | -dVALUE   (value, repeatable)
                                          -n | --no_create                                         (no value)
    module   names the target module:     -m MOD | --module MOD | --module=MOD | -mMOD
    help     prints and exits:            -h | --help
    PATH     first positional: names the target script

DEFAULT_TABLE is the hand-written table of today's fakesnow (db_path, module, help); table_from_parser(parser) derives
a table from any argparse parser (the check uses it on fakesnow.cli.arg_parser() at run time, so that an option the
parser gains is exercised; which option names the module - dest "module" - is the one thing taken on trust).

The one rule that makes the command a *launcher* (the same rule as `python [opts] (-m mod | script) args`):
fakesnow's own options are the leading ones; the first module option or the first positional names the target
and everything after the target specification belongs to the target, verbatim and in order.

parse(tokens, table) -> Parsed(status, why, opts, opt_forms, target, target_form, targs)

status
  "ok"           well-formed. target is None (nothing to run), ("path", p) or ("module", m); targs is what the
                 target must receive as sys.argv[1:]; opts the own options given, in order, as (dest, value|True).
  "help"         a help option among fakesnow's own options: argparse prints help and exits, no target runs.
  "malformed"    argparse would exit with a usage error on fakesnow's part of the line (unknown option among the
                 leading options; an option that needs a value is last or is followed by an option-like token;
                 --flag=VALUE for an option without value).
  "unspecified"  forms whose treatment differs between argparse versions or is not fixed by the option table:
                 `--` followed by an option-like token, `-d=VALUE` / `-m=VALUE`, clusters starting with a short
                 option that takes no value (`-hXYZ`, `-nX`), options with nargs other than one value / none.
                 Nothing specific is expected.

Token classification (argparse `_parse_optional`, parser without negative-number-like options): a token is an
*argument* if it is empty, does not start with '-', is exactly '-', looks like a negative number, or contains a
space (and is not NAME=VALUE of a known option); `--` is the option terminator; everything else starting with '-'
is *option-like* (a known option, a unique abbreviation of a long option, or an unknown option).
"""
from __future__ import annotations

import re
from typing import NamedTuple

_NEGATIVE_NUMBER = re.compile(r"^-\d+$|^-\d*\.\d+$")


class Opt(NamedTuple):
    dest: str
    strings: tuple  # option strings, as declared
    takes_value: bool | None  # True: exactly one value; False: none; None: something else (not modelled)
    role: str  # "own" | "module" | "help"

    @property
    def shorts(self):
        return tuple(s for s in self.strings if not s.startswith("--"))

    @property
    def longs(self):
        return tuple(s for s in self.strings if s.startswith("--"))


class Table(NamedTuple):
    options: tuple  # of Opt, in declaration order
    positionals: tuple = ("path", "targs")
    allow_abbrev: bool = True

    def by_string(self):
        return {s: o for o in self.options for s in o.strings}

    def describe(self):
        return [
            {"dest": o.dest, "strings": list(o.strings), "takes_value": o.takes_value, "role": o.role} for o in self.options
        ] + [{"positionals": list(self.positionals), "allow_abbrev": self.allow_abbrev}]


# the table of fakesnow's command line as of writing (cross-check only; the check derives its table at run time)
DEFAULT_TABLE = Table(
    (
        Opt("help", ("-h", "--help"), False, "help"),
        Opt("db_path", ("-d", "--db_path"), True, "own"),
        Opt("module", ("-m", "--module"), True, "module"),
    )
)


def table_from_parser(parser) -> Table:
    """Option table of an argparse parser (walks parser._actions)."""
    import argparse

    opts, pos = [], []
    for a in parser._actions:  # noqa: SLF001
        if not a.option_strings:
            pos.append(a.dest)
            continue
        if isinstance(a, (argparse._HelpAction, argparse._VersionAction)):  # noqa: SLF001
            role = "help"
        elif a.dest == "module":
            role = "module"
        else:
            role = "own"
        takes = True if a.nargs is None else (False if a.nargs == 0 else None)
        opts.append(Opt(a.dest, tuple(a.option_strings), takes, role))
    return Table(tuple(opts), tuple(pos), bool(getattr(parser, "allow_abbrev", True)))


# names of the concrete forms of today's options (used by the check's classifier and the end-to-end runs)
F_SHORT_SEP = "-d V"
F_LONG_SEP = "--db_path V"
F_LONG_EQ = "--db_path=V"
F_SHORT_ATT = "-dV"
F_TERMINATOR = "--"
T_PATH = "path"
T_SHORT_SEP = "-m MOD"
T_LONG_SEP = "--module MOD"
T_LONG_EQ = "--module=MOD"
T_SHORT_ATT = "-mMOD"


class Parsed(NamedTuple):
    status: str
    why: str
    opts: tuple  # own options given, in order: (dest, value | True); the terminator is ("--", None)
    opt_forms: tuple  # their spellings, parallel to opts: "-d V", "--db_path V", "--db_path=V", "-dV", "-n", "--"
    target: tuple | None
    target_form: str | None
    targs: tuple

    @property
    def db_paths(self):
        return tuple(v for d, v in self.opts if d == "db_path")

    @property
    def db_path(self):
        return self.db_paths[-1] if self.db_paths else None

    def form_of_last(self, dest):
        return next((f for (d, _v), f in zip(reversed(self.opts), reversed(self.opt_forms)) if d == dest), "none")


def _long_match(name: str, table: Table):
    """exact long option or unique abbreviation -> canonical long option string | None | 'ambiguous'"""
    longs = [s for o in table.options for s in o.longs]
    if name in longs:
        return name
    if len(name) < 3 or not table.allow_abbrev:
        return None
    hits = [lo for lo in longs if lo.startswith(name)]
    if len(hits) == 1:
        return hits[0]
    return "ambiguous" if hits else None


def match_option(tok: str, table: Table = DEFAULT_TABLE):
    """-> (Opt, canonical option string, spelling kind, explicit value | None) for a token naming an option, else None.
    spelling kind: 'short' | 'long' | 'long=' | 'short-attached' | 'short=' ."""
    by = table.by_string()
    if tok in by and not tok.startswith("--"):
        return by[tok], tok, "short", None
    if tok.startswith("--"):
        name, eq, val = tok.partition("=")
        lo = _long_match(name, table)
        if lo in (None, "ambiguous"):
            return None
        return by[lo], lo, ("long=" if eq else "long"), (val if eq else None)
    if len(tok) > 2 and tok[:2] in by:
        if tok[2] == "=":
            return by[tok[:2]], tok[:2], "short=", tok[3:]
        return by[tok[:2]], tok[:2], "short-attached", tok[2:]
    return None


def kind(tok: str, table: Table = DEFAULT_TABLE) -> str:
    """'A' argument, 'O' option-like, '--' terminator."""
    if tok == "--":
        return "--"
    if not tok or tok[0] != "-" or tok == "-":
        return "A"
    if match_option(tok, table) is not None:
        return "O"
    if tok.startswith("--") and _long_match(tok.partition("=")[0], table) == "ambiguous":
        return "O"
    if _NEGATIVE_NUMBER.match(tok):
        return "A"
    if " " in tok:
        return "A"
    return "O"


def form_name(canon: str, spelling: str, value_word: str) -> str:
    return {
        "short": f"{canon} {value_word}",
        "long": f"{canon} {value_word}",
        "long=": f"{canon}={value_word}",
        "short-attached": f"{canon}{value_word}",
    }[spelling]


def parse(tokens, table: Table = DEFAULT_TABLE) -> Parsed:
    toks = list(tokens)
    n = len(toks)
    opts: list = []
    forms: list = []

    def out(status, why="", target=None, tform=None, targs=()):
        return Parsed(status, why, tuple(opts), tuple(forms), target, tform, tuple(targs))

    i = 0
    while i < n:
        t = toks[i]
        k = kind(t, table)
        if k == "--":
            opts.append(("--", None))
            forms.append(F_TERMINATOR)
            if i + 1 >= n:
                return out("ok", "option terminator, nothing follows")
            if kind(toks[i + 1], table) != "A":
                return out("unspecified", "token after '--' looks like an option")
            return out("ok", "", ("path", toks[i + 1]), T_PATH, toks[i + 2 :])
        if k == "A":
            return out("ok", "", ("path", t), T_PATH, toks[i + 1 :])
        m = match_option(t, table)
        if m is None:
            return out("malformed", f"unrecognized option {t!r} among fakesnow's own options")
        opt, canon, spelling, explicit = m
        if opt.takes_value is None:
            return out("unspecified", f"option {canon} takes neither exactly one value nor none")
        if spelling == "short=":
            return out("unspecified", "short option with '=' (argparse version dependent)")
        if not opt.takes_value:
            if explicit is not None and spelling == "short-attached":
                # argparse re-reads the tail of `-hXYZ` / `-nXYZ` as further single-dash options
                return out("unspecified", "cluster starting with a short option that takes no value")
            if explicit is not None:
                return out("malformed", f"{canon} takes no value")
            if opt.role == "help":
                return out("help", "help requested")
            opts.append((opt.dest, True))
            forms.append(canon)
            i += 1
            continue
        if opt.role == "help":
            return out("unspecified", "help option with a value")
        if explicit is None:
            if i + 1 >= n or kind(toks[i + 1], table) != "A":
                return out("malformed", f"{t} expects one argument")
            value = toks[i + 1]
            i += 2
        else:
            value = explicit
            i += 1
        if opt.role == "module":
            return out("ok", "", ("module", value), form_name(canon, spelling, "MOD"), toks[i:])
        opts.append((opt.dest, value))
        forms.append(form_name(canon, spelling, "V"))
    return out("ok", "no target named")


def target_specs(tokens, table: Table = DEFAULT_TABLE):
    """Every (index_after_spec, target) at which some token (pair) of the line could name a target, whatever precedes
    it. Used only for the weak demand on malformed/unspecified lines: *if* something was run, it must have received
    exactly the tokens following one of its possible specifications."""
    toks = list(tokens)
    res = []
    for j, t in enumerate(toks):
        res.append((j + 1, ("path", t)))
        m = match_option(t, table) if kind(t, table) == "O" else None
        if m and m[0].role == "module":
            if m[3] is not None:
                res.append((j + 1, ("module", m[3])))
            elif j + 1 < len(toks):
                res.append((j + 2, ("module", toks[j + 1])))
    return res


def own_option_forms(table: Table, value: str = "x"):
    """Every spelling of every own option as a token list, with its form name: [(form, [tokens])] in table order."""
    res = []
    for o in table.options:
        if o.role != "own" or o.takes_value is None:
            continue
        if o.takes_value:
            for s in o.shorts:
                res.append((f"{s} V", [s, value]))
            for s in o.longs:
                res.append((f"{s} V", [s, value]))
            for s in o.longs:
                res.append((f"{s}=V", [f"{s}={value}"]))
            for s in o.shorts:
                res.append((f"{s}V", [f"{s}{value}"]))
        else:
            for s in o.strings:
                res.append((s, [s]))
    return res


def module_forms(table: Table, value: str = "mod"):
    res = []
    for o in table.options:
        if o.role != "module" or not o.takes_value:
            continue
        for s in o.strings:
            res.append((f"{s} MOD", [s, value]))
        for s in o.longs:
            res.append((f"{s}=MOD", [f"{s}={value}"]))
        for s in o.shorts:
            res.append((f"{s}MOD", [f"{s}{value}"]))
    return res
