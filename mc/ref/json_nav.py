"""Reference model for C11: semi-structured (VARIANT/OBJECT/ARRAY) values as JSON documents.

Everything here is plain Python over the `json.loads`-ed document: navigation by indexing, Snowflake's documented
conversions of VARIANT values, three-valued logic for the operator contexts. Nothing is taken from fakesnow.

Sources (Snowflake documentation):
  * "Querying semi-structured data" / GET, GET_PATH: a path element that does not exist, an index out of range, a key
    step on a non-object or an index step on a non-array yields NULL; keys are case-sensitive.
  * "Semi-structured data considerations, NULL values": JSON null is a VARIANT value; cast to a string / number /
    boolean it becomes SQL NULL. (The checks map JSON null and SQL NULL both to None, as DESIGN.md says.)
  * TO_VARCHAR / TO_DECIMAL / TO_DOUBLE / TO_BOOLEAN on VARIANT input: a string is returned as is (no quotes), a number
    as its text, a boolean as 'true'/'false'; numbers convert numerically (NUMBER has scale 0 by default and rounds
    half away from zero); a JSON boolean cast to BOOLEAN is itself.
  * ARRAY_SIZE: number of elements, 0 for an empty array, NULL when the VARIANT does not hold an array.
  * OBJECT_CONSTRUCT omits pairs whose key or value is NULL; OBJECT_CONSTRUCT_KEEP_NULL keeps NULL values (still
    omits NULL keys).
  * FLATTEN: one row per array element, in index order; no row for an empty array or a NULL input.
  * SPLIT(string, separator): array of the parts; a NULL argument gives NULL; no separator occurrence -> [string].

UNDEMANDED marks cells whose Snowflake behaviour is an error or is not documented unambiguously; the check never
compares those (see "not demanded" in checks/c11.py).
"""
from __future__ import annotations

import decimal
import json
import re


class _Sentinel:
    __slots__ = ("name",)

    def __init__(self, name):
        self.name = name

    def __repr__(self):
        return self.name

    def __reduce__(self):  # pickles by reference to the module-level singleton
        return self.name


MISSING = _Sentinel("MISSING")  # the path does not lead anywhere (-> SQL NULL)
UNDEMANDED = _Sentinel("UNDEMANDED")  # nothing is demanded for this cell


class JsonText:
    """Expected text is *some* JSON serialisation of `doc` (whitespace / key order not demanded)."""

    __slots__ = ("doc",)

    def __init__(self, doc):
        self.doc = doc

    def __repr__(self):
        return f"JsonText({json.dumps(self.doc, sort_keys=True)})"

    def __eq__(self, other):
        return isinstance(other, JsonText) and json_equal(self.doc, other.doc)

    def __hash__(self):
        return hash(json.dumps(self.doc, sort_keys=True))


# ---- navigation ------------------------------------------------------------------------------------------------------
def navigate(doc, steps):
    """Follow `steps` (str = object key, int = array index) from `doc`; MISSING if any step cannot be taken."""
    cur = doc
    for s in steps:
        if cur is MISSING:
            return MISSING
        if isinstance(s, bool):
            raise TypeError("step must be str or int")
        if isinstance(s, str):
            if isinstance(cur, dict) and s in cur:
                cur = cur[s]
            else:
                return MISSING
        elif isinstance(s, int):
            if isinstance(cur, list) and 0 <= s < len(cur):
                cur = cur[s]
            else:
                return MISSING
        else:
            raise TypeError("step must be str or int")
    return cur


KINDS = ("missing", "null", "bool", "int", "float", "str", "earr", "eobj", "arr", "obj")


def kind_of(v) -> str:
    if v is MISSING:
        return "missing"
    if v is None:
        return "null"
    if isinstance(v, bool):
        return "bool"
    if isinstance(v, int):
        return "int"
    if isinstance(v, float):
        return "float"
    if isinstance(v, str):
        return "str"
    if isinstance(v, list):
        return "arr" if v else "earr"
    if isinstance(v, dict):
        return "obj" if v else "eobj"
    raise TypeError(type(v))


def _nul(v):
    return v is MISSING or v is None


# ---- conversions of an extracted value ---------------------------------------------------------------------------------
def num_text(v) -> str:
    if isinstance(v, int):
        return str(v)
    d = decimal.Decimal(repr(v))
    if d == d.to_integral_value():
        return str(int(d))
    return format(d.normalize(), "f")


def to_text(v):
    """::VARCHAR / ::STRING / TO_VARCHAR of a VARIANT value."""
    if _nul(v):
        return None
    if isinstance(v, str):
        return v
    if isinstance(v, bool):
        return "true" if v else "false"
    if isinstance(v, (int, float)):
        return num_text(v)
    if isinstance(v, (list, dict)):
        if not v:
            return "[]" if isinstance(v, list) else "{}"
        return JsonText(v)
    raise TypeError(type(v))


def to_number(v):
    """::NUMBER / ::INT (scale 0): numbers round half away from zero. Strings, booleans, containers: not demanded."""
    if _nul(v):
        return None
    if isinstance(v, bool):
        return UNDEMANDED
    if isinstance(v, int):
        return v
    if isinstance(v, float):
        return int(decimal.Decimal(repr(v)).quantize(decimal.Decimal(1), rounding=decimal.ROUND_HALF_UP))
    return UNDEMANDED


def to_float(v):
    if _nul(v):
        return None
    if isinstance(v, bool):
        return UNDEMANDED
    if isinstance(v, (int, float)):
        return float(v)
    return UNDEMANDED


def to_boolean(v):
    """::BOOLEAN: a JSON boolean converts to itself. Numbers (documented for numeric *expressions*: 0 -> FALSE, else
    TRUE, but not spelled out for VARIANT input), strings and containers: not demanded."""
    if _nul(v):
        return None
    if isinstance(v, bool):
        return v
    return UNDEMANDED


def _text_fn(fn, keep_containers):
    def f(v):
        t = to_text(v)
        if t is None:
            return None
        if isinstance(t, JsonText):
            return t if keep_containers else UNDEMANDED
        return fn(t)

    return f


upper = _text_fn(str.upper, False)
lower = _text_fn(str.lower, False)
trim = _text_fn(lambda s: s.strip(" "), True)


def trim_fn(side, chars=" "):
    """TRIM / LTRIM / RTRIM(<expr> [, <characters>]): the argument is converted to text first; every leading and/or
    trailing character that occurs in `characters` (default: the blank) is removed"""

    def f(s):
        if side == "l":
            return s.lstrip(chars)
        if side == "r":
            return s.rstrip(chars)
        return s.strip(chars)

    return _text_fn(f, True)


ltrim = trim_fn("l")
rtrim = trim_fn("r")


def array_size(v):
    if isinstance(v, list):
        return len(v)
    return None


def flatten(v):
    """Rows of LATERAL FLATTEN(input => v): the VALUE column, in order. Objects/scalars: not demanded."""
    if _nul(v):
        return []
    if isinstance(v, list):
        return list(v)
    return UNDEMANDED


# ---- constructors ------------------------------------------------------------------------------------------------------
def object_construct(pairs, keep_null=False):
    """pairs: [(key|None, value)], value None = SQL NULL. Pairs with NULL key are omitted; NULL values only if keep_null."""
    out = {}
    for k, v in pairs:
        if k is None:
            continue
        if v is None and not keep_null:
            continue
        if k in out:
            raise ValueError("duplicate key")
        out[k] = v
    return out


def array_construct(values):
    return list(values)


def split(s, sep):
    if s is None or sep is None:
        return None
    if sep == "":
        return [s]
    return s.split(sep)


def parse_json(text):
    """PARSE_JSON: NULL -> NULL, invalid -> ValueError. TRY_PARSE_JSON: see try_parse_json."""
    if text is None:
        return None
    return json.loads(text)


def try_parse_json(text):
    try:
        return parse_json(text)
    except ValueError:
        return None


# ---- three-valued logic / SQL operators over Python values (None = NULL) ------------------------------------------------
def not3(a):
    return None if a is None else (not a)


def and3(a, b):
    if a is False or b is False:
        return False
    if a is None or b is None:
        return None
    return True


def or3(a, b):
    if a is True or b is True:
        return True
    if a is None or b is None:
        return None
    return False


def cmp3(a, op, b):
    if a is None or b is None:
        return None
    return {"=": a == b, "<>": a != b, "<": a < b, "<=": a <= b, ">": a > b, ">=": a >= b}[op]


def in3(a, items):
    if a is None:
        return None
    if any(a == i for i in items if i is not None):
        return True
    if any(i is None for i in items):
        return None
    return False


def like3(s, pat):
    if s is None or pat is None:
        return None
    rx = "".join(".*" if c == "%" else "." if c == "_" else re.escape(c) for c in pat)
    return re.fullmatch(rx, s, re.S) is not None


def add3(a, b):
    return None if a is None or b is None else a + b


def mul3(a, b):
    return None if a is None or b is None else a * b


def concat3(a, b):
    return None if a is None or b is None else a + b


def isnull(a):
    return a is None


# ---- comparison of observed values -----------------------------------------------------------------------------------------
def json_equal(a, b) -> bool:
    """Equality of JSON documents: booleans are not numbers, numbers compare by value, object key order is free."""
    if a is None or b is None:
        return a is None and b is None
    if isinstance(a, bool) or isinstance(b, bool):
        return isinstance(a, bool) and isinstance(b, bool) and a == b
    if isinstance(a, (int, float, decimal.Decimal)) and isinstance(b, (int, float, decimal.Decimal)):
        return decimal.Decimal(str(a)) == decimal.Decimal(str(b))
    if isinstance(a, str) and isinstance(b, str):
        return a == b
    if isinstance(a, (list, tuple)) and isinstance(b, (list, tuple)):
        return len(a) == len(b) and all(json_equal(x, y) for x, y in zip(a, b))
    if isinstance(a, dict) and isinstance(b, dict):
        return set(a) == set(b) and all(json_equal(a[k], b[k]) for k in a)
    return False


class NotJson(Exception):
    pass


def observed_doc(got):
    """What a fetched VARIANT/OBJECT/ARRAY value denotes: None, or the parsed JSON text (a Python list/dict coming
    straight from the driver is taken as is: the result *type* of constructors is not this property's business)."""
    if got is None:
        return None
    if isinstance(got, (list, dict)):
        return got
    if isinstance(got, str):
        try:
            return json.loads(got)
        except ValueError:
            raise NotJson(got) from None
    raise NotJson(repr(got))


def _native_equal(expected, got) -> bool:
    """`got` is a Python list/dict handed out by the driver (an ARRAY result that is not JSON text). Its elements may
    themselves be JSON text (a list of JSON values): a str element is accepted if it is the expected string itself or
    JSON text denoting the expected element. (The result *type* of constructors is not this property's business; a
    coerced *value* -- 1 for TRUE -- still differs.)"""
    if isinstance(got, str):
        if isinstance(expected, str) and got == expected:
            return True
        try:
            return json_equal(expected, json.loads(got))
        except ValueError:
            return False
    if isinstance(expected, list):
        return isinstance(got, (list, tuple)) and len(got) == len(expected) and all(_native_equal(e, g) for e, g in zip(expected, got))
    if isinstance(expected, dict):
        return isinstance(got, dict) and set(got) == set(expected) and all(_native_equal(expected[k], got[k]) for k in expected)
    return json_equal(expected, got)


def matches(mode, expected, got) -> bool:
    """Does the fetched Python value `got` equal `expected` under comparison mode json|text|num|bool ?"""
    if expected is MISSING:
        expected = None
    if mode == "json":
        if isinstance(got, (list, dict)):
            return _native_equal(expected, got)
        try:
            return json_equal(expected, observed_doc(got))
        except NotJson:
            return False
    if expected is None or got is None:
        return expected is None and got is None
    if mode == "text":
        if not isinstance(got, str):
            return False
        if isinstance(expected, JsonText):
            try:
                return json_equal(expected.doc, json.loads(got))
            except ValueError:
                return False
        return got == expected
    if mode == "num":
        if isinstance(got, bool) or not isinstance(got, (int, float, decimal.Decimal)):
            return False
        return decimal.Decimal(str(got)) == decimal.Decimal(str(expected))
    if mode == "bool":
        return isinstance(got, bool) and got == expected
    raise ValueError(mode)
