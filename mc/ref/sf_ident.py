"""Reference model for property C02: Snowflake identifier case rules, written from the Snowflake documentation
("Identifier requirements", "Querying semi-structured data", "Session variables"), not from fakesnow.

1. fold(spelled)                 how Snowflake stores/reports an identifier as it is spelled in a statement:
                                 unquoted -> upper case; "quoted" -> verbatim (with "" -> ");
2. lex(sql) / render / spellings which parts of a statement may change letter case without changing its meaning
                                 (keywords, unquoted identifiers, function names, type names, date parts, named
                                 arguments, session variable names) and which may not (string constants, quoted
                                 identifiers, numbers, $$ strings, X'..' constants, and the element names of a
                                 semi-structured path after ':' — "the path element names are case-sensitive");
                                 plus the enumeration of re-spellings per tier;
3. Catalog                       a names-only model of databases / schemas / tables / views / columns and of the
                                 session's current database and schema, driven by hand-written effect lists, which
                                 says which name strings the reporting surfaces must show.

The lexer uses sqlglot's Snowflake *tokenizer* only to find token boundaries and string/identifier/number literals;
the decision "foldable or not" is made here.
"""
from __future__ import annotations

import itertools
import re

# ---- 1. identifiers -------------------------------------------------------------------------------------------------

_UNQUOTED = re.compile(r"^[A-Za-z_][A-Za-z0-9_$]*$")


def is_quoted(spelled: str) -> bool:
    return len(spelled) >= 2 and spelled[0] == '"' and spelled[-1] == '"'


def fold(spelled: str) -> str:
    """The name Snowflake resolves and reports for an identifier spelled like this in a statement."""
    if is_quoted(spelled):
        return spelled[1:-1].replace('""', '"')
    if not _UNQUOTED.match(spelled):
        raise ValueError(f"not an identifier: {spelled!r}")
    return spelled.upper()


def quote_upper(spelled: str) -> str:
    """The double-quoted spelling that denotes the same object as the unquoted identifier `spelled`."""
    if is_quoted(spelled):
        raise ValueError("already quoted")
    return '"' + fold(spelled) + '"'


def split_qualified(spelled: str) -> list[str]:
    """'db1."s.x".t' -> ['db1', '"s.x"', 't'] (dots inside quotes do not separate)."""
    parts, cur, inq, i = [], "", False, 0
    while i < len(spelled):
        ch = spelled[i]
        if ch == '"':
            if inq and spelled[i + 1 : i + 2] == '"':
                cur += '""'
                i += 2
                continue
            inq = not inq
            cur += ch
        elif ch == "." and not inq:
            parts.append(cur)
            cur = ""
        else:
            cur += ch
        i += 1
    parts.append(cur)
    if inq or any(p == "" for p in parts):
        raise ValueError(f"malformed qualified name: {spelled!r}")
    return parts


def fold_qualified(spelled: str) -> tuple:
    return tuple(fold(p) for p in split_qualified(spelled))


# ---- 2. which tokens may change case --------------------------------------------------------------------------------

MARK = "~"  # in a template, marks an unquoted identifier that names an object/column/alias (it could be quoted)

_FIXED_TYPES = {
    "STRING",
    "IDENTIFIER",
    "NUMBER",
    "HEREDOC_STRING",
    "RAW_STRING",
    "HEX_STRING",
    "BIT_STRING",
    "BYTE_STRING",
    "NATIONAL_STRING",
    "UNICODE_STRING",
}
_WORD = re.compile(r"^[A-Za-z_][A-Za-z0-9_$]*$")
_WORDS = re.compile(r"^[A-Za-z_]+(\s+[A-Za-z_]+)+$")


def _tokenize(sql: str, base: int = 0):
    """[(token type name, start, end)] with offsets into the whole statement.

    For some leading keywords (CALL, EXECUTE, EXPLAIN, PUT, REMOVE, ...) sqlglot's tokenizer hands over the rest of the
    statement as ONE pseudo string token with unreliable offsets; that rest is tokenised again here, so that the
    keywords and names inside it are tokens of their own."""
    from sqlglot.dialects.snowflake import Snowflake

    out = []
    pos = 0
    for t in Snowflake.Tokenizer().tokenize(sql):
        typ, a, b = t.token_type.name, t.start, t.end + 1
        if typ == "STRING" and t.text.strip() and t.text.strip() == sql[pos:].strip():
            # not a constant: the token's text is the whole rest of the statement (a constant's text lacks its quotes)
            rest = sql[pos:]
            lead = len(rest) - len(rest.lstrip())
            if lead < len(rest):
                out += _tokenize(rest[lead:], base + pos + lead)
            return out
        out.append((typ, base + a, base + b))
        pos = b
    return out


class Tok:
    """One lexical piece of a statement. kind: 'fold' (case may change), 'fixed' (must be kept), 'gap' (whitespace)."""

    __slots__ = ("text", "kind", "why", "name")

    def __init__(self, text, kind, why="", name=False):
        self.text, self.kind, self.why, self.name = text, kind, why, name

    def __repr__(self):
        return f"Tok({self.text!r},{self.kind}{',' + self.why if self.why else ''}{',name' if self.name else ''})"


def lex(template: str) -> list[Tok]:
    """Split a statement template into pieces that reassemble to the statement (without the ~ marks).

    A ~ directly in front of an unquoted identifier flags it as a *name* (Tok.name) for the quoted/unquoted clause."""
    marks = set()
    sql = ""
    for i, ch in enumerate(template):
        if ch == MARK:
            marks.add(len(sql))
        else:
            sql += ch
    out: list[Tok] = []
    pos = 0
    brace = 0  # depth of { } object constants: a ':' inside them separates key and value, it is not a path
    path = None  # None | 'seg' (an element name is expected) | 'in' (after an element: '.', '[' continue the path)
    bracket_stack = []  # for v:a[<expr>].b : path state to restore at the matching ']'
    for typ, a, b in _tokenize(sql):
        if a > pos:
            out.append(Tok(sql[pos:a], "gap"))
        text = sql[a:b]
        pos = b
        kind, why = "fixed", ""
        word = bool(_WORD.match(text))
        if typ == "L_BRACE":
            brace += 1
        elif typ == "R_BRACE":
            brace = max(0, brace - 1)
        if typ == "COLON" and brace == 0:
            path = "seg"
            why = "path-op"
        elif path == "seg" and (word or typ == "IDENTIFIER"):
            why = "path-element"  # case-sensitive element name
            path = "in"
        elif path == "in" and typ == "DOT":
            path = "seg"
            why = "path-op"
        elif typ == "L_BRACKET":
            # v:a[<expr>] continues the path after the matching ']'; what is inside is an ordinary expression
            bracket_stack.append(path == "in")
            path = None
        elif typ == "R_BRACKET":
            path = "in" if bracket_stack and bracket_stack.pop() else None
        else:
            path = None
            if typ in _FIXED_TYPES:
                why = typ.lower()
            elif word:
                kind = "fold"
            elif re.search("[A-Za-z]", text):
                # something with letters that is neither a word nor a known constant: keep it, say why
                why = "unclassified"
        if why == "unclassified" and _WORDS.match(text):
            # the tokenizer joins some keyword pairs into one token ("order by", "group by"): words and gaps again
            for piece in re.split(r"(\s+)", text):
                out.append(Tok(piece, "gap" if piece.isspace() else "fold"))
            continue
        tk = Tok(text, kind, why, name=(a in marks))
        if tk.name and kind != "fold":
            raise ValueError(f"~ in front of a non-foldable token {text!r} in {template!r}")
        out.append(tk)
        marks.discard(a)
    if pos < len(sql):
        out.append(Tok(sql[pos:], "gap"))
    if marks:
        raise ValueError(f"~ not in front of a token in {template!r}")
    return out


def foldable(toks: list[Tok]) -> list[int]:
    return [i for i, t in enumerate(toks) if t.kind == "fold"]


def names(toks: list[Tok]) -> list[int]:
    return [i for i, t in enumerate(toks) if t.name]


FORMS = ("l", "u", "c", "a")  # lower, UPPER, Capitalised, aLtErNaTiNg


def spell(word: str, form: str) -> str:
    if form == "l":
        return word.lower()
    if form == "u":
        return word.upper()
    if form == "c":
        return word[:1].upper() + word[1:].lower()
    if form == "a":
        out, n = [], 0
        for ch in word:
            if ch.isalpha():
                out.append(ch.upper() if n % 2 else ch.lower())
                n += 1
            else:
                out.append(ch)
        return "".join(out)
    raise ValueError(form)


def render(toks: list[Tok], forms: dict | str = "l", quoted=()) -> str:
    """forms: one form for every foldable token, or {token index: form} (default lower); quoted: token indexes of
    names to write as "UPPER"."""
    q = set(quoted)
    out = []
    for i, t in enumerate(toks):
        if i in q:
            if not t.name:
                raise ValueError("only marked names can be quoted")
            out.append(quote_upper(t.text))
        elif t.kind == "fold":
            f = forms if isinstance(forms, str) else forms.get(i, "l")
            out.append(spell(t.text, f))
        else:
            out.append(t.text)
    return "".join(out)


FULL_LIMIT = 10  # thorough: all 2^t lower/UPPER assignments up to this many foldable tokens


def spellings(toks: list[Tok], tier: str) -> list[tuple]:
    """Case re-spellings of one statement for a tier: [(label, {index: form})], reference first, no two with the same
    text. label names the *shape* of the spelling: 'all:l', 'all:u', 'all:c', 'all:a', 'one:<form>:<k>' (k-th foldable
    token in that form, the rest lower), 'two:u:<k>:<m>', 'mask:<bits>'."""
    idx = foldable(toks)
    t = len(idx)
    cand = [("all:l", {})]
    cand += [(f"all:{f}", {i: f for i in idx}) for f in ("u", "c", "a")]
    cand += [(f"one:u:{k}", {i: "u"}) for k, i in enumerate(idx)]
    if tier != "quick":
        for f in ("c", "a"):
            cand += [(f"one:{f}:{k}", {i: f}) for k, i in enumerate(idx)]
        if t <= FULL_LIMIT:
            for bits in itertools.product("lu", repeat=t):
                cand.append(("mask:" + "".join(bits), {i: b for i, b in zip(idx, bits) if b != "l"}))
        else:
            for (k, i), (m, j) in itertools.combinations(enumerate(idx), 2):
                cand.append((f"two:u:{k}:{m}", {i: "u", j: "u"}))
    seen, out = set(), []
    for label, forms in cand:
        s = render(toks, forms)
        if s not in seen:
            seen.add(s)
            out.append((label, forms))
    return out


def quotings(toks: list[Tok], tier: str) -> list[tuple]:
    """Quoted/unquoted re-spellings: [(label, rest form, quoted token indexes)]: every single marked name written as
    "UPPER", all of them; thorough adds every subset (<= 6 names) or every pair, and the same with the rest of the
    statement in upper case."""
    nm = names(toks)
    if not nm:
        return []
    cand = [(f"q:one:{k}", "l", (i,)) for k, i in enumerate(nm)]
    cand.append(("q:all", "l", tuple(nm)))
    if tier != "quick":
        if len(nm) <= 6:
            for r in range(2, len(nm)):
                for sub in itertools.combinations(range(len(nm)), r):
                    cand.append(("q:set:" + ".".join(map(str, sub)), "l", tuple(nm[k] for k in sub)))
        else:
            for k, m in itertools.combinations(range(len(nm)), 2):
                cand.append((f"q:set:{k}.{m}", "l", (nm[k], nm[m])))
        cand += [(lab + ":U", "u", qs) for lab, _f, qs in list(cand)]
    seen, out = set(), []
    for label, form, qs in cand:
        s = render(toks, form, qs)
        if s not in seen:
            seen.add(s)
            out.append((label, form, qs))
    return out


# ---- 3. names-only catalogue model ----------------------------------------------------------------------------------

UNKNOWN = "<unknown>"  # a current schema the property does not fix (e.g. after USE DATABASE)


class Catalog:
    """dbs: {DB: {SCHEMA: {NAME: (kind, [COLUMN, ...])}}} with names as Snowflake reports them."""

    def __init__(self, database: str, schema: str):
        # connect(database=, schema=) arguments behave like unquoted identifiers
        self.cur_db = database.upper()
        self.cur_schema = schema.upper()
        self.dbs = {self.cur_db: {self.cur_schema: {}}}
        self.verbatim: set[str] = set()  # every name that was written in double quotes (may contain lower case)

    # -- helpers
    def _f(self, spelled: str) -> str:
        n = fold(spelled)
        if is_quoted(spelled):
            self.verbatim.add(n)
        return n

    def _resolve(self, spelled: str, parts: int):
        """-> tuple of `parts` folded names, filled up from the current database/schema."""
        p = [self._f(x) for x in split_qualified(spelled)]
        if len(p) > parts:
            raise ValueError(spelled)
        ctx = [self.cur_db, self.cur_schema][: parts - 1]
        full = ctx[: parts - len(p)] + p
        if any(x in (None, UNKNOWN) for x in full):
            raise ValueError(f"{spelled!r} needs a current database/schema the model does not know")
        return tuple(full)

    def apply(self, fx):
        op = fx[0]
        if op in ("table", "view"):
            d, s, n = self._resolve(fx[1], 3)
            self.dbs[d][s][n] = (op, [self._f(c) for c in fx[2]])
        elif op == "drop":
            d, s, n = self._resolve(fx[1], 3)
            del self.dbs[d][s][n]
        elif op == "rename":
            d, s, n = self._resolve(fx[1], 3)
            d2, s2, n2 = self._resolve(fx[2], 3)
            self.dbs[d2][s2][n2] = self.dbs[d][s].pop(n)
        elif op == "addcol":
            d, s, n = self._resolve(fx[1], 3)
            self.dbs[d][s][n][1].append(self._f(fx[2]))
        elif op == "dropcol":
            d, s, n = self._resolve(fx[1], 3)
            self.dbs[d][s][n][1].remove(self._f(fx[2]))
        elif op == "renamecol":
            d, s, n = self._resolve(fx[1], 3)
            cols = self.dbs[d][s][n][1]
            cols[cols.index(self._f(fx[2]))] = self._f(fx[3])
        elif op == "schema":
            d, s = self._resolve(fx[1], 2)
            self.dbs[d].setdefault(s, {})
        elif op == "dropschema":
            d, s = self._resolve(fx[1], 2)
            del self.dbs[d][s]
            if (d, s) == (self.cur_db, self.cur_schema):
                self.cur_schema = None
        elif op == "database":
            self.dbs.setdefault(self._f(fx[1]), {})
        elif op == "dropdatabase":
            d = self._f(fx[1])
            del self.dbs[d]
            if d == self.cur_db:
                self.cur_db, self.cur_schema = None, None
        elif op == "use_schema":
            p = [self._f(x) for x in split_qualified(fx[1])]
            if len(p) == 2:
                self.cur_db = p[0]
            self.cur_schema = p[-1]
        elif op == "session":
            # another connection of the same instance: connect(database=, schema=) arguments, either may be None
            self.cur_db = fx[1].upper() if fx[1] else None
            self.cur_schema = fx[2].upper() if fx[2] else None
        elif op == "use_database":
            self.cur_db = self._f(fx[1])
            self.cur_schema = UNKNOWN  # Snowflake: PUBLIC if it exists; not part of this property
        else:
            raise ValueError(fx)
        return self

    def objects(self):
        """[(DB, SCHEMA, NAME, kind, [COLUMNS])] sorted."""
        return sorted(
            (d, s, n, k, list(c)) for d, ss in self.dbs.items() for s, oo in ss.items() for n, (k, c) in oo.items()
        )

    def schemas(self):
        return sorted((d, s) for d, ss in self.dbs.items() for s in ss)

    def databases(self):
        return sorted(self.dbs)


def ident_sql(name: str) -> str:
    """A spelling that denotes exactly `name` (always quoted, so it is independent of folding)."""
    return '"' + name.replace('"', '""') + '"'


def judge_name(reported: str, expected_names, verbatim) -> str:
    """How a reported name relates to the names the model knows:
    'exact'   it is one of them;
    'case'    it equals one of them except for letter case (the wrong case is reported);
    'lower'   it is none of them, contains lower-case letters and was never written in quotes;
    'other'   anything else (an upper-case or quoted name the model does not track)."""
    if reported in expected_names:
        return "exact"
    up = reported.upper()
    if any(e.upper() == up for e in expected_names):
        return "case"
    if reported != up and reported not in verbatim:
        return "lower"
    return "other"


# ---- 4. quoted identifiers whose letter case is the variable ----------------------------------------------------------
# "Double-quoted identifiers are reported exactly as written": two statements that differ only in the letter case of a
# quoted identifier are two different statements and each reports its own spelling, whatever was executed before in
# the session. A *verbatim template* writes such an identifier as "<word>" (a slot): "<total>" is rendered "total",
# "TOTAL", "Total", "tOtAl" (forms l, u, c, a of `spell`). A slot word that occurs several times is ONE slot (definition
# and reference of a name the statement defines itself are re-spelled together: written differently they would be two
# different identifiers, and the reference would not resolve in Snowflake).

_VSLOT = re.compile(r'"<([A-Za-z_][A-Za-z0-9_]*)>"')


def vslots(template: str) -> list[str]:
    """slot words of a verbatim template in order of first occurrence"""
    out = []
    for w in _VSLOT.findall(template):
        if w != w.lower():
            raise ValueError(f"slot words are written in lower case: {w!r}")
        if len({spell(w, f) for f in FORMS}) != len(FORMS):
            raise ValueError(f"the forms of slot word {w!r} coincide (it needs two letters)")
        if w not in out:
            out.append(w)
    return out


def vrender(template: str, forms) -> str:
    """the statement with its slots written in `forms` (one form per slot of vslots(template), or one for all)"""
    slots = vslots(template)
    if isinstance(forms, str):
        forms = (forms,) * len(slots)
    if len(forms) != len(slots):
        raise ValueError("one form per slot")
    by = dict(zip(slots, forms))
    return _VSLOT.sub(lambda m: '"' + spell(m.group(1), by[m.group(1)]) + '"', template)


def vreported(spelled_columns, template: str, forms) -> tuple:
    """the names Snowflake reports for result columns spelled like this (slots as in the template, the rest as the
    statement writes them): quoted -> verbatim, unquoted -> upper case"""
    slots = vslots(template)
    if isinstance(forms, str):
        forms = (forms,) * len(slots)
    by = dict(zip(slots, forms))
    out = []
    for c in spelled_columns:
        m = _VSLOT.fullmatch(c)
        out.append(spell(m.group(1), by[m.group(1)]) if m else fold(c))
    return tuple(out)


def vspellings(nslots: int, tier: str) -> list[tuple]:
    """form assignments of a verbatim template: quick = every slot in the same form (4) + one slot in UPPER, the others
    lower; thorough = all 4^n."""
    if nslots < 1:
        raise ValueError("a verbatim template has a slot")
    if tier != "quick":
        return list(itertools.product(FORMS, repeat=nslots))
    out = [(f,) * nslots for f in FORMS]
    for k in range(nslots):
        s = tuple("u" if i == k else "l" for i in range(nslots))
        if s not in out:
            out.append(s)
    return out


def vhistories(spellings: list[tuple], tier: str) -> list[tuple]:
    """histories of spellings executed one after the other in one session: every ordered pair of two different
    spellings (so: both orders); thorough adds, over the whole-statement spellings (every slot in the same form), the
    histories of three with neighbours different (A B A: back to the first; A B C)."""
    out = [(a, b) for a in spellings for b in spellings if a != b]
    if tier != "quick":
        whole = [s for s in spellings if len(set(s)) == 1]
        out += [(a, b, c) for a in whole for b in whole for c in whole if a != b and b != c]
    return out
