"""Reference: Snowflake MERGE semantics over Python lists (boring on purpose), for property C12.

Source of the semantics: https://docs.snowflake.com/en/sql-reference/sql/merge
  * target and source are joined on the ON expression (SQL equality: a NULL key joins nothing);
  * for every joined (target row, source row) pair the FIRST `WHEN MATCHED [AND cond]` clause, in statement order,
    whose condition is TRUE (not FALSE, not NULL) applies: UPDATE sets the listed columns from expressions evaluated
    on the pre-statement values of the pair, DELETE removes the target row;
  * every source row that joins no target row takes the FIRST `WHEN NOT MATCHED [AND cond]` clause whose condition
    is TRUE and is inserted (columns not listed get NULL);
  * everything else is untouched; the status row has one column per clause *kind* present in the statement
    ("number of rows inserted" / "updated" / "deleted") holding the number of rows affected, 0 when none;
  * a clause without AND must be the last one of its kind (MATCHED / NOT MATCHED) -- `valid_clause_list`;
  * a merge in which a target row joins more than one source row is nondeterministic: outside the domain, the
    reference refuses it (NonDeterministic);
  * a statement that would store NULL in a NOT NULL column fails and changes nothing (`merge(..., not_null=...)`);
  * a statement one of whose INSERT clauses lists n columns but m <> n values is rejected as a whole whatever the data
    ("Insert value list does not match column list"): `static_error`.

Rows are tuples over the column lists given by the caller. Expressions are small ASTs over a joined pair:
  ('t', col) | ('s', col) | ('lit', value)
  ('cmp', a, op, b)  op in = <> < <= > >=      ('isnull', a) | ('notnull', a)
  ('and', a, b) | ('or', a, b) | ('not', a)
  ('bare_or', a, b)   the same as 'or', but written WITHOUT parentheses around it (only sensible as a whole condition)
  ('concat', a, b) | ('add', a, b)
Clauses:
  ('update', cond|None, ((col, expr), ...))
  ('delete', cond|None)
  ('insert', cond|None, (col, ...)|None, (expr, ...))     exprs and cond over the source row only
Truth values: True, False, None (unknown) -- the three-valued operators are those of mc/ref/sql3vl.py.
"""
from __future__ import annotations

from mc.ref.sql3vl import _and, _cmp, _not, _or, lit

KIND_COLUMN = {"insert": "number of rows inserted", "update": "number of rows updated", "delete": "number of rows deleted"}


class NonDeterministic(Exception):
    """a target row joins more than one source row: Snowflake's result is not defined by the documentation"""


# ---- expressions ---------------------------------------------------------------------------------------------------
def ev(e, t, s, tcols, scols):
    k = e[0]
    if k == "t":
        return None if t is None else t[tcols.index(e[1])]
    if k == "s":
        return None if s is None else s[scols.index(e[1])]
    if k == "lit":
        return e[1]
    if k == "cmp":
        return _cmp(ev(e[1], t, s, tcols, scols), e[2], ev(e[3], t, s, tcols, scols))
    if k == "isnull":
        return ev(e[1], t, s, tcols, scols) is None
    if k == "notnull":
        return ev(e[1], t, s, tcols, scols) is not None
    if k == "and":
        return _and(ev(e[1], t, s, tcols, scols), ev(e[2], t, s, tcols, scols))
    if k in ("or", "bare_or"):
        return _or(ev(e[1], t, s, tcols, scols), ev(e[2], t, s, tcols, scols))
    if k == "not":
        return _not(ev(e[1], t, s, tcols, scols))
    if k in ("concat", "add"):
        a, b = ev(e[1], t, s, tcols, scols), ev(e[2], t, s, tcols, scols)
        return None if a is None or b is None else a + b
    raise AssertionError(e)


def refs(e, side):
    """column names of `side` ('t' | 's') referenced by expression e (None -> empty)"""
    if e is None:
        return set()
    if e[0] in ("t", "s"):
        return {e[1]} if e[0] == side else set()
    if e[0] == "lit":
        return set()
    out = set()
    for x in e[1:]:
        if isinstance(x, tuple):
            out |= refs(x, side)
    return out


def valid_clause_list(clauses) -> bool:
    """Snowflake: a WHEN [NOT] MATCHED clause without AND must be the last clause of its kind."""
    m_closed = n_closed = False
    for c in clauses:
        if c[0] in ("update", "delete"):
            if m_closed:
                return False
            m_closed = c[1] is None
        else:
            if n_closed:
                return False
            n_closed = c[1] is None
            if refs(c[1], "t") or any(refs(x, "t") for x in c[3]):
                return False  # a NOT MATCHED clause can only see the source row
    return True


# ---- the reference -------------------------------------------------------------------------------------------------
def _first(clauses, kinds, t, s, tcols, scols):
    for i, c in enumerate(clauses):
        if c[0] in kinds and (c[1] is None or ev(c[1], t, s, tcols, scols) is True):
            return i
    return None


def _updated(c, t, s, tcols, scols):
    r = list(t)
    for col, e in c[2]:
        r[tcols.index(col)] = ev(e, t, s, tcols, scols)  # every expression sees the OLD target row
    return tuple(r)


def static_error(clauses):
    """index of the first INSERT clause whose column list and value list differ in length (the statement does not
    compile in Snowflake: nothing is carried out), or None"""
    for i, c in enumerate(clauses):
        if c[0] == "insert" and c[2] is not None and len(c[2]) != len(c[3]):
            return i
    return None


def _inserted(c, s, tcols, scols):
    cols = c[2] if c[2] is not None else tcols
    if len(cols) != len(c[3]):
        raise AssertionError("insert column/value count mismatch")
    d = {col: ev(e, None, s, tcols, scols) for col, e in zip(cols, c[3])}
    return tuple(d.get(col) for col in tcols)


def assign(trows, srows, tcols, scols, on, clauses):
    """-> (per target row: (source index|None, clause index|None), per source row: clause index|None or 'matched')"""
    tassign, joined = [], set()
    for t in trows:
        js = [j for j, s in enumerate(srows) if ev(on, t, s, tcols, scols) is True]
        if len(js) > 1:
            raise NonDeterministic((t, [srows[j] for j in js]))
        if not js:
            tassign.append((None, None))
            continue
        joined.add(js[0])
        tassign.append((js[0], _first(clauses, ("update", "delete"), t, srows[js[0]], tcols, scols)))
    sassign = []
    for j, s in enumerate(srows):
        sassign.append("matched" if j in joined else _first(clauses, ("insert",), None, s, tcols, scols))
    return tassign, sassign


def merge(trows, srows, tcols, scols, on, clauses, not_null=()):
    """-> dict(rows=[...target rows afterwards, as a list to be compared as a multiset...],
               counts={kind: n for the kinds present}, per_clause=[rows affected per clause], error=bool)
    error=True: some stored row would have NULL in a NOT NULL column -> the statement fails, rows = trows."""
    if not valid_clause_list(clauses):
        raise AssertionError("clause list is not a valid Snowflake MERGE")
    tassign, sassign = assign(trows, srows, tcols, scols, on, clauses)
    per_clause = [0] * len(clauses)
    out, written = [], []
    bad = static_error(clauses)
    if bad is not None:
        # rejected as a whole; per_clause still says how many rows each clause WOULD have taken (used by the check to
        # decide whether a clause before the offending one had anything to do)
        for _j, ci in tassign:
            if ci is not None:
                per_clause[ci] += 1
        for ci in sassign:
            if ci is not None and ci != "matched":
                per_clause[ci] += 1
        counts = {}
        for c, n in zip(clauses, per_clause):
            counts[c[0]] = counts.get(c[0], 0) + n
        return {"rows": list(trows), "counts": counts, "per_clause": per_clause, "error": True, "static_error": bad,
                "tassign": tassign, "sassign": sassign}  # fmt: skip
    for t, (j, ci) in zip(trows, tassign):
        if ci is None:
            out.append(t)
            continue
        per_clause[ci] += 1
        if clauses[ci][0] == "update":
            r = _updated(clauses[ci], t, srows[j], tcols, scols)
            out.append(r)
            written.append(r)
    for s, ci in zip(srows, sassign):
        if ci is None or ci == "matched":
            continue
        per_clause[ci] += 1
        r = _inserted(clauses[ci], s, tcols, scols)
        out.append(r)
        written.append(r)
    counts = {}
    for c, n in zip(clauses, per_clause):
        counts[c[0]] = counts.get(c[0], 0) + n
    error = any(r[tcols.index(col)] is None for r in written for col in not_null)
    return {
        "rows": list(trows) if error else out,
        "counts": counts,
        "per_clause": per_clause,
        "error": error,
        "tassign": tassign,
        "sassign": sassign,
    }


def first_failing_clause(trows, srows, tcols, scols, on, clauses, not_null):
    """index (statement order) of the first clause one of whose written rows has NULL in a NOT NULL column, or None"""
    if static_error(clauses) is not None:
        return static_error(clauses)
    tassign, sassign = assign(trows, srows, tcols, scols, on, clauses)
    bad = set()
    for t, (j, ci) in zip(trows, tassign):
        if ci is not None and clauses[ci][0] == "update":
            r = _updated(clauses[ci], t, srows[j], tcols, scols)
            if any(r[tcols.index(col)] is None for col in not_null):
                bad.add(ci)
    for s, ci in zip(srows, sassign):
        if ci is not None and ci != "matched":
            r = _inserted(clauses[ci], s, tcols, scols)
            if any(r[tcols.index(col)] is None for col in not_null):
                bad.add(ci)
    return min(bad) if bad else None


# ---- a named ALTERNATIVE semantics (not the reference) ---------------------------------------------------------------
def merge_clausewise_rejoin(trows, srows, tcols, scols, on, clauses):
    """What one gets when the clause that applies is decided per joined pair on the pre-state (as above), but each
    clause is then carried out as its own statement, in statement order, against the *current* target, finding its
    rows by joining again on ON with the source rows assigned to that clause -- instead of by row identity.
    Used only to *label* a deviation ("observed == this") so that it forms one homogeneous class; it equals the
    reference whenever target keys are unique and no UPDATE changes a join column. Returns the row list, or None
    when a target row would be updated from two different source rows."""
    tassign, sassign = assign(trows, srows, tcols, scols, on, clauses)
    cands = [(srows[j], ci) for (j, ci) in tassign if ci is not None]
    cands += [(s, ci) for s, ci in zip(srows, sassign) if ci is not None and ci != "matched"]
    cur = list(trows)
    for i, c in enumerate(clauses):
        mine = [s for s, ci in cands if ci == i]
        if c[0] == "delete":
            cur = [t for t in cur if not any(ev(on, t, s, tcols, scols) is True for s in mine)]
        elif c[0] == "update":
            nxt = []
            for t in cur:
                ss = [s for s in mine if ev(on, t, s, tcols, scols) is True]
                if not ss:
                    nxt.append(t)
                    continue
                if any(s != ss[0] for s in ss):
                    return None
                nxt.append(_updated(c, t, ss[0], tcols, scols))
            cur = nxt
        else:
            cur = cur + [_inserted(c, s, tcols, scols) for s in mine]
    return cur


# ---- rendering (the check's own grammar: the reference never parses SQL) ---------------------------------------------
def sql_expr(e, tq, sq, kw=str.upper):
    """tq / sq: the qualifier written in front of target / source columns ('t', 'tgt', 'db1.s1.t', ...)"""
    k = e[0]
    if k == "t":
        return f"{tq}.{e[1]}"
    if k == "s":
        return f"{sq}.{e[1]}"
    if k == "lit":
        return kw("NULL") if e[1] is None else lit(e[1])
    if k == "cmp":
        return f"{sql_expr(e[1], tq, sq, kw)} {e[2]} {sql_expr(e[3], tq, sq, kw)}"
    if k == "isnull":
        return f"{sql_expr(e[1], tq, sq, kw)} {kw('IS NULL')}"
    if k == "notnull":
        return f"{sql_expr(e[1], tq, sq, kw)} {kw('IS NOT NULL')}"
    if k == "and":
        return f"({sql_expr(e[1], tq, sq, kw)} {kw('AND')} {sql_expr(e[2], tq, sq, kw)})"
    if k == "or":
        return f"({sql_expr(e[1], tq, sq, kw)} {kw('OR')} {sql_expr(e[2], tq, sq, kw)})"
    if k == "bare_or":
        return f"{sql_expr(e[1], tq, sq, kw)} {kw('OR')} {sql_expr(e[2], tq, sq, kw)}"
    if k == "not":
        return f"{kw('NOT')} ({sql_expr(e[1], tq, sq, kw)})"
    if k == "concat":
        return f"{sql_expr(e[1], tq, sq, kw)} || {sql_expr(e[2], tq, sq, kw)}"
    if k == "add":
        return f"{sql_expr(e[1], tq, sq, kw)} + {sql_expr(e[2], tq, sq, kw)}"
    raise AssertionError(e)


def sql_merge(target, source, tq, sq, on, clauses, kw=str.upper, set_qualified=False):
    """target / source: the text after INTO / USING (name, name + alias, subquery + alias)."""
    out = [f"{kw('MERGE INTO')} {target} {kw('USING')} {source} {kw('ON')} {sql_expr(on, tq, sq, kw)}"]
    for c in clauses:
        head = kw("WHEN MATCHED") if c[0] != "insert" else kw("WHEN NOT MATCHED")
        if c[1] is not None:
            head += f" {kw('AND')} {sql_expr(c[1], tq, sq, kw)}"
        if c[0] == "delete":
            out.append(f"{head} {kw('THEN DELETE')}")
        elif c[0] == "update":
            pre = f"{tq}." if set_qualified else ""
            sets = ", ".join(f"{pre}{col} = {sql_expr(e, tq, sq, kw)}" for col, e in c[2])
            out.append(f"{head} {kw('THEN UPDATE SET')} {sets}")
        else:
            cols = f" ({', '.join(c[2])})" if c[2] is not None else ""
            vals = ", ".join(sql_expr(e, tq, sq, kw) for e in c[3])
            out.append(f"{head} {kw('THEN INSERT')}{cols} {kw('VALUES')} ({vals})")
    return " ".join(out)
