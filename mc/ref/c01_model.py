"""Reference model for C01 (stored values read back unchanged, in the connector's Python types).

Everything the check expects is derived here from the *input* (declared column type + the Python value the user
holds), never from fakesnow's output:

  TYPES            the column types of the property statement, with family / precision / scale / max length
  values_for       boundary alphabet per type: (shape label, canonical Python value); only values exactly
                   representable in the declared type
  sql_literal      Snowflake literal / constant expression for a value (SQL-text ingestion)
  bind_value       Python object a user binds for the value (pyformat / qmark)
  build_insert     one INSERT statement for a list of rows in a given style (lit / pyformat / qmark)
  df_column        pandas column a user would hold the values in (write_pandas)
  allowed          which (type, path, shape) combinations are demanded at all (ambiguous ones are left out)
  check_value      (expected, got) -> set of failed sub-clauses {'null','pytype','value'}
  expected_pytype  description of the connector's Python type for the column family

Sources: Snowflake documentation "Summary of data types", "Numeric data types" (INT.. are synonyms of NUMBER(38,0),
FLOAT.. are all 64 bit), "String & binary data types" (CHAR = VARCHAR(1); escape sequences in single-quoted
constants), "Date & time data types", "Semi-structured data types" (VARIANT null <> SQL NULL), and the Python
connector documentation "Data type mappings" / converter module (FIXED scale 0 -> int, scale>0 -> Decimal,
REAL -> float, TEXT -> str, DATE -> date, TIME -> time, TIMESTAMP_NTZ -> naive datetime, TIMESTAMP_TZ -> aware
datetime, BINARY -> bytes/bytearray, VARIANT/OBJECT/ARRAY -> str holding JSON).
"""
from __future__ import annotations

import datetime as dt
import decimal
import json
import struct

D = decimal.Decimal
UTC = dt.timezone.utc

# --------------------------------------------------------------------------------------------------------------
# column types (the list of the property statement; every spelling is a documented Snowflake synonym)


def _t(sql, family, **kw):
    d = {"sql": sql, "family": family, "p": None, "s": None, "maxlen": None, "json_kind": None}
    d.update(kw)
    return d


TYPES = [
    _t("BOOLEAN", "bool"),
    # fixed point, scale 0 (connector: int).  INT family = NUMBER(38,0) in Snowflake.
    _t("NUMBER", "fixed0", p=38, s=0),
    _t("NUMBER(38,0)", "fixed0", p=38, s=0),
    _t("NUMBER(20)", "fixed0", p=20, s=0),
    _t("NUMBER(10,0)", "fixed0", p=10, s=0),  # more than 32 bit, less than 64
    _t("DECIMAL", "fixed0", p=38, s=0),
    _t("NUMERIC", "fixed0", p=38, s=0),
    _t("INT", "fixed0", p=38, s=0),
    _t("INTEGER", "fixed0", p=38, s=0),
    _t("BIGINT", "fixed0", p=38, s=0),
    _t("SMALLINT", "fixed0", p=38, s=0),
    _t("TINYINT", "fixed0", p=38, s=0),
    _t("BYTEINT", "fixed0", p=38, s=0),
    # fixed point, scale > 0 (connector: Decimal)
    _t("NUMBER(10,2)", "fixedS", p=10, s=2),
    _t("NUMBER(38,37)", "fixedS", p=38, s=37),
    _t("DECIMAL(10,2)", "fixedS", p=10, s=2),
    # floating point: all 64 bit in Snowflake
    _t("FLOAT", "float"),
    _t("FLOAT4", "float"),
    _t("FLOAT8", "float"),
    _t("DOUBLE", "float"),
    _t("DOUBLE PRECISION", "float"),
    _t("REAL", "float"),
    # text
    _t("VARCHAR", "text"),
    _t("VARCHAR(300)", "text", maxlen=300),
    _t("VARCHAR(3)", "text", maxlen=3),
    _t("STRING", "text"),
    _t("TEXT", "text"),
    _t("CHAR", "text", maxlen=1),
    _t("DATE", "date"),
    _t("TIME", "time"),
    _t("TIMESTAMP_NTZ", "ntz"),
    _t("TIMESTAMP", "ntz"),  # TIMESTAMP_TYPE_MAPPING default = TIMESTAMP_NTZ
    _t("DATETIME", "ntz"),  # alias of TIMESTAMP_NTZ
    _t("TIMESTAMP_TZ", "tz"),
    _t("BINARY", "binary"),
    _t("VARBINARY", "binary"),
    _t("VARIANT", "json", json_kind="any"),
    _t("OBJECT", "json", json_kind="object"),
    _t("ARRAY", "json", json_kind="array"),
]
TYPE_BY_NAME = {t["sql"]: t for t in TYPES}

PATHS = [
    "lit",  # INSERT with the values written as SQL constants (a quote inside a string constant doubled: '')
    "lit_bs",  # the same with the other documented spelling of a quote inside a string constant: \'
    "pyformat",  # INSERT with %s placeholders, paramstyle pyformat (client side binding)
    "qmark",  # INSERT with ? placeholders, paramstyle qmark (server side binding)
    "insert_select",  # INSERT INTO t SELECT .. FROM staging
    "ctas",  # CREATE TABLE t AS SELECT .. FROM staging
    "clone",  # CREATE TABLE t CLONE staging
    "insert_select_cast",  # INSERT INTO t SELECT id, v::<declared type spelling> FROM staging (the spelling inside a cast)
    "ctas_cast",  # CREATE TABLE t AS SELECT id, v::<declared type spelling> AS v FROM staging (column type given by a cast)
    "wp",  # write_pandas into an existing table
    "wp_dbschema",  # write_pandas(database=, schema=) into a table of another schema
    "wp_subset",  # write_pandas with a subset of the table's columns, in another order
    "wp_auto",  # write_pandas(auto_create_table=True)
    "wp_opts",  # write_pandas of a several-row DataFrame x chunk_size x DataFrame index x parallel x quote_identifiers
]
SQL_PATHS = ("lit", "lit_bs", "pyformat", "qmark")
LIT_PATHS = ("lit", "lit_bs")
DERIVED_PATHS = ("insert_select", "ctas", "clone", "insert_select_cast", "ctas_cast")
WP_PATHS = ("wp", "wp_dbschema", "wp_subset", "wp_auto", "wp_opts")

# NULL placements of a cell [v]: none / NULL first / NULL in the middle / NULL last, + "after_identity": the value
# preceded by the identity value of its type instead of a NULL (first-row sniffing by a falsy first value),
# + one "all" cell (only NULLs) per (type, path)
PLACEMENTS = ["none", "first", "middle", "last", "after_identity"]

# --------------------------------------------------------------------------------------------------------------
# boundary alphabets (shape label, value).  Labels name the *shape* of the input and are used in class keys.

I64_MAX = 2**63 - 1


def _fixed0_values(p):
    big = 10**p - 1
    out = [
        ("zero", 0),
        ("one", 1),
        ("neg_one", -1),
        ("over_int32", 2**31),
        ("under_int32", -(2**31)),
        ("int64_max", I64_MAX),
        ("int64_max_neg", -I64_MAX),
        ("int64_min", -(2**63)),
        ("over_int64", 2**63),  # still fits an unsigned 64 bit integer
        ("over_uint64", 2**64 + 1),  # odd, so that a detour through a double is visible
        ("max_precision", big),
        ("min_precision", -big),
    ]
    return [(k, v) for k, v in out if abs(v) <= big]  # only what the declared precision can hold


def _fixedS_values(p, s):
    # built from digit strings / copy_negate only: Decimal *arithmetic* rounds to the context precision (28 digits)
    q = D(f"1E-{s}")  # smallest magnitude at full scale
    ip = max(p - s, 0)
    mx = D("9" * ip + "." + "9" * s) if ip else D("0." + "9" * s)  # largest magnitude: p nines
    digits = "1234567890123456789012345678901234567890"
    canary = D((digits[:ip] or "0") + "." + digits[ip : ip + s])
    out = [
        ("zero", D(0)),
        ("half", D("0.5")),
        ("neg_frac", D("-1.5")),
        ("full_scale_digits", canary),
        ("min_magnitude", q),
        ("min_magnitude_neg", q.copy_negate()),
        ("max_magnitude", mx),
        ("max_magnitude_neg", mx.copy_negate()),
    ]
    if ip >= 8:
        out.insert(3, ("cents", D("12345678.91")))
    return out


FLOAT_VALUES = [
    ("zero", 0.0),
    ("one", 1.0),
    ("neg_frac", -1.5),
    ("tenth", 0.1),
    ("sig17", 0.30000000000000004),
    ("float32_canary", 16777217.0),  # not representable in 32 bit float
    ("denormal_min", 5e-324),
    ("normal_min", 2.2250738585072014e-308),
    ("max", 1.7976931348623157e308),
    ("max_neg", -1.7976931348623157e308),
    ("neg_zero", -0.0),
]

TEXT_VALUES = [
    ("ascii", "abc"),
    ("empty", ""),
    ("space", " "),
    ("padded", " a "),
    ("quote", "'"),
    ("dquote", '"'),
    ("backslash", "\\"),
    ("newline", "\n"),
    ("percent", "%"),
    ("percent_s", "%s"),
    ("qmark", "?"),
    ("latin1", "é"),
    ("bmp", "❄"),
    ("astral", "𝒳"),
    ("null_word", "NULL"),
    ("mixed", "a'b\\c\n❄"),
    ("len300", "x" * 298 + "é❄"),
]

# The "syntactically active" character sequences of the lexers a statement passes through (string constant, session
# variable reference, positional reference, dollar-quoted string, comments, the three parameter styles, statement
# separator, line end).  Inside a value they are plain characters.  For every ORDERED PAIR (a, b) of them a text value
# containing a then b must round-trip: adjacent ("pair:a+b" = a + b) and apart ("gap:a+b" = a + " x " + b).
ACTIVE_TOKENS = [
    ("squote", "'"),
    ("backslash", "\\"),
    ("dollar_name", "$name"),  # looks like a session variable (one of that name is SET in the "used" session state)
    ("dollar_1", "$1"),
    ("dollar_dollar", "$$"),
    ("dash_dash", "--"),
    ("slash_star", "/*"),
    ("star_slash", "*/"),
    ("pct_s", "%s"),
    ("pct_named", "%(x)s"),
    ("qmark", "?"),
    ("colon_1", ":1"),
    ("semicolon", ";"),
    ("newline", "\n"),
]
PAIR_VALUES = [(f"pair:{ka}+{kb}", a + b) for ka, a in ACTIVE_TOKENS for kb, b in ACTIVE_TOKENS]
GAP_VALUES = [(f"gap:{ka}+{kb}", a + " x " + b) for ka, a in ACTIVE_TOKENS for kb, b in ACTIVE_TOKENS]
PAIR_TYPES_QUICK = ("VARCHAR",)  # the lexers do not depend on the declared type: one unbounded text type in quick


def is_pair_shape(shape) -> bool:
    return shape.startswith("pair:") or shape.startswith("gap:")


# session variables defined in the "used" session state: their names occur in the values ($name, %(x)s)
SESSION_VARIABLES = [("name", "42"), ("x", "'VARVAL'")]
SESSION_STATES = ["pristine", "used"]
# Statements of the "used" session that FAIL, one for every route a statement takes through the cursor
# ({s3} = the other schema, which holds a table T1; {ph} = the placeholder of the connection's paramstyle):
FAILING_STATEMENTS = [
    ("single_step", "SELECT * FROM NO_SUCH_TABLE"),
    ("single_step_data_error", "INSERT INTO {s3}.T1 (ID) VALUES ('not a number')"),
    ("create_with_text_length_exists", "CREATE TABLE {s3}.T1 (ID INT, V VARCHAR(10))"),  # several steps, name resolution error
    ("create_with_comment_exists", "CREATE TABLE {s3}.T1 (ID INT) COMMENT = 'again'"),
    ("clone_missing_source", "CREATE TABLE X_CLONE CLONE NO_SUCH_TABLE"),
    ("merge_missing_target", "MERGE INTO NO_SUCH_TABLE t USING (SELECT 1 AS ID) s ON t.ID = s.ID "
                             "WHEN MATCHED THEN UPDATE SET ID = s.ID WHEN NOT MATCHED THEN INSERT (ID) VALUES (s.ID)"),
    ("rename_missing_table", "ALTER TABLE NO_SUCH_TABLE RENAME TO X_RENAMED"),
    ("rename_missing_column", "ALTER TABLE {s3}.T1 RENAME COLUMN NO_SUCH_COLUMN TO W"),
    ("ctas_data_error", "CREATE TABLE X_CTAS (V VARCHAR(5)) AS SELECT CAST('x' AS INT) AS V"),  # several steps, data error
    ("executemany", "INSERT INTO NO_SUCH_TABLE (ID) VALUES ({ph})"),
]

DATE_VALUES = [
    ("year1", dt.date(1, 1, 1)),
    ("pre_epoch", dt.date(1969, 12, 31)),
    ("epoch", dt.date(1970, 1, 1)),
    ("leap_day", dt.date(2024, 2, 29)),
    ("year9999", dt.date(9999, 12, 31)),
]

TIME_VALUES = [
    ("midnight", dt.time(0, 0, 0)),
    ("one_us", dt.time(0, 0, 0, 1)),
    ("half", dt.time(12, 34, 56, 500000)),
    ("last_us", dt.time(23, 59, 59, 999999)),
]

_FRACS = [("f0", 0), ("f1us", 1), ("fhalf", 500000), ("f999999", 999999)]


def _ts_values(tz):
    out = [("epoch_exact", dt.datetime(1970, 1, 1, 0, 0, 0))]
    for dl, d in DATE_VALUES:
        for fl, us in _FRACS:
            out.append((f"{dl}_{fl}", dt.datetime(d.year, d.month, d.day, 23, 59, 59, us)))
    if tz:
        out = [(k, v.replace(tzinfo=UTC)) for k, v in out]
    return out


BINARY_VALUES = [
    ("ascii", b"ABC"),
    ("empty", b""),
    ("nul", b"\x00"),
    ("high_nul_ascii", b"\xff\x00A"),
]

# JSON documents, as canonical text; kind decides which column types can hold them
JSON_VALUES = [
    ("json_null", "null", "scalar"),
    ("json_true", "true", "scalar"),
    ("json_false", "false", "scalar"),
    ("json_int", "0", "scalar"),
    ("json_neg_frac", "-1.5", "scalar"),
    ("json_str", '"s"', "scalar"),
    ("json_empty_str", '""', "scalar"),
    ("json_str_quote", '"q\\"uote"', "scalar"),
    ("json_str_squote", '"it\'s $name"', "scalar"),
    ("empty_array", "[]", "array"),
    ("empty_object", "{}", "object"),
    ("nested_array", '[1,[2,{"a":null}]]', "array"),
    ("nested_object", '{"a":{"b":[1,"x"]}}', "object"),
]
JSON_KIND = {k: kind for k, _, kind in JSON_VALUES}


def values_for(ts):
    """Complete boundary alphabet of a type: only values exactly representable in it."""
    f = ts["family"]
    if f == "bool":
        return [("true", True), ("false", False)]
    if f == "fixed0":
        return _fixed0_values(ts["p"])
    if f == "fixedS":
        return _fixedS_values(ts["p"], ts["s"])
    if f == "float":
        return list(FLOAT_VALUES)
    if f == "text":
        ml = ts["maxlen"]
        out = [(k, v) for k, v in TEXT_VALUES if ml is None or len(v) <= ml]  # VARCHAR(n): n characters
        if ml is None or ml >= 300:
            out += PAIR_VALUES + GAP_VALUES
        return out
    if f == "date":
        return list(DATE_VALUES)
    if f == "time":
        return list(TIME_VALUES)
    if f == "ntz":
        return _ts_values(False)
    if f == "tz":
        return _ts_values(True)
    if f == "binary":
        return list(BINARY_VALUES)
    if f == "json":
        jk = ts["json_kind"]
        return [(k, v) for k, v, kind in JSON_VALUES if jk == "any" or kind == jk]
    raise AssertionError(f)


# quick tier: reduced value alphabets (shape labels), written out.  Contains every shape that is known to fail.
QUICK_SHAPES = {
    # every list keeps the "falsy / identity" value of the family (0, 0.0, Decimal(0), '', False, b'', empty JSON
    # containers, epoch / midnight): exactly what a truthiness shortcut (`v and f(v)`, `if not v`) gets wrong
    "bool": ["true", "false"],
    "fixed0": ["zero", "one", "neg_one", "int64_max", "int64_min", "over_int64", "over_uint64", "max_precision", "min_precision"],
    "fixedS": ["zero", "half", "full_scale_digits", "min_magnitude_neg", "max_magnitude"],
    "float": ["zero", "tenth", "float32_canary", "denormal_min", "max_neg", "neg_zero"],
    "text": ["ascii", "empty", "quote", "backslash", "newline", "percent_s", "astral", "mixed", "len300"],
    "date": ["year1", "pre_epoch", "epoch", "year9999"],
    "time": ["midnight", "last_us"],
    "ntz": ["epoch_exact", "year1_f1us", "pre_epoch_f999999", "leap_day_fhalf", "year9999_f999999"],
    "tz": ["epoch_exact", "year1_f1us", "pre_epoch_f999999", "leap_day_fhalf", "year9999_f999999"],
    "binary": ["ascii", "empty", "high_nul_ascii"],
    "json": ["json_null", "json_false", "json_int", "json_empty_str", "json_neg_frac", "json_str_quote", "json_str_squote", "empty_array",
             "empty_object", "nested_array", "nested_object"],
}
# reduced placements: NULL in the FIRST row is kept (implementations that sniff the first row / first value of a
# column: DataFrame analysis, multi-row VALUES type inference), and so is the identity value in the first row
QUICK_PLACEMENTS = ["none", "first", "middle", "after_identity"]

# the "falsy / identity" value of each family, by shape label
IDENTITY_SHAPE = {
    "bool": "false", "fixed0": "zero", "fixedS": "zero", "float": "zero", "text": "empty", "date": "epoch",
    "time": "midnight", "ntz": "epoch_exact", "tz": "epoch_exact", "binary": "empty",
}


def identity(ts):
    """(shape, value) of the identity value of the type: False, 0, Decimal(0), 0.0, '', epoch, midnight, b'', {} / []."""
    f = ts["family"]
    shape = IDENTITY_SHAPE[f] if f != "json" else ("empty_array" if ts["json_kind"] == "array" else "empty_object")
    return shape, dict(values_for(ts))[shape]


# --------------------------------------------------------------------------------------------------------------
# which combinations are demanded

NS_MIN = dt.datetime(1677, 9, 22)
NS_MAX = dt.datetime(2262, 4, 11)

# DataFrame dtypes whose column type under auto_create_table is unambiguous (inferred from the parquet file):
# int64/Int64 -> NUMBER(*,0), float64 -> FLOAT, bool -> BOOLEAN, str -> VARCHAR, datetime64[ns] -> TIMESTAMP_NTZ,
# datetime.date -> DATE.  The declared type plays no role on this path, so one representative type per family.
AUTO_TYPES = ("BOOLEAN", "NUMBER", "FLOAT", "VARCHAR", "DATE", "TIMESTAMP_NTZ")


def allowed(ts, path, shape, value):
    """Is (type, path, value) part of the demanded product?  Everything left out is listed in c01.py under
    'not demanded' with the reason."""
    f = ts["family"]
    if is_pair_shape(shape) and path not in SQL_PATHS:
        return False  # no statement text is built from the value on the other paths (raw staging, DataFrame)
    if path == "lit_bs" and not (isinstance(value, str) and "'" in value):
        return False  # without a quote in the value the statement is the one of path "lit"
    if path in SQL_PATHS:
        if f == "float" and shape == "neg_zero":
            return False  # '-0.0' in SQL text is the negation of a fixed-point constant: sign of zero not defined
    if path == "pyformat":
        if f in ("date", "ntz", "tz") and value is not None and value.year < 1000:
            return False  # the connector itself renders such years without zero padding ('1-01-01')
    if path == "qmark":
        if f == "tz":
            return False  # the connector binds every datetime as TIMESTAMP_NTZ; the offset then comes from the session
    if path in WP_PATHS:
        if f in ("ntz", "tz") and value is not None and not (NS_MIN <= value.replace(tzinfo=None) <= NS_MAX):
            return False  # not representable in a datetime64[ns] DataFrame column
        if f == "json" and JSON_KIND.get(shape) == "scalar":
            return False  # a str/bool/number cell is loaded as a VARIANT string/.. : only dict and list cells are documents
    if path == "wp_auto":
        if ts["sql"] not in AUTO_TYPES:
            return False
        if f == "fixed0" and value is not None and not (-(2**63) <= value <= I64_MAX):
            return False  # Decimal objects would create NUMBER(p,s) columns; int64 is the unambiguous case
    return True


# ---- write_pandas keyword arguments and DataFrame index (path wp_opts) ----
# A DataFrame of WP_OPTS_N rows (4 values of the type + one NULL) is written once per element of the product below.
# None of these options may change WHAT is stored: chunk_size only splits the upload, the DataFrame index is never
# written (and must never select rows), parallel is the number of upload threads, and quoting ID / V / T1 (all upper
# case) changes nothing.  Not varied, because the property statement does not say what they should do to the
# "no other row changes" clause or to the column types: overwrite, table_type / create_temp_table (only with
# auto_create_table), on_error, compression.  Not demanded of the result: the number of chunks reported.
WP_OPTS_N = 5
WP_CHUNKS = [("none", None), ("1", 1), ("2", 2), ("n-1", WP_OPTS_N - 1), ("n", WP_OPTS_N), ("n+1", WP_OPTS_N + 1)]
WP_INDEXES = ["default", "shifted", "reversed", "labels", "duplicates"]
WP_PARALLEL = [4, 1]
WP_QUOTE = [True, False]
# quick tier: the whole option product, for one type per synonym group
WP_OPTS_QUICK_TYPES = ("BOOLEAN", "NUMBER", "INT", "NUMBER(10,2)", "FLOAT", "VARCHAR", "DATE", "TIME", "TIMESTAMP_NTZ",
                       "TIMESTAMP_TZ", "BINARY", "VARIANT", "OBJECT", "ARRAY")


def df_index(kind, n):
    """Index labels of the DataFrame (None = pandas' default RangeIndex)."""
    if kind == "default":
        return None
    if kind == "shifted":
        return list(range(100, 100 + n))
    if kind == "reversed":
        return list(range(n - 1, -1, -1))
    if kind == "labels":
        return [f"r{i}" for i in range(n)]
    if kind == "duplicates":
        return [i // 2 for i in range(n)]
    raise AssertionError(kind)


def opts_values(ts):
    """The 4 values of a wp_opts DataFrame: the first values of the type's alphabet that write_pandas is asked to
    store at all and that sit on no 64-bit boundary (those have their own cells); one document repeated for JSON
    (dicts of different keys in one DataFrame column are merged by the parquet struct: not demanded)."""
    if ts["family"] == "json":
        v = [v for k, v in values_for(ts) if allowed(ts, "wp", k, v)][-1]
        return [v] * (WP_OPTS_N - 1)
    vals = [v for k, v in values_for(ts) if allowed(ts, "wp", k, v) and vclass(ts, k, v) in ("any", "within_int64", "empty", "nonempty")]
    return [vals[i % len(vals)] for i in range(WP_OPTS_N - 1)]


def opts_cells(ts):
    vals = opts_values(ts)
    out = []
    k = 0
    for cl, chunk in WP_CHUNKS:
        for ix in WP_INDEXES:
            for par in WP_PARALLEL:
                for q in WP_QUOTE:
                    base = 10 * k + 1
                    column = vals[:2] + [None] + vals[2:]
                    out.append({
                        "k": k, "shape": f"chunk={cl};index={ix};parallel={par};quote={q}", "null": "middle",
                        "rows": [(base + i, v) for i, v in enumerate(column)],
                        "opts": {"chunk": cl, "chunk_size": chunk, "index": ix, "parallel": par, "quote_identifiers": q},
                    })
                    k += 1
    return out


def type_applies(ts, path):
    if path == "wp_auto":
        return ts["sql"] in AUTO_TYPES
    if path == "qmark" and ts["family"] == "tz":
        return False
    if path == "lit_bs":
        # only types whose alphabet has a value with a quote in its constant (text types, VARIANT)
        return ts["family"] in ("text", "json") and any("'" in v for _, v in values_for(ts))
    return True


# --------------------------------------------------------------------------------------------------------------
# cells


def cells(ts, path, tier):
    """All cells of one (type, path) batch: every allowed value x every NULL placement, + the all-NULL cell.
    A cell is written by ONE statement / ONE write_pandas call; rows are (id, value-or-None)."""
    if path == "wp_opts":
        return opts_cells(ts)
    vals = values_for(ts)
    placements = PLACEMENTS
    if tier == "quick":
        keep = QUICK_SHAPES[ts["family"]]
        vals = [(k, v) for k, v in vals if k in keep or (k.startswith("pair:") and ts["sql"] in PAIR_TYPES_QUICK)]
        placements = QUICK_PLACEMENTS
    out = []
    k = 0
    ident_shape, ident = identity(ts)
    for shape, v in vals:
        if not allowed(ts, path, shape, v):
            continue
        for pl in placements:
            if is_pair_shape(shape) and pl not in ("none", "middle"):
                continue  # alone, and twice in one statement around a NULL (a mis-lexed quote spills into the next row)
            base = 10 * k + 1
            if pl == "after_identity":
                if shape == ident_shape:
                    continue
                if ts["family"] == "json" and path in WP_PATHS:
                    continue  # {} next to {"a":..} in one DataFrame column: the parquet struct merges the keys, not demanded
                rows = [(base, ident), (base + 1, v)]
            elif pl == "none":
                rows = [(base, v)]
            elif pl == "first":
                rows = [(base, None), (base + 1, v)]
            elif pl == "last":
                rows = [(base, v), (base + 1, None)]
            else:
                rows = [(base, v), (base + 1, None), (base + 2, v)]
            out.append({"k": k, "shape": shape, "null": pl, "rows": rows})
            k += 1
    if path not in ("wp_auto", "lit_bs"):  # the column type of an all-NULL DataFrame column is not defined
        base = 10 * k + 1
        out.append({"k": k, "shape": "null", "null": "all", "rows": [(base, None), (base + 1, None)]})
    return out


# --------------------------------------------------------------------------------------------------------------
# rendering values as SQL text (Snowflake syntax)


def sql_string(s: str, bs: bool = False) -> str:
    """Single-quoted Snowflake string constant: backslash escaped (escape sequences are processed in single-quoted
    constants), a quote doubled ('') or - bs - backslash-escaped (\\'), everything else verbatim (including a raw
    newline)."""
    return "'" + s.replace("\\", "\\\\").replace("'", "\\'" if bs else "''") + "'"


def iso_time(t: dt.time) -> str:
    return f"{t.hour:02d}:{t.minute:02d}:{t.second:02d}.{t.microsecond:06d}"


def iso_ts(v: dt.datetime) -> str:
    return f"{v.year:04d}-{v.month:02d}-{v.day:02d} {iso_time(v.time())}"


def sql_literal(ts, v, bs: bool = False) -> str:
    """SQL constant expression for value v of type ts (None -> NULL); bs = spell a quote inside a string as \\'."""
    if v is None:
        return "NULL"
    f = ts["family"]
    if f == "bool":
        return "TRUE" if v else "FALSE"
    if f == "fixed0":
        return str(int(v))
    if f == "fixedS":
        return format(v, "f")
    if f == "float":
        return repr(float(v))
    if f == "text":
        return sql_string(v, bs)
    if f == "date":
        return f"'{v.year:04d}-{v.month:02d}-{v.day:02d}'"
    if f == "time":
        return f"'{iso_time(v)}'"
    if f == "ntz":
        return f"'{iso_ts(v)}'"
    if f == "tz":
        assert v.utcoffset() == dt.timedelta(0)
        return f"'{iso_ts(v)}+00:00'"
    if f == "binary":
        return f"TO_BINARY('{v.hex().upper()}', 'HEX')"
    if f == "json":
        return json_expr(ts, sql_string(v, bs))
    raise AssertionError(f)


def json_expr(ts, inner: str) -> str:
    e = f"PARSE_JSON({inner})"
    if ts["json_kind"] == "object":
        e += "::OBJECT"  # a VARIANT expression is not accepted for an OBJECT column without the cast
    elif ts["json_kind"] == "array":
        e += "::ARRAY"
    return e


def bind_value(ts, v):
    """The Python object bound for the value (pyformat and qmark).  JSON documents are bound as JSON text and
    parsed by PARSE_JSON in the statement."""
    return v


def uses_select_form(ts, style) -> bool:
    # function calls producing VARIANT are not allowed in a VALUES clause; TO_BINARY is written the same way
    return ts["family"] == "json" or (ts["family"] == "binary" and style in LIT_PATHS)


def build_insert(ts, table, rows, style):
    """One INSERT statement writing rows [(id, value|None)] into table(ID, V).  Returns (sql, params|None)."""
    ph = {"pyformat": "%s", "qmark": "?"}.get(style)
    params = []

    def idx(i):
        if style in LIT_PATHS:
            return str(i)
        params.append(i)
        return ph

    def val(v):
        if style in LIT_PATHS:
            return sql_literal(ts, v, bs=(style == "lit_bs"))
        params.append(bind_value(ts, v))
        if ts["family"] == "json" and v is not None:
            return json_expr(ts, ph)
        return ph

    if uses_select_form(ts, style):
        body = " UNION ALL ".join(f"SELECT {idx(i)}, {val(v)}" for i, v in rows)
    else:
        body = "VALUES " + ", ".join(f"({idx(i)}, {val(v)})" for i, v in rows)
    sql = f"INSERT INTO {table} (ID, V) {body}"
    return sql, (tuple(params) if style not in LIT_PATHS else None)


# --------------------------------------------------------------------------------------------------------------
# rendering values as a pandas column (write_pandas)


def df_dtype_label(ts, values) -> str:
    """Label of the DataFrame representation (used for the wp_auto class keys)."""
    f = ts["family"]
    has_null = any(v is None for v in values)
    if f == "bool":
        return "object[bool]" if has_null else "bool"
    if f == "fixed0":
        if any(v is not None and not (-(2**63) <= v <= I64_MAX) for v in values):
            return "object[Decimal]"
        return "Int64" if has_null else "int64"
    if f == "float":
        return "float64"
    if f == "ntz":
        return "datetime64[ns]"
    if f == "tz":
        return "datetime64[ns, UTC]"
    return {"fixedS": "object[Decimal]", "text": "object[str]", "date": "object[date]", "time": "object[time]",
            "binary": "object[bytes]", "json": "object[dict|list]"}[f]


def df_column(ts, values):
    """The pandas Series a user holds these values in, None = missing."""
    import numpy as np
    import pandas as pd

    f = ts["family"]
    lab = df_dtype_label(ts, values)
    if lab == "bool":
        return pd.Series(np.array(values, dtype=bool))
    if lab == "int64":
        return pd.Series(np.array(values, dtype="int64"))
    if lab == "Int64":
        return pd.Series(pd.array(values, dtype="Int64"))
    if lab == "float64":
        return pd.Series(np.array([float("nan") if v is None else v for v in values], dtype="float64"))
    if lab == "datetime64[ns]":
        return pd.Series([pd.NaT if v is None else pd.Timestamp(v) for v in values], dtype="datetime64[ns]")
    if lab == "datetime64[ns, UTC]":
        return pd.Series([pd.NaT if v is None else pd.Timestamp(v) for v in values], dtype="datetime64[ns, UTC]")
    if f == "fixed0":
        return pd.Series([None if v is None else D(v) for v in values], dtype="object")
    if f == "json":
        return pd.Series([None if v is None else json.loads(v) for v in values], dtype="object")
    return pd.Series(list(values), dtype="object")


# --------------------------------------------------------------------------------------------------------------
# expectations


def expected_pytype(ts) -> str:
    return {
        "bool": "bool",
        "fixed0": "int",
        "fixedS": "decimal.Decimal",
        "float": "float",
        "text": "str",
        "date": "datetime.date",
        "time": "datetime.time",
        "ntz": "datetime.datetime (naive)",
        "tz": "datetime.datetime (aware, UTC offset 0)",
        "binary": "bytes or bytearray",
        "json": "str (JSON text)",
    }[ts["family"]]


def _json_eq(a, b) -> bool:
    """JSON document equality: key order irrelevant, true/false/null are not numbers, 1 == 1.0."""
    if isinstance(a, bool) or isinstance(b, bool) or a is None or b is None:
        return type(a) is type(b) and a == b
    if isinstance(a, (int, float)) and isinstance(b, (int, float)):
        return a == b
    if isinstance(a, str) and isinstance(b, str):
        return a == b
    if isinstance(a, list) and isinstance(b, list):
        return len(a) == len(b) and all(_json_eq(x, y) for x, y in zip(a, b))
    if isinstance(a, dict) and isinstance(b, dict):
        return a.keys() == b.keys() and all(_json_eq(a[k], b[k]) for k in a)
    return False


def float_bits(x: float) -> bytes:
    return struct.pack(">d", x)


def _is_num(x) -> bool:
    return isinstance(x, (int, float, D)) and not isinstance(x, bool)


def _exact(x):
    """Exact Decimal of a Python number (None for NaN / infinity)."""
    if isinstance(x, float):
        return D(x) if x == x and abs(x) != float("inf") else None
    if isinstance(x, D):
        return x if x.is_finite() else None
    return D(x)


def check_value(ts, exp, got) -> set:
    """Compare one read-back cell with the value written.  Returns the failed sub-clauses:
      'null'    NULL <-> None broken (either direction)
      'pytype'  got is not of the Python type the connector uses for the column family
      'value'   got is not the equal value.  Judged whenever got is *comparable* with the written value (same kind of
                thing, e.g. a Decimal for an int, an aware datetime for a naive one); when got is of an unrelated type
                (a str for a date) only 'pytype' is reported - there is no second, independent fact to report."""
    if exp is None:
        return set() if got is None else {"null"}
    if got is None:
        return {"null"}
    f = ts["family"]
    if f == "bool":
        typed = type(got) is bool
        comparable = isinstance(got, bool)
        equal = comparable and got == exp
    elif f == "fixed0":
        typed = type(got) is int
        comparable = _is_num(got)
        equal = comparable and _exact(got) is not None and _exact(got) == exp
    elif f == "fixedS":
        typed = type(got) is D
        comparable = _is_num(got)
        equal = comparable and _exact(got) is not None and _exact(got) == exp
        if equal and isinstance(got, D):
            equal = -got.as_tuple().exponent <= ts["s"]  # never more fractional digits than the declared scale
    elif f == "float":
        typed = type(got) is float
        comparable = isinstance(got, float)
        equal = comparable and float_bits(got) == float_bits(exp)
    elif f == "text":
        typed = type(got) is str
        comparable = isinstance(got, str)
        equal = comparable and got == exp
    elif f == "date":
        typed = type(got) is dt.date
        comparable = isinstance(got, dt.date)
        equal = (
            comparable
            and (got.year, got.month, got.day) == (exp.year, exp.month, exp.day)
            and (not isinstance(got, dt.datetime) or got.time() == dt.time(0))
        )
    elif f == "time":
        typed = type(got) is dt.time and got.tzinfo is None
        comparable = isinstance(got, dt.time)
        equal = comparable and got.replace(tzinfo=None) == exp
    elif f == "ntz":
        typed = type(got) is dt.datetime and got.tzinfo is None
        comparable = isinstance(got, dt.datetime)
        equal = comparable and got.replace(tzinfo=None) == exp  # wall clock, microsecond exact
    elif f == "tz":
        typed = type(got) is dt.datetime and got.tzinfo is not None and got.utcoffset() == dt.timedelta(0)
        comparable = isinstance(got, dt.datetime)
        if not comparable:
            equal = False
        elif got.tzinfo is None:
            equal = got == exp.replace(tzinfo=None)
        else:
            equal = got == exp  # same instant, microsecond exact
    elif f == "binary":
        typed = isinstance(got, (bytes, bytearray))
        comparable = typed
        equal = comparable and bytes(got) == exp
    elif f == "json":
        typed = type(got) is str
        comparable = isinstance(got, str)
        equal = False
        if comparable:
            try:
                equal = _json_eq(json.loads(got), json.loads(exp))
            except ValueError:
                equal = False
    else:
        raise AssertionError(f)
    bad = set()
    if not typed:
        bad.add("pytype")
    if comparable and not equal:
        bad.add("value")
    assert typed or comparable or "pytype" in bad
    return bad


def same_value(ts, exp, got) -> bool:
    """NULL-ness and value agree (the Python type is not judged): precondition for copies of a stored value."""
    return not (check_value(ts, exp, got) & {"null", "value"})


# --------------------------------------------------------------------------------------------------------------
# input-shape features used in class keys (static tables: a function of the input only)

TGROUP = {
    "bool": "boolean", "fixedS": "number_ps", "float": "float", "text": "text", "date": "date", "time": "time",
    "ntz": "timestamp_ntz", "tz": "timestamp_tz", "binary": "binary",
}
INT_SYNONYMS = ("INT", "INTEGER", "BIGINT", "SMALLINT", "TINYINT", "BYTEINT")


def tgroup(ts) -> str:
    """Documented synonym group of the declared type."""
    f = ts["family"]
    if f == "fixed0":
        return "int_synonyms" if ts["sql"] in INT_SYNONYMS else "number_p0"
    if f == "json":
        return ts["sql"].lower()
    return TGROUP[f]


def vclass(ts, shape, value, others=()) -> str:
    """Value class of a cell: what kind of boundary the written value (named by shape) sits on; others = the other
    non-NULL values written by the same statement (the identity value of an after_identity cell)."""
    if shape == "null":
        return "null_only"
    f = ts["family"]
    if f == "fixed0":
        return "within_int64" if -(2**63) <= value <= I64_MAX else shape
    if f == "json":
        return "json_null" if shape == "json_null" else "json_" + JSON_KIND[shape]
    if f == "binary":
        return "empty" if value == b"" or b"" in others else "nonempty"
    return "any"


def check_wp_result(ret, n) -> bool:
    """write_pandas returns (success, nchunks, nrows, output); output rows are COPY INTO results
    (file, status, rows_parsed, rows_loaded, error_limit, errors_seen, ...).  Demanded: success, nrows = rows
    written, one output row per chunk, parsed = loaded = rows written in total, no errors seen."""
    try:
        ok, nchunks, nrows, out = ret
        out = list(out)
        return (
            ok is True
            and type(nrows) is int
            and nrows == n
            and nchunks == len(out)
            and sum(r[2] for r in out) == n
            and sum(r[3] for r in out) == n
            and all(r[1] == "LOADED" and r[5] == 0 for r in out)
        )
    except Exception:  # noqa: BLE001
        return False
