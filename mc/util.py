"""Small helpers shared by the checks: fresh instances, normalised outcomes of a statement."""
from __future__ import annotations

import contextlib
import os
import shutil
import tempfile

WORK = os.path.join(os.path.dirname(os.path.dirname(os.path.abspath(__file__))), ".work")


@contextlib.contextmanager
def fresh(database="db1", schema="s1", connect=True, **opts):
    """A fresh in-memory FakeSnow instance (+ one connection unless connect=False); closed afterwards."""
    import fakesnow.instance as inst

    fs = inst.FakeSnow(**opts)
    try:
        if connect:
            yield fs, fs.connect(database=database, schema=schema)
        else:
            yield fs, None
    finally:
        with contextlib.suppress(Exception):
            fs.duck_conn.close()


@contextlib.contextmanager
def scratch_dir(prefix="w"):
    os.makedirs(WORK, exist_ok=True)
    d = tempfile.mkdtemp(prefix=f"{prefix}-{os.getpid()}-", dir=WORK)
    try:
        yield d
    finally:
        shutil.rmtree(d, ignore_errors=True)


def exc_info(e: BaseException):
    """(kind, class path, errno, sqlstate, first line of message)"""
    mod = type(e).__module__
    return (
        "err",
        f"{mod}.{type(e).__name__}",
        getattr(e, "errno", None),
        getattr(e, "sqlstate", None),
        (getattr(e, "msg", None) or str(e)).split("\n")[0][:160],
    )


def run_stmt(cur, sql, params=None, fetch=True, desc=False):
    """Execute one statement on a fakesnow cursor; returns
    ('ok', rows|None, rowcount[, description names]) or ('err', class, errno, sqlstate, msg)."""
    try:
        if params is None:
            cur.execute(sql)
        else:
            cur.execute(sql, params)
        rows = cur.fetchall() if fetch else None
        out = ("ok", rows, cur.rowcount)
        if desc:
            out = out + (tuple((c.name, c.type_code, c.precision, c.scale) for c in cur.description),)
        return out
    except Exception as e:  # noqa: BLE001
        return exc_info(e)


def is_sf_programming_error(o) -> bool:
    return o[0] == "err" and o[1] == "snowflake.connector.errors.ProgrammingError"
