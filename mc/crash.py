"""E4 — crash-point enumeration. This module is both a library (observe_dir, run_child) and the child program:

    /venv/bin/python -m mc.crash '<json>'

The child runs a statement history against fakesnow.patch(db_path=...) in a *fresh interpreter*, with the seam proxy
armed to SIGKILL the process before engine call k of the last statement (or of connect, for the empty history), or
terminates in one of the other exit modes. Observation after reopening happens in the (long-lived) caller.
"""
from __future__ import annotations

import json
import os
import signal
import subprocess
import sys

ROOT = os.path.dirname(os.path.dirname(os.path.abspath(__file__)))


def norm_catalog(cat: dict):
    """JSON-able, order-independent form of observe.catalog() output"""
    return {
        "dbs": sorted(cat["dbs"]),
        "schemas": sorted(map(list, cat["schemas"])),
        "tables": sorted([list(t) for t in cat["tables"]]),
        "views": sorted([list(t) for t in cat.get("views", ())]),
        "data": sorted([[k, list(v)] for k, v in cat["data"]]),
    }


def observe_dir(dbdir: str):
    """Open the directory with a new patch(), connect like the original session, return (observation, problems)."""
    import fakesnow
    import snowflake.connector

    from mc import observe

    problems = []
    obs = None
    try:
        with fakesnow.patch(db_path=dbdir):
            conn = snowflake.connector.connect(database="db1", schema="s1")
            fs = snowflake.connector.connect.side_effect.__self__
            if os.path.exists(os.path.join(dbdir, "DB2.db")):
                snowflake.connector.connect(database="db2")
            obs = norm_catalog(observe.catalog(fs, views=True, data=True))
            # the reopened session must be usable, and must report the metadata through fakesnow
            cur = conn.cursor()
            cur.execute("select table_name, comment from information_schema.tables where table_schema = 'S1' and table_name not like '_fs_%' order by table_name")
            rep_tables = cur.fetchall()
            cur.execute(
                "select table_name, column_name, character_maximum_length from information_schema.columns "
                "where table_schema = 'S1' order by table_name, ordinal_position"
            )
            rep_cols = cur.fetchall()
            obs["reported"] = {"tables": [list(r) for r in rep_tables], "columns": [list(r) for r in rep_cols]}
            cur.execute("create table if not exists zz_probe (p int)")
            cur.execute("insert into zz_probe values (1)")
            cur.execute("select count(*) from zz_probe")
            if cur.fetchall() != [(1,)]:
                problems.append("probe table not usable")
            cur.execute("drop table zz_probe")
    except Exception as e:  # noqa: BLE001
        problems.append(f"reopen failed: {type(e).__name__}: {str(e)[:200]}")
    return obs, problems


def run_child(spec: dict, timeout=120):
    """-> (returncode, parsed stdout json or None, stderr tail)"""
    env = dict(os.environ, PYTHONHASHSEED="0", TZ="UTC", PYTHONPATH=os.pathsep.join([ROOT] + ([os.environ["PYTHONPATH"]] if os.environ.get("PYTHONPATH") else [])))
    p = subprocess.run([sys.executable, "-m", "mc.crash", json.dumps(spec)], capture_output=True, text=True, timeout=timeout, env=env, cwd=spec.get("cwd") or ROOT)
    out = None
    if os.path.exists(spec["out"]):
        with open(spec["out"]) as f:
            try:
                out = json.load(f)
            except Exception:  # noqa: BLE001
                out = None
    return p.returncode, out, p.stderr[-600:]


# ---- child ---------------------------------------------------------------------------------------------------------------
def child_main(spec):
    sys.path.insert(0, ROOT)
    from mc import observe, seam

    hub = seam.install()
    state = {"armed": False, "n": 0, "log": []}
    kill_at = spec.get("kill_at")  # 1-based index among the armed engine calls

    def before(kind, sql):
        if not state["armed"]:
            return
        state["n"] += 1
        state["log"].append((kind, (sql or "").strip().split("\n")[0][:60]))
        if kill_at is not None and state["n"] == kill_at:
            os.kill(os.getpid(), signal.SIGKILL)

    hub.before = before
    import fakesnow
    import snowflake.connector

    history = spec["history"]
    mode = spec.get("exit", "clean")
    result = {"calls_last": None, "pre_exit": None, "errors": []}

    def write():
        with open(spec["out"], "w") as f:
            json.dump(result, f)

    patch_kwargs = {"db_path": spec["dir"]} if spec.get("dir") else {}
    # non-default connect options: what connect() then does not create itself the session creates in the prologue
    patch_kwargs.update(spec.get("patch_opts") or {})
    if not history:
        state["armed"] = True  # crash points inside the very first connect
    with fakesnow.patch(**patch_kwargs):
        conn = snowflake.connector.connect(database="db1", schema="s1")
        if not history:
            state["armed"] = False
            result["calls_last"] = state["n"]
            result["log"] = state["log"]
        cur = conn.cursor()
        for s in spec.get("prologue") or []:
            cur.execute(s)
        for i, s in enumerate(history):
            last = i == len(history) - 1
            if last:
                state["armed"] = True
            try:
                if s == "WITH:ok":
                    with conn:  # a `with connection:` block left normally: not one of the ways to end a transaction
                        pass
                elif s == "WITH:exc":
                    try:
                        with conn:
                            raise KeyError("raised inside the with block")
                    except KeyError:
                        pass
                elif s.startswith("CALL:"):
                    getattr(conn, s[5:])()  # conn.commit() / conn.rollback(): not through the session's cursor
                elif s.startswith("EM:"):
                    sql_, rows_ = s[3:].split("|", 1)
                    cur.executemany(sql_, [tuple(r) for r in json.loads(rows_)])
                else:
                    cur.execute(s)
            except Exception as e:  # noqa: BLE001
                result["errors"].append([i, type(e).__name__, str(e)[:120]])
            if last:
                state["armed"] = False
                result["calls_last"] = state["n"]
                result["log"] = state["log"]
        if mode == "kill_after":
            os.kill(os.getpid(), signal.SIGKILL)
        # what is committed right now, seen by an independent raw connection (never sees the session's pending work)
        fs = snowflake.connector.connect.side_effect.__self__
        result["pre_exit"] = crash_norm(observe.catalog(fs, views=True, data=True))
        # what the session itself sees (its own connection: includes work it has not committed)
        # the session's engine connection, found by type rather than by the name of a private attribute
        own = next((v for v in vars(conn).values() if isinstance(v, seam.Proxy)), None)
        if own is None:
            raise RuntimeError("harness: the session object holds no engine connection created through the seam")
        own = own._r  # noqa: SLF001
        result["own_view"] = crash_norm(observe.catalog(fs, views=True, data=True, cur=own))
        write()
        if mode == "exception":
            raise RuntimeError("exception in the body")
        if mode == "sysexit":
            sys.exit(3)
        if mode == "os_exit":
            os._exit(0)
    return 0


def crash_norm(cat):
    return norm_catalog(cat)


if __name__ == "__main__":
    try:
        sys.exit(child_main(json.loads(sys.argv[1])))
    except RuntimeError as e:
        if "exception in the body" in str(e):
            sys.exit(7)
        raise
