# prototype: preemption-bounded schedule explorer over real threads; scheduling point = DuckDB execute()/cursor()
import threading, time, duckdb, sys
import fakesnow.instance as inst
real_connect = duckdb.connect
class Sched:
    def __init__(self, prefix): self.prefix = prefix; self.choices = []; self.points = []; self.sems = {}; self.state = {}; self.cur = None; self.lock = threading.Lock(); self.done = threading.Event(); self.active=False
    def point(self, tid, what):
        if not self.active: return
        # called by running thread before an engine call: decide who runs next
        self.state[tid] = ('ready', what)
        self._dispatch(tid)
    def _enabled(self): return sorted(t for t, s in self.state.items() if s[0] == 'ready')
    def _dispatch(self, me):
        en = self._enabled()
        if not en:
            self.done.set(); return
        # canonical order: current first if enabled
        order = ([me] if me in en else []) + [t for t in en if t != me]
        i = len(self.choices)
        c = self.prefix[i] if i < len(self.prefix) else 0
        assert c < len(order), 'replay divergence'
        self.points.append((me in en, len(order), [self.state[t][1] for t in order])); self.choices.append(c)
        nxt = order[c]
        self.state[nxt] = ('running', None)
        if nxt != me:
            self.sems[nxt].release()
            if me is not None and me in self.state and self.state[me][0] == 'ready': self.sems[me].acquire()
    def finish(self, tid):
        del self.state[tid]; self._dispatch(None) if False else self._dispatch_finish(tid)
    def _dispatch_finish(self, tid):
        en = self._enabled()
        if not en: self.done.set(); return
        i = len(self.choices); c = self.prefix[i] if i < len(self.prefix) else 0
        self.points.append((False, len(en), [self.state[t][1] for t in en])); self.choices.append(c)
        nxt = en[c]; self.state[nxt] = ('running', None); self.sems[nxt].release()
CUR = threading.local(); S = None
class Proxy:
    def __init__(self, real): self._r = real
    def execute(self, sql, params=None):
        tid = getattr(CUR, 'tid', None)
        if tid is not None: S.point(tid, sql.strip().split('\n')[0][:40])
        self._r.execute(sql, params) if params is not None else self._r.execute(sql); return self
    def cursor(self): return Proxy(self._r.cursor())
    def __getattr__(self, k): return getattr(self._r, k)
inst.duckdb.connect = lambda *a, **k: Proxy(real_connect(*a, **k))
def run(prefix, bodies):
    global S
    S = Sched(prefix); fs = inst.FakeSnow(); results = {}
    def w(tid, body):
        CUR.tid = tid; S.sems[tid].acquire()
        try: results[tid] = ('ok', body(fs))
        except Exception as e: results[tid] = ('exc', type(e).__name__, str(e).split('\n')[0][:80])
        S.finish(tid)
    ths = []
    for tid, b in enumerate(bodies):
        S.sems[tid] = threading.Semaphore(0); S.state[tid] = ('ready', 'start'); ths.append(threading.Thread(target=w, args=(tid, b)))
    [t.start() for t in ths]; S.active = True
    # kick: choose first
    S._dispatch_finish(None) if False else None
    en = S._enabled(); c = prefix[0] if prefix else 0; S.points.append((False, len(en), ['start']*len(en))); S.choices.append(c); S.state[en[c]] = ('running', None); S.sems[en[c]].release()
    S.done.wait(10); [t.join(5) for t in ths]; fs.duck_conn.close()
    return S.choices, S.points, results
def explore(bodies, bound):
    n = 0; outcomes = {}
    stack = [[]]
    while stack:
        prefix = stack.pop(); choices, points, results = run(prefix, bodies); n += 1
        key = tuple(sorted((k, v[0], v[1] if v[0]=='exc' else '') for k, v in results.items())); outcomes.setdefault(key, list(choices))
        # count preemptions along the path
        pre = 0
        for i, (cur_enabled, nopt, _) in enumerate(points):
            if i >= len(prefix):
                for alt in range(1, nopt):
                    cost = pre + (1 if cur_enabled else 0)
                    if cost <= bound: stack.append(choices[:i] + [alt])
            if cur_enabled and choices[i] != 0: pre += 1
    return n, outcomes
b = lambda fs: (fs.connect(database='db1', schema='s1'), None)[1]
for bound in (0, 1, 2):
    t0 = time.time(); n, out = explore([b, b], bound); print('bound', bound, 'executions', n, 'time', round(time.time()-t0,2))
    for k, v in out.items(): print('   ', k, 'first schedule', v)
