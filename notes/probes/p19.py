import fakesnow, snowflake.connector
from snowflake.connector.cursor import DictCursor
def t(label, f):
    try:
        r = f(); print(label, '=>', repr(r)[:500])
    except Exception as e:
        print(label, 'EXC', type(e).__module__+'.'+type(e).__name__, getattr(e,'errno',None), getattr(e,'sqlstate',None), str(e)[:200].replace('\n',' | '))
with fakesnow.patch():
    c1 = snowflake.connector.connect(database='db1', schema='s1')
    a = c1.cursor(); d = c1.cursor(DictCursor)
    a.execute("create table t (a int, b varchar)"); a.execute("insert into t values (1,'x'),(2,'y'),(3,'z')")
    dd = lambda c: [(m.name, m.type_code, m.precision, m.scale) for m in c]
    t('describe select', lambda: dd(a.describe("select a, b from t")))
    t('describe insert', lambda: dd(a.describe("insert into t values (9,'q')")))
    t('rows after describe insert', lambda: a.execute("select count(*) from t").fetchall())
    t('describe create', lambda: dd(a.describe("create table zz (a int)")))
    t('zz exists?', lambda: a.execute("select * from zz").fetchall())
    t('describe w/ params', lambda: dd(a.describe("select %s as x", (1,))))
    t('describe update', lambda: dd(a.describe("update t set b='k'")))
    t('describe use', lambda: dd(a.describe("use schema s1")))
    t('describe show', lambda: dd(a.describe("show tables")))
    t('describe describe', lambda: dd(a.describe("describe table t")))
    # description mid-fetch
    a.execute("select a from t order by a"); r1 = a.fetchone(); de = a.description; rest = a.fetchall()
    print('mid-fetch', r1, dd(de), rest)
    # description after select with params pyformat
    a.execute("select %s as x, %s as y", (1, 'a')); print('params desc', dd(a.description), a.fetchall())
    # dict cursor
    d.execute("select a, b as \"lower\", a as a2 from t order by a"); print(d.fetchmany(2), dd(d.description))
    d.execute("select a, a from t"); t('dict dup', lambda: d.fetchall())
    # arraysize
    a.execute("select a from t order by a"); a.arraysize = 2; print('arraysize 2', a.fetchmany(), a.fetchmany(), a.fetchmany())
    a.execute("select a from t order by a"); print('fetchmany(0)', a.fetchmany(0))
    a.execute("select a from t order by a"); t('fetchmany(-1)', lambda: a.fetchmany(-1))
    a.execute("select a from t order by a"); print('fetch_pandas_all after fetchone', a.fetchone(), a.fetch_pandas_all().to_dict('list'), a.fetchone())
    t('pandas before exec', lambda: c1.cursor().fetch_pandas_all())
    t('rowcount before exec', lambda: c1.cursor().rowcount)
    a.execute("select a from t where a > 100"); print('empty', a.fetchone(), a.fetchall(), a.rowcount, dd(a.description))
    # new execute replaces
    a.execute("select a from t order by a"); a.fetchone(); a.execute("select b from t order by b"); print('replaced', a.fetchall())
    # failed execute: what happens to pending result
    a.execute("select a from t order by a"); a.fetchone()
    try: a.execute("select * from nope")
    except Exception: pass
    t('after failed exec fetch', lambda: a.fetchall()); t('after failed exec desc', lambda: dd(a.description)); t('sqlstate', lambda: a.sqlstate)
    # types in description
    for e in ["1", "1.5", "1.5::float", "'a'", "true", "current_date", "current_timestamp", "'00:00:01'::time", "'2020-01-01'::timestamp_ntz", "'2020-01-01'::timestamp_tz", "to_binary('aa','hex')", "parse_json('1')", "[1]", "object_construct('a',1)", "null", "1::number(5,0)", "1::number(38,10)", "count(*)", "sum(a)", "avg(a)", "a/2", "a*1.5", "a||'x'", "a::varchar(5)", "1::int", "1::bigint", "1::smallint", "uuid_string()", "hash(1)", "sum(a) over ()", "row_number() over (order by a)", "1 = 1", "length(b)", "a % 2", "round(a/3, 2)", "datediff(day, current_date, current_date)", "-a", "2147483648", "99999999999999999999"]:
        t(f'type {e}', lambda: (a.execute(f"select {e} from t limit 1").fetchall(), dd(a.description)))
