import fakesnow, snowflake.connector, snowflake.connector.pandas_tools as pt, sys, itertools
import fakesnow.cli as cli
orig = (snowflake.connector.connect, pt.write_pandas)
def state(): return (snowflake.connector.connect is orig[0], pt.write_pandas is orig[1])
def t(label, f):
    try:
        r = f(); print(label, '=>', repr(r)[:300], 'restored', state())
    except BaseException as e:
        print(label, 'EXC', type(e).__name__, str(e)[:150].replace('\n',' | '), 'restored', state())
def body_ok():
    with fakesnow.patch(): return state()
def body_exc():
    with fakesnow.patch(): raise RuntimeError('boom')
def bad_target(tg):
    def f():
        with fakesnow.patch(tg): return 'entered'
    return f
t('ok', body_ok); t('exc', body_exc)
for tg in ['nonexistent_mod.connect', 'os.path.nope', 'os.path.join', 'snowflake.connector.nope', 'tests.patch_other.connect', ['os.getcwd'], 'json.dumps', 'connect', '']:
    t(f'target {tg}', bad_target(tg)); 
    if not all(state()):
        print('   !!! LEAKED; resetting'); snowflake.connector.connect, pt.write_pandas = orig
t('reenter after failures', body_ok)
def nested():
    with fakesnow.patch():
        try:
            with fakesnow.patch(): pass
        except AssertionError as e: r = 'refused'
        inner_state = state()
        c = snowflake.connector.connect(); c.cursor().execute("select 1")
        return r, inner_state
t('nested', nested)
# instance closed on exit?
def closed():
    with fakesnow.patch():
        c = snowflake.connector.connect(database='d', schema='s')
    try: c.cursor().execute("select 1"); return 'still open'
    except Exception as e: return type(e).__name__, getattr(e,'errno',None)
t('closed after exit', closed)
# cli split
def targv(args):
    fs, ta = cli.split(args); return fs, ta
for args in [[], ['-m'], ['-d'], ['-d','x'], ['-d','x','s.py'], ['-d','x','s.py','-d','y'], ['--db_path=x','s.py','a'], ['--db_path','x','-m','mod','-m','z'], ['-dx','s.py','a'], ['-m','mod'], ['--module=mod','a','b'], ['--module','mod','--','x'],
             ['s.py','-m','x'], ['s.py','-d','q'], ['-h'], ['--','s.py','a'], ['-d','x','--','s.py'], ['s.py'], ['-mmod','a'], ['-d','-m','mod'], ['s.py','--help']]:
    t(f'split {args}', lambda: targv(args))
