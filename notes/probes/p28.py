import warnings, logging; logging.disable(logging.WARNING)
from fakesnow.instance import FakeSnow
from snowflake.connector.cursor import DictCursor
PRE = ["create table t (k int, v varchar)", "insert into t values (1,'a'),(2,'b')", "create table s (k int, v varchar)", "insert into s values (1,'A'),(3,'C')"]
def run(mode, text, stmts):
    fs = FakeSnow(); c = fs.connect(database='db1', schema='s1'); cur = c.cursor()
    for p in PRE: cur.execute(p)
    out = []
    try:
        if mode == 'es':
            for cc in c.execute_string(text): out.append((cc.fetchall(), cc.rowcount))
        else:
            for s in stmts:
                cc = c.cursor().execute(s); out.append((cc.fetchall(), cc.rowcount))
    except Exception as e: out.append(('EXC', type(e).__name__, getattr(e, 'errno', None), str(e)[:80]))
    o = fs.duck_conn.cursor(); dig = [o.execute(f'select * from DB1.S1."{r[0]}" order by all').fetchall() for r in o.execute("select table_name from duckdb_tables() where database_name='DB1' and schema_name='S1' order by 1").fetchall()]
    return out, dig, (c.database, c.schema, dict(c.variables._variables))
CASES = [
 ["select 'a;b'", "select 2"], ["select 'it''s'"], ["select 'back\\\\slash'"], ["select 'x -- y'"], ["select 'p /* q */ r'"], ["select $$d;d 'q' $$"], ["select 'new\nline'"], ["select '❄'"], ["select 'tab\\t'"], ["select '\\''"],
 ["select 1 -- trailing"], ["/* lead */ select 1"], ["select /* mid */ 1"], ["select 1 /* ; */", "select 2"],
 ["insert into t values (3, 'c')", "select count(*) from t"], ["update t set v = 'z' where k = 1"], ["delete from t"], ["create table u (a int, b varchar(3)) comment = 'c'"], ["create or replace table t (z int)"], ["drop table s"], ["create view vv as select k from t where v = 'a;b'"],
 ["use schema s1"], ["create schema s2", "use schema s2", "create table x (i int)"], ["set v = 5", "select $v"], ["set v = 'a;b'", "select $v"], ["unset v"],
 ["merge into t using s on t.k = s.k when matched then update set v = s.v when not matched then insert (k, v) values (s.k, s.v)"], ["MERGE INTO t USING s ON t.k = s.k WHEN MATCHED THEN DELETE"],
 ["begin", "insert into t values (9,'n')", "rollback"], ["begin", "insert into t values (9,'n')", "commit"], ["insert into t values (7,'g')", "select * from nope", "insert into t values (8,'h')"],
 ["select k, v from t where v like 'a%'"], ["select k from t where v = 'a' or v = 'b' order by k desc limit 1"], ["select parse_json('{\"a\": [1, 2]}'):a[0]"], ["select v:a.b from (select parse_json('{\"a\":{\"b\":1}}') as v)"], ["select to_decimal('1.5', 10, 1), dateadd(day, 1, '2020-01-01'::date)"],
 ["alter table t add column c int"], ["alter table t rename to t9"], ["comment on table t is 'it''s; ok'"], ["show tables in schema s1"], ["describe table t"], ["truncate table t"], ["create table c2 clone t"], ["select * from t sample (50) seed (1)"], ["select random(3)"],
 ["select 1 as \"Qu;oted\""], ["select x'41'"], ["select 1e3, 1.50, -0.0"], ["select current_date = current_date"], ["create database d2", "create schema d2.s", "use schema d2.s"], ["alter session set timezone = 'UTC'"], ["call x()"], ["grant select on t to role r"], ["select [1, 2, 3]"], ["select {'a': 1}"], ["select 1 where 1 in (1, 2)"], ["select case when 1 = 1 then 'y' else 'n' end"], ["select cast('1' as int), '1'::int, try_cast('x' as int)"], ["select count(*), sum(k) from t group by all"], ["with c as (select 1 as a) select a from c"], ["select t.k, s.v from t join s on t.k = s.k"], ["select * from t qualify row_number() over (order by k) = 1"], ["select iff(1 = 1, 'a', 'b'), nvl(null, 1), zeroifnull(null)"],
]
nd = 0
for stmts in CASES:
    for sep in ["; ", ";\n-- c\n", " ;\n/* b */\n"]:
        text = sep.join(stmts) + (";" if sep == "; " else "")
        a = run('es', text, stmts); b = run('one', text, stmts)
        if a != b:
            nd += 1; print('DIFF', repr(text)[:100]); print('   es :', repr(a)[:300]); print('   one:', repr(b)[:300]); break
print('cases', len(CASES), 'diffs', nd)
