import fakesnow, snowflake.connector, datetime, decimal
import pandas as pd
from snowflake.connector.pandas_tools import write_pandas
def t(label, f):
    try:
        print(label, '=>', repr(f())[:700])
    except Exception as e:
        print(label, 'EXC', type(e).__module__+'.'+type(e).__name__, getattr(e,'errno',None), getattr(e,'sqlstate',None), str(e)[:300].replace('\n',' | '))
with fakesnow.patch():
    conn = snowflake.connector.connect(database='db1', schema='s1')
    cur = conn.cursor()
    def rt(typ, lit):
        cur.execute(f"create or replace table rt (v {typ})")
        cur.execute(f"insert into rt values ({lit})")
        r = cur.execute("select v from rt").fetchall()
        d = cur.description
        return r, d[0].type_code, d[0].precision, d[0].scale
    for typ, lit in [
        ('BOOLEAN','true'),('NUMBER','9223372036854775807'),('NUMBER','9223372036854775808'),('NUMBER(38,0)','99999999999999999999999999999999999999'),
        ('NUMBER(38,0)','-99999999999999999999999999999999999999'),
        ('INT','9223372036854775808'),('BIGINT','1'),('SMALLINT','70000'),('TINYINT','300'),('BYTEINT','300'),('INTEGER','3000000000'),
        ('NUMBER(10,2)','12345678.91'),('NUMBER(38,37)','1.2345678901234567890123456789012345678'),('DECIMAL(5,0)','12345'),('NUMERIC(5,0)','12345'),
        ('NUMBER(20)', '12345678901234567890'),
        ('FLOAT','1.7976931348623157e308'),('FLOAT','5e-324'),('FLOAT4','16777217'),('REAL','0.1'),('DOUBLE','0.1'),('DOUBLE PRECISION','0.1'),('FLOAT8','0.1'),
        ('VARCHAR',"''"),('STRING',"'héllo ❄ \\' x'"),('TEXT',"'a''b'"),('VARCHAR(3)',"'abcdef'"),('CHAR', "'ab'"),
        ('DATE',"'1969-12-31'"),('DATE',"'0001-01-01'"),('DATE',"'9999-12-31'"),('TIME',"'23:59:59.999999'"),('TIME',"'12:34:56.123456789'"),
        ('TIMESTAMP_NTZ',"'1969-12-31 23:59:59.999999'"),('TIMESTAMP_NTZ',"'2024-02-29 12:00:00.123456789'"),('TIMESTAMP',"'2020-01-01 00:00:00'"),('DATETIME',"'2020-01-01 00:00:00'"),
        ('TIMESTAMP_TZ',"'2020-01-01 00:00:00 +05:00'"),('TIMESTAMP_TZ',"'1969-12-31 23:59:59.5'"),('TIMESTAMP_LTZ',"'2020-01-01 00:00:00'"),
        ('BINARY',"'414243'"),('BINARY',"to_binary('414243')"),('BINARY',"x'414243'"),('VARBINARY',"'ab'"),
        ('VARIANT',"parse_json('{\"a\":[1,2,{\"b\":null}]}')"),('VARIANT',"1"),('OBJECT',"object_construct('a',1)"),('ARRAY',"[1,2]"),('ARRAY',"array_construct(1,'a',null)"),
        ('VARIANT', "'abc'"), ('VARIANT', "parse_json('\"abc\"')"),
    ]:
        t(f'{typ} <- {lit}', lambda: rt(typ, lit))
