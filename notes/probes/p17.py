import threading, collections, time
from fakesnow.instance import FakeSnow
res = collections.Counter()
def trial(kw_list, after=None):
    fs = FakeSnow(); errs = []; bar = threading.Barrier(len(kw_list))
    def w(kw):
        try:
            bar.wait(); c = fs.connect(**kw)
            if after: 
                for s in after: c.cursor().execute(s)
        except Exception as e: errs.append(type(e).__name__ + ': ' + str(e).split('\n')[0][:90])
    ts = [threading.Thread(target=w, args=(kw,)) for kw in kw_list]
    [t.start() for t in ts]; [t.join() for t in ts]
    fs.duck_conn.close()
    return tuple(sorted(errs))
t0=time.time()
for i in range(300): res[trial([dict(database='db1', schema='s1')]*2)] += 1
print('same db+schema x2:'); [print('  ', v, k) for k, v in res.most_common()]
res.clear()
for i in range(300): res[trial([dict(database='db1', schema='s1'), dict(database='db1', schema='s2')])] += 1
print('same db diff schema:'); [print('  ', v, k) for k, v in res.most_common()]
res.clear()
for i in range(300): res[trial([dict(database='db1', schema='s1'), dict(database='db2', schema='s1')])] += 1
print('diff db:'); [print('  ', v, k) for k, v in res.most_common()]
res.clear()
fs0 = None
def trial2():
    fs = FakeSnow(); c0 = fs.connect(database='db1', schema='s1'); c0.cursor().execute("create table t (a int)")
    errs=[]; bar = threading.Barrier(3)
    def w(i):
        try:
            c = fs.connect(database='db1', schema='s1'); cur = c.cursor(); bar.wait()
            for j in range(5): cur.execute(f"insert into t values ({i*10+j})")
            cur.execute(f"create table u{i} (x varchar(5)) comment='c'")
        except Exception as e: errs.append(type(e).__name__ + ': ' + str(e).split('\n')[0][:90])
    ts = [threading.Thread(target=w, args=(i,)) for i in range(3)]
    [t.start() for t in ts]; [t.join() for t in ts]
    n = c0.cursor().execute("select count(*) from t").fetchall()[0][0]
    fs.duck_conn.close()
    return tuple(sorted(errs)) + (n,)
for i in range(200): res[trial2()] += 1
print('inserts + create w/ comment:'); [print('  ', v, k) for k, v in res.most_common()]
print(time.time()-t0)
