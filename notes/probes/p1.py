import fakesnow, snowflake.connector, traceback
from snowflake.connector.cursor import DictCursor
def t(label, f):
    try:
        print(label, '=>', f())
    except Exception as e:
        print(label, 'EXC', type(e).__module__+'.'+type(e).__name__, getattr(e,'errno',None), getattr(e,'sqlstate',None), str(e)[:200].replace('\n',' | '))
with fakesnow.patch():
    conn = snowflake.connector.connect(database='db1', schema='s1')
    cur = conn.cursor()
    cur.execute("create table t (a int, b varchar)")
    t('ins', lambda: (cur.execute("insert into t values (1,'x'),(2,'y')").fetchall(), cur.rowcount))
    # C04: zero
    t('upd0', lambda: (cur.execute("update t set b='z' where a=99").fetchall(), cur.rowcount))
    t('del0', lambda: (cur.execute("delete from t where a=99").fetchall(), cur.rowcount))
    t('ins0', lambda: (cur.execute("insert into t select * from t where a=99").fetchall(), cur.rowcount))
    t('trunc', lambda: (cur.execute("truncate table t").fetchall(), cur.rowcount))
    cur.execute("insert into t values (1,'x'),(2,'y')")
    # C05: dup columns
    t('dup', lambda: cur.execute("select a, a from t").fetchall())
    t('dupdesc', lambda: [d.name for d in cur.description])
    t('join dup', lambda: cur.execute("select * from t t1 join t t2 on t1.a=t2.a").fetchall())
    # fetchmany beyond
    cur.execute("select a from t order by a")
    t('fm', lambda: (cur.fetchmany(5), cur.fetchmany(5), cur.fetchone(), cur.fetchall()))
    cur.execute("select a from t order by a")
    t('fetchall twice', lambda: (cur.fetchall(), cur.fetchall(), cur.fetchone()))
    cur.execute("select a from t order by a")
    t('fetchone then all', lambda: (cur.fetchone(), cur.fetchall()))
    c2 = conn.cursor()
    t('fetch before exec', lambda: c2.fetchall())
    t('fetchone before exec', lambda: c2.fetchone())
    t('desc before exec', lambda: c2.description)
    # desc after DML
    cur.execute("insert into t values (3,'z')")
    t('desc after insert', lambda: cur.description)
    cur.execute("update t set b='q' where a=3")
    t('desc after update', lambda: cur.description)
    cur.execute("begin"); t('desc after begin', lambda: cur.description); 
    cur.execute("commit"); t('desc after commit', lambda: cur.description)
    cur.execute("commit"); t('desc after commit2', lambda: (cur.fetchall(), cur.description))
    cur.execute("use schema s1"); t('desc after use', lambda: (cur.fetchall(), cur.description))
    cur.execute("set v=1"); t('desc after set', lambda: (cur.fetchall(), cur.description))
    cur.execute("create table t2 (a int)"); t('desc after create', lambda: (cur.fetchall(), cur.description))
    cur.execute("drop table t2"); t('desc after drop', lambda: (cur.fetchall(), cur.description))
    cur.execute("describe table t"); t('desc after describe', lambda: (cur.fetchall(), [d.name for d in cur.description]))
    cur.execute("show tables"); t('desc after show', lambda: (cur.fetchall(), [d.name for d in cur.description]))
    cur.execute("select random(42)"); t('desc after random', lambda: (cur.fetchall(), cur.description))
