import os, sys, time, tempfile, shutil, signal, json
import duckdb
import fakesnow, fakesnow.instance as inst
import snowflake.connector
real_connect = duckdb.connect
class Kill(Exception): pass
class Proxy:
    ctr = 0; kill_at = None; log = []
    def __init__(self, real): self._r = real
    def _pt(self, what):
        Proxy.ctr += 1
        Proxy.log.append(what)
        if Proxy.kill_at is not None and Proxy.ctr == Proxy.kill_at:
            os.kill(os.getpid(), signal.SIGKILL)
    def execute(self, sql, params=None):
        self._pt(sql.strip().split('\n')[0][:50])
        self._r.execute(sql, params) if params is not None else self._r.execute(sql)
        return self
    def cursor(self): return Proxy(self._r.cursor())
    def __getattr__(self, k): return getattr(self._r, k)
inst.duckdb.connect = lambda *a, **k: Proxy(real_connect(*a, **k))
HIST = ["create table t (a int, b varchar(5)) comment='c1'", "insert into t values (1,'x')", "begin", "insert into t values (2,'y')", "commit", "create database db2", "create schema db2.s2", "create table db2.s2.u (z int)", "begin", "insert into t values (3,'z')"]
def run(dbp, kill_at):
    Proxy.kill_at = kill_at
    with fakesnow.patch(db_path=dbp):
        c = snowflake.connector.connect(database='db1', schema='s1'); cur = c.cursor()
        for h in HIST: cur.execute(h)
    return Proxy.ctr, Proxy.log
def observe(dbp):
    with fakesnow.patch(db_path=dbp):
        c = snowflake.connector.connect(database='db1', schema='s1'); cur = c.cursor()
        out = {}
        for k, sql in [('t', "select * from t order by 1"), ('tabs', "select table_name, comment from information_schema.tables where table_schema='S1'"), ('cols', "select column_name, character_maximum_length from information_schema.columns where table_name='T'"),
                       ('dbs', "select database_name from information_schema.databases"), ('u', "select * from db2.s2.u")]:
            try: out[k] = cur.execute(sql).fetchall()
            except Exception as e: out[k] = 'EXC ' + type(e).__name__ + ' ' + str(e)[:80]
        return out
def in_child(f, *a):
    r, w = os.pipe(); pid = os.fork()
    if pid == 0:
        os.close(r)
        try: res = f(*a); os.write(w, json.dumps(res, default=str).encode())
        except BaseException as e: os.write(w, json.dumps('CHILD EXC ' + repr(e)[:200]).encode())
        os._exit(0)
    os.close(w); data = b''
    while True:
        b = os.read(r, 65536)
        if not b: break
        data += b
    os.close(r); _, st = os.waitpid(pid, 0)
    return st, (json.loads(data) if data else None)
d = tempfile.mkdtemp(prefix='fsprobe'); 
st, res = in_child(run, d, None); n, log = res; print('total engine calls', n); 
for i,l in enumerate(log,1): print('  ', i, l)
print(in_child(observe, d)); shutil.rmtree(d)
t0 = time.time()
for k in [5, 12, 17, 18, 19, 20, 21, 25, 30, 33, 34, 36, 38, 40, n]:
    d = tempfile.mkdtemp(prefix='fsprobe'); st, res = in_child(run, d, k); o = in_child(observe, d); print(k, 'status', st, o[1]); print('   files', sorted(os.listdir(d))); shutil.rmtree(d)
print('per crash pt s', (time.time()-t0)/15)
