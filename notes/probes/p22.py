import fakesnow, snowflake.connector, datetime, decimal
def t(label, f):
    try:
        r = f(); print(label, '=>', repr(r)[:300])
    except Exception as e:
        print(label, 'EXC', type(e).__module__+'.'+type(e).__name__, getattr(e,'errno',None), getattr(e,'sqlstate',None), str(e)[:200].replace('\n',' | '))
STR = ["", "a", "'", "''", '"', "\\", "\\\\", "\\'", "a\\nb", "a\nb", "\t", "%", "%s", "%%", "%(x)s", "$", "$x", "$$", "$$x$$", "?", ";", "--", "-- x", "/*", "/* x */", "a;b", "❄", "\u0000x", "\x7f", "é", "𝒳", "{", "{}", "${x}", "\\u0041", "x' or '1'='1", "'); drop table t; --", "\r\n", "  lead", "trail  ", "a\\", "\\%", "_", "a'b\"c\\d"]
with fakesnow.patch():
    for style in ['pyformat', 'format', 'qmark', 'numeric']:
        snowflake.connector.paramstyle = style
        conn = snowflake.connector.connect(database='db1', schema='s1'); cur = conn.cursor()
        cur.execute("create or replace table t (s varchar)")
        ph = {'pyformat': '%s', 'format': '%s', 'qmark': '?', 'numeric': ':1'}[style]
        bad = []
        for s in STR:
            try:
                r = cur.execute(f"select {ph}", (s,)).fetchall()
                if r != [(s,)]: bad.append(('sel', s, r))
                cur.execute(f"insert into t values ({ph})", (s,))
            except Exception as e: bad.append(('exc', s, type(e).__name__, str(e)[:60]))
        got = sorted(x[0] for x in cur.execute("select s from t").fetchall())
        print(style, 'bad:', bad, 'table ok:', got == sorted(STR), 'count', cur.execute("select count(*) from t").fetchall())
        for v in [1, -1, 2**63-1, 10**30, 1.5, -0.0, 1e-320, decimal.Decimal('1.10'), True, False, None, datetime.date(1,1,1), datetime.datetime(1969,12,31,23,59,59,1), datetime.time(23,59,59,999999), [1,2], ['a',"b'c"], (1,2), b'ab', bytearray(b'ab')]:
            t(f'{style} {v!r}', lambda: cur.execute(f"select {ph}", (v,)).fetchall())
    snowflake.connector.paramstyle = 'pyformat'
    conn = snowflake.connector.connect(database='db1', schema='s1'); cur = conn.cursor()
    t('dict pyformat', lambda: cur.execute("select %(a)s, %(b)s, %(a)s", {'a': "x'%s", 'b': None}).fetchall())
    t('percent literal no params', lambda: cur.execute("select '%s', '100%'").fetchall())
    t('percent literal empty params', lambda: cur.execute("select '100%'", ()).fetchall())
    t('executemany', lambda: (cur.execute("create or replace table t (a int, s varchar)"), cur.executemany("insert into t values (%s, %s)", [(1,"a'"),(2,None),(3,"%s")]), cur.rowcount, cur.execute("select * from t order by a").fetchall()))
    t('executemany empty', lambda: cur.executemany("insert into t values (%s, %s)", []).rowcount)
    snowflake.connector.paramstyle = 'qmark'   # change after connect must not affect conn
    t('paramstyle snapshot', lambda: cur.execute("select %s", ('x',)).fetchall())
    t('qmark on pyformat conn', lambda: cur.execute("select ?", ('x',)).fetchall())
    snowflake.connector.paramstyle = 'pyformat'
