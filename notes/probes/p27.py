import time
from fakesnow.instance import FakeSnow
fs = FakeSnow(); c = fs.connect(database='db1', schema='s1'); cur = c.cursor()
for s in ["create table t (a int, b varchar(5)) comment='x'", "insert into t values (1,'a'),(2,null)", "create view v as select * from t", "create schema s2", "create database db2", "set v1 = 3"]: cur.execute(s)
o = fs.duck_conn.cursor()
def tm(label, sql, n=30):
    t0 = time.time()
    for i in range(n): r = o.execute(sql).fetchall()
    print(f'{(time.time()-t0)/n*1000:7.2f} ms  {label}  rows={len(r)}')
skip = "('memory','system','temp')"
tm('databases', f"select database_name from duckdb_databases() where database_name not in {skip}")
tm('schemas', f"select database_name, schema_name from duckdb_schemas() where database_name not in {skip}")
tm('columns all', f"select database_name, schema_name, table_name, column_index, column_name, data_type, is_nullable from duckdb_columns() where database_name not in {skip} and not internal order by all")
tm('columns user', f"select database_name, schema_name, table_name, column_index, column_name, data_type, is_nullable from duckdb_columns() where database_name not in {skip} and schema_name not in ('information_schema','pg_catalog') order by all")
tm('tables', f"select database_name, schema_name, table_name from duckdb_tables() where database_name not in {skip} and not internal order by all")
tm('views', f"select database_name, schema_name, view_name, sql from duckdb_views() where database_name not in {skip} and not internal and schema_name <> 'information_schema' order by all")
tm('data t', 'select * from "DB1"."S1"."T" order by all')
tm('ext', 'select * from DB1.information_schema._fs_tables_ext order by all')
tm('one-shot', f"""select 'c', database_name, schema_name, table_name, column_index::varchar, column_name, data_type, is_nullable::varchar from duckdb_columns() where database_name not in {skip} and schema_name not in ('information_schema','pg_catalog')
   union all select 's', database_name, schema_name, '', '', '', '', '' from duckdb_schemas() where database_name not in {skip}
   union all select 'v', database_name, schema_name, view_name, '', sql, '', '' from duckdb_views() where database_name not in {skip} and not internal and schema_name <> 'information_schema' order by all""")
tm('information_schema.columns (what fakesnow exposes)', "select * from db1.information_schema._fs_columns_snowflake")
tm('select 1', "select 1")
