import duckdb
_real = duckdb.connect
CALLS = [0]
class Proxy:
    def __init__(self, real): object.__setattr__(self, '_r', real)
    def execute(self, sql, params=None):
        CALLS[0] += 1
        self._r.execute(sql, params) if params is not None else self._r.execute(sql)
        return self
    def cursor(self): return Proxy(self._r.cursor())
    def __getattr__(self, k): return getattr(self._r, k)
def _connect(*a, **k): return Proxy(_real(*a, **k))
duckdb.connect = _connect
def pytest_sessionfinish(session, exitstatus):
    print(f"\n[proxy] engine execute calls routed through proxy: {CALLS[0]}")
