import threading, time, uvicorn, socket
import snowflake.connector, fakesnow.server, fakesnow
from fakesnow.instance import FakeSnow
def t(label, f):
    try:
        r = f(); print(label, '=>', repr(r)[:600])
    except Exception as e:
        print(label, 'EXC', type(e).__module__+'.'+type(e).__name__, getattr(e,'errno',None), getattr(e,'sqlstate',None), str(e)[:300].replace('\n',' | '))
s=socket.socket(); s.bind(('127.0.0.1',0)); port=s.getsockname()[1]; s.close()
server = uvicorn.Server(uvicorn.Config(fakesnow.server.app, port=port, log_level="warning"))
th = threading.Thread(target=server.run, daemon=True); th.start()
while not server.started: time.sleep(0.05)
kw = dict(user="fake", password="snow", account="fakesnow", host="localhost", port=port, protocol="http", session_parameters={"CLIENT_OUT_OF_BAND_TELEMETRY_ENABLED": False, "FAKESNOW_DB_PATH": ":isolated:"}, network_timeout=1)
t0=time.time()
sc = snowflake.connector.connect(**kw, database='db1', schema='s1'); print('connect s', time.time()-t0)
scur = sc.cursor()
fs = FakeSnow(); ic = fs.connect(database='db1', schema='s1'); icur = ic.cursor()
def both(sql):
    out=[]
    for c in (icur, scur):
        try:
            c.execute(sql); rows=c.fetchall(); out.append((rows, [type(v).__name__ for r in rows[:1] for v in r], c.rowcount, [(d.name,d.type_code,d.precision,d.scale,d.internal_size,d.is_nullable) for d in c.description]))
        except Exception as e:
            out.append(('EXC', type(e).__name__, getattr(e,'errno',None), getattr(e,'sqlstate',None), str(getattr(e,'msg',e))[:100]))
    same = out[0]==out[1]
    print(('SAME ' if same else 'DIFF ')+sql[:150]); 
    if not same: print('   inproc:', repr(out[0])[:700]); print('   server:', repr(out[1])[:700])
t0=time.time(); both("select 1"); print('rt s', time.time()-t0)
for sql in ["select 1, 'a', 1.5, 1.5::float, true, null", "select null::int, null::varchar, null::float, null::boolean, null::date, null::time, null::timestamp_ntz, null::timestamp_tz, null::number(10,2), null::variant, null::binary",
   "select '1969-12-31 23:59:59.999999'::timestamp_ntz", "select '1969-12-31 23:59:59.5'::timestamp_ntz", "select '1960-01-01 00:00:00.000001'::timestamp_tz", "select '2020-01-01 00:00:00.123456'::timestamp_ntz, '2020-01-01 00:00:00.000001'::timestamp_ntz, '2020-01-01 00:00:00.999999'::timestamp_ntz",
   "select '2020-01-01 00:00:00.1'::timestamp_ntz, '2020-01-01 00:00:00.7'::timestamp_ntz, '2020-01-01 00:00:00.3'::timestamp_ntz", "select '00:00:00.000001'::time, '23:59:59.999999'::time", "select '1969-01-01'::date, '0001-01-01'::date, '9999-12-31'::date",
   "select 99999999999999999999999999999999999999::number(38,0), -1.5::number(38,37), 12345678.91::number(10,2)", "select 9223372036854775807, -9223372036854775808", "select 1::int where false", "select * from (values (1,'a'),(2,null))",
   "create table t (a int, b varchar)", "insert into t values (1,'x'),(2,'y')", "update t set b='z' where a=1", "delete from t where a=99", "select * from t order by a", "select * from nope", "select nocol from t", "use schema nope", "begin", "commit", "use schema s1",
   "set v=1", "select $v", "select $undefined", "describe table t", "show tables", "select parse_json('{\"a\":1}'), [1,2], object_construct('a',1)", "select x'4142'", "select to_binary('4142','hex')", "select sha2_binary('a')",
   "drop table t", "create schema s2", "select 5e-324::float, 1.7976931348623157e308::float, 'nan'::float, 'inf'::float", "select 'héllo ❄'", "select ''", "select 1 as \"lower\", 2 as UPPER"]:
    both(sql)
# two rows with timestamps incl null
both("select * from (values ('2020-01-01 00:00:00.5'::timestamp_ntz), (null)) ")
t0=time.time()
for i in range(50): scur.execute("select 1").fetchall()
print('per query ms', (time.time()-t0)/50*1000)
