import fakesnow, snowflake.connector, datetime, decimal
import pandas as pd, numpy as np
import snowflake.connector.pandas_tools as pt
def t(label, f):
    try:
        print(label, '=>', repr(f())[:1200])
    except Exception as e:
        print(label, 'EXC', type(e).__module__+'.'+type(e).__name__, getattr(e,'errno',None), getattr(e,'sqlstate',None), str(e)[:300].replace('\n',' | '))
with fakesnow.patch():
    conn = snowflake.connector.connect(database='db1', schema='s1')
    cur = conn.cursor()
    write_pandas = pt.write_pandas
    cur.execute("create table wp (i int, f float, s varchar, d date, ts timestamp_ntz, tz timestamp_tz, v variant, b boolean, n number(10,2), t time, bi binary)")
    df = pd.DataFrame({'I':[1,None,2**40],'F':[0.1,None,5e-324],'S':['a',None,'❄\''],'D':[datetime.date(1969,1,1),None,datetime.date(2024,2,29)],
        'TS':[pd.Timestamp('1969-12-31 23:59:59.999999'),pd.NaT,pd.Timestamp('2262-01-01')],'TZ':[pd.Timestamp('2020-01-01',tz='UTC'),pd.NaT,pd.Timestamp('1960-01-01 00:00:00.000001',tz='UTC')],
        'V':[{'a':1},None,[1,2]],'B':[True,None,False],'N':[decimal.Decimal('1.25'),None,decimal.Decimal('99999999.99')], 'T':[datetime.time(1,2,3,4), None, datetime.time(0,0)], 'BI':[b'\x00\xff', None, b'']})
    t('wp', lambda: write_pandas(conn, df, 'WP'))
    for r in cur.execute("select * from wp").fetchall(): print('   ', r)
    t('wp lower cols', lambda: write_pandas(conn, pd.DataFrame({'s':['x'],'i':[1]}), 'WP'))
    t('wp reorder', lambda: (write_pandas(conn, pd.DataFrame({'S':['only s'], 'I':[7]}), 'WP'), cur.execute("select i,s from wp").fetchall()))
    t('wp auto create', lambda: (write_pandas(conn, pd.DataFrame({'A':[1],'B':['x']}), 'AUTO', auto_create_table=True), cur.execute("select * from auto").fetchall()))
    t('wp db/schema', lambda: (write_pandas(conn, pd.DataFrame({'A':[1],'B':['x']}), 'AUTO', database='DB1', schema='S1'), cur.execute("select * from auto").fetchall()))
    t('wp empty', lambda: write_pandas(conn, pd.DataFrame({'A':pd.Series([],dtype='int64'),'B':pd.Series([],dtype='object')}), 'AUTO'))
    t('wp str json-like', lambda: (write_pandas(conn, pd.DataFrame({'S':['{"a":1}', '[1]', 'null']}), 'WP'), cur.execute("select s from wp where i is null").fetchall()))
    t('wp int32', lambda: (write_pandas(conn, pd.DataFrame({'I':np.array([1,2],dtype='int32')}), 'WP')))
    t('wp quoted lower table', lambda: (cur.execute('create table "lower" ("a" int)'), write_pandas(conn, pd.DataFrame({'a':[1]}), 'lower'), ))
    t('wp q', lambda: (write_pandas(conn, pd.DataFrame({'a':[1]}), '"lower"'), cur.execute('select * from "lower"').fetchall()))
