import fakesnow, snowflake.connector, datetime, decimal
import pandas as pd, numpy as np
from snowflake.connector.pandas_tools import write_pandas
def t(label, f):
    try:
        print(label, '=>', repr(f())[:900])
    except Exception as e:
        print(label, 'EXC', type(e).__module__+'.'+type(e).__name__, getattr(e,'errno',None), getattr(e,'sqlstate',None), str(e)[:300].replace('\n',' | '))
with fakesnow.patch():
    conn = snowflake.connector.connect(database='db1', schema='s1')
    cur = conn.cursor()
    # bound params
    cur.execute("create table p (b boolean, i int, n number(20,5), f float, s varchar, d date, tm time, ts timestamp_ntz, tz timestamp_tz, bi binary, v variant)")
    vals = (True, 2**62, decimal.Decimal('123456789012345.12345'), 1e-300, "it's \\ a %s ? ; -- /* x */ $v \n\t ❄", datetime.date(1969,7,20), datetime.time(1,2,3,456789),
        datetime.datetime(1969,12,31,23,59,59,999999), datetime.datetime(2020,1,2,3,4,5,678901,tzinfo=datetime.timezone.utc), b'\x00\xff', '{"a": 1}')
    t('ins params', lambda: cur.execute("insert into p values (%s,%s,%s,%s,%s,%s,%s,%s,%s,%s,%s)", vals).fetchall())
    t('sel', lambda: cur.execute("select * from p").fetchall())
    t('none', lambda: cur.execute("insert into p (i, s) values (%s, %s)", (None, None)).fetchall())
    t('sel', lambda: cur.execute("select i, s from p").fetchall())
    t('dict', lambda: cur.execute("select %(a)s, %(b)s", {'a': "x'y", 'b': 1}).fetchall())
    t('list IN', lambda: cur.execute("select i from p where i in (%s)", ([2**62, 5],)).fetchall())
    t('float nan', lambda: cur.execute("select %s", (float('nan'),)).fetchall())
    t('float inf', lambda: cur.execute("select %s", (float('inf'),)).fetchall())
    t('str percent', lambda: cur.execute("select %s", ('100%',)).fetchall())
    t('like percent no params', lambda: cur.execute("select 'a' like 'a%'").fetchall())
    t('like percent with params', lambda: cur.execute("select %s like 'a%%'", ('ab',)).fetchall())
    t('str backslash n', lambda: cur.execute("select %s", ('a\\nb',)).fetchall())
    t('str trailing backslash', lambda: cur.execute("select %s", ('a\\',)).fetchall())
    t('str dollar', lambda: cur.execute("select %s", ('$abc',)).fetchall())
    t('str double dollar', lambda: cur.execute("select %s", ('$$abc',)).fetchall())
    t('str with var', lambda: (cur.execute("set abc = 5"), cur.execute("select %s", ('cost $abc',)).fetchall()))
    t('executemany', lambda: (cur.executemany("insert into p (i,s) values (%s,%s)", [(1,'a'),(2,'b')]).fetchall(), cur.rowcount))
    # write_pandas
    cur.execute("create table wp (i int, f float, s varchar, d date, ts timestamp_ntz, tz timestamp_tz, v variant, b boolean, n number(10,2))")
    df = pd.DataFrame({'I':[1,None,2**40],'F':[0.1,None,5e-324],'S':['a',None,'❄\''],'D':[datetime.date(1969,1,1),None,datetime.date(2024,2,29)],
        'TS':[pd.Timestamp('1969-12-31 23:59:59.999999'),pd.NaT,pd.Timestamp('2262-01-01')],'TZ':[pd.Timestamp('2020-01-01',tz='UTC'),pd.NaT,pd.Timestamp('1960-01-01 00:00:00.000001',tz='UTC')],
        'V':[{'a':1},None,[1,2]],'B':[True,None,False],'N':[decimal.Decimal('1.25'),None,decimal.Decimal('99999999.99')]})
    t('wp', lambda: write_pandas(conn, df, 'WP'))
    t('sel wp', lambda: cur.execute("select * from wp").fetchall())
    df2 = pd.DataFrame({'s':['x'],'i':[1]})
    t('wp lower cols', lambda: write_pandas(conn, df2, 'WP'))
    t('wp reorder', lambda: (write_pandas(conn, pd.DataFrame({'S':['only s']}), 'WP'), cur.execute("select i,s from wp").fetchall()))
    t('wp auto create', lambda: (write_pandas(conn, pd.DataFrame({'A':[1],'B':['x']}), 'AUTO', auto_create_table=True), cur.execute("select * from auto").fetchall()))
    t('wp db/schema', lambda: (write_pandas(conn, pd.DataFrame({'A':[1],'B':['x']}), 'AUTO', database='DB1', schema='S1'), cur.execute("select * from auto").fetchall()))
    # ctas/clone/insert-select
    t('ctas', lambda: (cur.execute("create table p2 as select * from p").fetchall(), cur.execute("select * from p2").fetchall()==cur.execute("select * from p").fetchall()))
    t('clone', lambda: (cur.execute("create table p3 clone p").fetchall(), cur.execute("select * from p3").fetchall()==cur.execute("select * from p").fetchall()))
    t('describe clone', lambda: (cur.execute("describe table p3").fetchall()==cur.execute("describe table p").fetchall()))
    t('fetch_pandas_all', lambda: cur.execute("select i, n, f, s, d, ts from p").fetch_pandas_all().dtypes.to_dict())
