import fakesnow, snowflake.connector, itertools, re, time
from fakesnow.instance import FakeSnow
from sqlglot.tokens import Tokenizer, TokenType
from sqlglot.dialects.snowflake import Snowflake
def tokens(sql):
    return Snowflake.Tokenizer().tokenize(sql)
def respell(sql, mask):
    toks = tokens(sql); out = []; pos = 0; j = 0
    for tk in toks:
        out.append(sql[pos:tk.start]); txt = sql[tk.start:tk.end+1]
        foldable = tk.token_type not in (TokenType.STRING, TokenType.IDENTIFIER, TokenType.NUMBER, TokenType.HEREDOC_STRING, TokenType.RAW_STRING) and re.search('[a-zA-Z]', txt)
        if foldable:
            txt = txt.upper() if mask[j] else txt.lower(); j += 1
        out.append(txt); pos = tk.end+1
    out.append(sql[pos:]); return ''.join(out), j
PRELUDE = ["create table t (k int, v varchar(5))", "insert into t values (1,'a'),(2,'b')", "create table s (k int, v varchar)", "insert into s values (1,'A'),(3,'C')", "create schema s2", "create view vw as select * from t"]
STMTS = ["select k, v as alias1 from t where k > 0 order by k", "insert into t (k, v) values (3, 'c')", "update t set v = 'z' where k = 1", "delete from t where k = 2", "create table t2 (a int, b varchar(3)) comment = 'hello'",
  "drop table t", "use schema s2", "use database db1", "merge into t using s on t.k = s.k when matched then update set v = s.v when not matched then insert (k, v) values (s.k, s.v)", "merge into t using s on t.k = s.k when matched then delete",
  "show tables in schema s1", "describe table t", "set myvar = 5", "alter table t add column c int", "alter table t rename to t9", "create or replace view vw as select k from t", "truncate table t", "comment on table t is 'c'", "show terse objects in database db1",
  "select * from information_schema.tables where table_schema = 'S1'", "select column_name from information_schema.columns where table_name = 'T'", "create table c2 clone t", "select to_decimal('1.5', 10, 1), dateadd(day, 1, '2020-01-01'::date), regexp_substr('abc', 'b')", "begin", "select parse_json('{\"a\":1}'):a::int, object_construct('k', 1)", "select value from lateral flatten(input => [1,2])",
  "show primary keys in schema", "select sha2('a'), trim(' a '), equal_null(1, null)", "select identifier('t').k from identifier('t')", "create schema if not exists s3", "drop schema s2", "alter table t set comment = 'x'", "select count(*) as n from t sample (50) seed (1)", "select random(3)"]
def outcome(sql):
    fs = FakeSnow(); c = fs.connect(database='db1', schema='s1'); cur = c.cursor(snowflake.connector.cursor.DictCursor) 
    for p in PRELUDE: cur.execute(p)
    try:
        cur.execute(sql); rows = cur.fetchall(); res = ('ok', repr(rows), cur.rowcount, c.database, c.schema)
    except Exception as e: res = ('exc', type(e).__name__, getattr(e,'errno',None), str(e)[:100])
    o = fs.duck_conn.cursor()
    dig = (o.execute("select database_name, schema_name, table_name, column_name, data_type from duckdb_columns() where database_name='DB1' order by all").fetchall(), 
           [o.execute(f"select * from {r[0]}.{r[1]}.\"{r[2]}\" order by all").fetchall() for r in o.execute("select database_name, schema_name, table_name from duckdb_tables() where database_name='DB1' order by all").fetchall()])
    fs.duck_conn.close(); return res, repr(dig)
t0 = time.time(); nrun = 0
for sql in STMTS:
    base_sql, n = respell(sql, [0]*99); base = outcome(base_sql); nrun += 1
    diffs = []
    masks = [[1]*n] + [[1 if i == j else 0 for i in range(n)] for j in range(n)]
    for m in masks:
        s2, _ = respell(sql, m); o = outcome(s2); nrun += 1
        if o != base: diffs.append((s2, o[0] if o[0] != base[0] else 'STATE DIFF'))
    print(('OK   ' if not diffs else 'DIFF ') + f'[{n} tokens] ' + sql[:90]); 
    for s2, o in diffs[:3]: print('      ', s2[:110], '=>', repr(o)[:200]); 
    if diffs: print('       base =>', repr(base[0])[:200])
print('runs', nrun, 'time', time.time() - t0)
