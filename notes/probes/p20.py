import duckdb
root = duckdb.connect(':memory:')
a = root.cursor(); b = root.cursor()
a.execute("create table t as select range as x from range(300000)")
a.execute("select x from t")           # no fetch yet
b.execute("delete from t where x >= 10"); b.execute("insert into t values (-1)")
print('b count', b.execute("select count(*) from t").fetchall())
try:
    b.execute("drop table t"); print('b dropped t while a has pending result')
except Exception as e: print('drop EXC', type(e).__name__, e)
rows = a.fetchall(); print('a fetched', len(rows), rows[:2])
# pending result with open autocommit tx? check a can still start new statement
print(a.execute("select 42").fetchall())
# big result streaming?
a.execute("create table u as select range as x from range(3000000)")
a.execute("select x from u")
b.execute("update u set x = -x")
r = a.fetchall(); print('a sees', len(r), min(x for (x,) in r))
