import fakesnow, snowflake.connector
def t(label, f):
    try:
        r = f()
        if isinstance(r, list):
            print(label, '=>'); [print('    ', x) for x in r]
        else: print(label, '=>', repr(r)[:900])
    except Exception as e:
        print(label, 'EXC', type(e).__module__+'.'+type(e).__name__, getattr(e,'errno',None), getattr(e,'sqlstate',None), str(e)[:250].replace('\n',' | '))
with fakesnow.patch():
    conn = snowflake.connector.connect(database='db1', schema='s1')
    cur = conn.cursor()
    q = lambda s: cur.execute(s).fetchall()
    q("create table t (a int, b varchar(10), c varchar, d number(10,2) not null, e float, f timestamp_ntz, g variant, h boolean, i date, j binary, k timestamp_tz, l time) comment='first'")
    cols = "select table_name, column_name, ordinal_position, data_type, character_maximum_length, numeric_precision, numeric_scale, is_nullable from information_schema.columns where table_schema='S1' order by table_name, ordinal_position"
    tabs = "select table_catalog, table_schema, table_name, table_type, comment from information_schema.tables where table_schema not in ('information_schema','main') order by 1,2,3"
    t('cols', lambda: q(cols)); t('tabs', lambda: q(tabs))
    t('describe', lambda: [r[:4] for r in q("describe table t")])
    q("drop table t"); q("create table t (a varchar, z int)")
    t('after recreate: cols', lambda: q(cols)); t('tabs', lambda: q(tabs))
    q("alter table t add column n varchar(5)"); q("alter table t rename column a to aa"); 
    t('after alter: cols', lambda: q(cols))
    q("alter table t rename to t9"); t('after rename: cols', lambda: q(cols)); t('tabs', lambda: q(tabs))
    q("create or replace table t9 (b varchar(3))"); t('after replace: cols', lambda: q(cols))
    q("comment on table t9 is 'c9'"); t('tabs', lambda: q(tabs))
    q("create schema s2"); q("create table s2.t9 (b varchar(7))"); t('same name two schemas tabs', lambda: q(tabs))
    t('cols s2', lambda: q(cols.replace("'S1'","'S2'")))
    q("create table ct as select b, b::varchar(2) as b2, 1 as one from t9"); t('ctas cols', lambda: q(cols))
    q("create table cl clone t9"); t('clone cols', lambda: q(cols))
    q("create view vw as select * from t9"); t('views', lambda: q("select table_catalog, table_schema, table_name from information_schema.views")); t('tabs', lambda: q(tabs))
    t('describe view', lambda: [r[:4] for r in q("describe view vw")])
    t('show tables', lambda: [r[1:] for r in q("show tables")])
    t('show terse tables in schema s1', lambda: [r[1:] for r in q("show terse tables in schema s1")])
    t('show tables in db1.s2', lambda: [r[1:] for r in q("show tables in db1.s2")])
    t('show tables in database', lambda: [r[1:] for r in q("show tables in database db1")])
    t('show objects', lambda: [r[1:] for r in q("show objects")])
    t('show objects in schema', lambda: [r[1:] for r in q("show objects in schema db1.s1")])
    t('show schemas', lambda: [r[1:] for r in q("show schemas")])
    t('show terse schemas in database db1', lambda: [r[1:] for r in q("show terse schemas in database db1")])
    t('show primary keys', lambda: q("show primary keys"))
    q("create table pk (id int primary key, x int)"); t('show primary keys', lambda: q("show primary keys")); t('show pk in table', lambda: q("show primary keys in table pk"))
    t('databases', lambda: q("select database_name from information_schema.databases"))
    t('select * desc', lambda: [(d.name,d.type_code,d.precision,d.scale,d.internal_size) for d in cur.execute("select * from pk").description])
    t('ext', lambda: q("select * from information_schema._fs_columns_ext"))
    t('ext2', lambda: q("select * from information_schema._fs_tables_ext"))
    t('user sees fs tables', lambda: q("select table_name from information_schema.tables where table_name like '_fs%'"))
