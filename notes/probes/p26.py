import time, json
from fakesnow.instance import FakeSnow
def digest(fs, sessions=()):
    o = fs.duck_conn.cursor()
    q = lambda s: o.execute(s).fetchall()
    skip = "('memory','system','temp')"
    dbs = sorted(r[0] for r in q(f"select database_name from duckdb_databases() where database_name not in {skip}"))
    schemas = sorted(q(f"select database_name, schema_name from duckdb_schemas() where database_name not in {skip} and schema_name not in ('pg_catalog')"))
    cols = q(f"select database_name, schema_name, table_name, column_index, column_name, data_type, is_nullable from duckdb_columns() where database_name not in {skip} and not internal order by all")
    tabs = q(f"select database_name, schema_name, table_name from duckdb_tables() where database_name not in {skip} and not internal order by all")
    views = q(f"select database_name, schema_name, view_name, sql from duckdb_views() where database_name not in {skip} and not internal order by all")
    temp = q("select schema_name, table_name from duckdb_tables() where database_name = 'temp'")
    data = {}
    for d, s, t in tabs:
        data[f'{d}.{s}.{t}'] = q(f'select * from "{d}"."{s}"."{t}" order by all')
    sess = []
    for c in sessions:
        cs = c._duck_conn.execute("select current_database(), current_schema()").fetchall()[0]
        sess.append((c.database, c.schema, c.database_set, c.schema_set, cs, dict(c.variables._variables)))
    return dict(dbs=dbs, schemas=schemas, cols=cols, views=views, temp=temp, data=data, sess=sess)
fs = FakeSnow(); c = fs.connect(database='db1', schema='s1'); cur = c.cursor()
for s in ["create table t (a int, b varchar(5)) comment='x'", "insert into t values (1,'a'),(2,null)", "create view v as select * from t", "create schema s2", "create database db2", "set v1 = 3"]: cur.execute(s)
d = digest(fs, [c]); print(json.dumps(d, default=str, indent=0)[:2500])
t0 = time.time()
for i in range(50): digest(fs, [c])
print('digest ms', (time.time()-t0)/50*1000)
# does observing through session cursor disturb pending result? (uses c._duck_conn.execute → yes it would replace the DuckDB result!)
cur.execute("select a from t order by a"); digest(fs, [c]); print('fetch after digest', cur.fetchall())
