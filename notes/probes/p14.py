import duckdb, time, threading
import fakesnow.instance as inst
import snowflake.connector.pandas_tools
import pandas as pd
LOG=[]
class Proxy:
    def __init__(self, real, name): self._r=real; self._n=name
    def execute(self, sql, params=None):
        LOG.append((self._n,'execute',sql.strip()[:60]))
        self._r.execute(sql, params) if params is not None else self._r.execute(sql)
        return self
    def cursor(self):
        LOG.append((self._n,'cursor')); return Proxy(self._r.cursor(), self._n+'.c')
    def __getattr__(self, k):
        LOG.append((self._n,k)); return getattr(self._r,k)
real_connect = duckdb.connect
def fake_connect(*a, **k): return Proxy(real_connect(*a, **k), 'root')
inst.duckdb.connect = fake_connect
t0=time.time()
fs = inst.FakeSnow()
c = fs.connect(database='db1', schema='s1')
cur = c.cursor()
cur.execute("create table t (a int, b varchar(5)) comment='x'")
print(cur.fetchall())
cur.execute("insert into t values (1,'a')"); print(cur.fetchall(), cur.rowcount, cur.description[0].name)
import fakesnow.pandas_tools as pt
try:
    print(pt.write_pandas(c, pd.DataFrame({'A':[5],'B':['z']}), 'T'))
except Exception as e: print('wp EXC', type(e), e)
print(cur.execute("select * from t").fetchall())
print(time.time()-t0)
for l in LOG: print(l)
inst.duckdb.connect = real_connect
# timing of fresh instance + connect
t0=time.time()
for i in range(50):
    fs = inst.FakeSnow(); c = fs.connect(database='db1', schema='s1'); c.cursor().execute("select 1"); fs.duck_conn.close()
print('per instance+connect ms', (time.time()-t0)/50*1000)
