import fakesnow, snowflake.connector, itertools, tempfile, os
def t(label, f):
    try:
        r = f(); print(label, '=>', repr(r)[:500])
    except Exception as e:
        print(label, 'EXC', type(e).__module__+'.'+type(e).__name__, getattr(e,'errno',None), getattr(e,'sqlstate',None), str(e)[:300].replace('\n',' | '))
def cat(fs):
    c = fs.duck_conn.cursor()
    return sorted(c.execute("select catalog_name, schema_name from information_schema.schemata where catalog_name not in ('memory','system','temp','_fs_global') and schema_name not in ('information_schema','main','pg_catalog')").fetchall()), sorted(set(r[0] for r in c.execute("select catalog_name from information_schema.schemata where catalog_name not in ('memory','system','temp','_fs_global')").fetchall()))
from fakesnow.instance import FakeSnow
for cd, cs in itertools.product([True, False],[True,False]):
  for db, sch in [(None,None),('db1',None),(None,'s1'),('db1','s1'),('Db1','S1'),('db1','information_schema'),('db1','main'),('"db1"','s1'),('db-1','s1'),('db1','s 1')]:
    for pre in ['none','db','db+schema']:
        fs = FakeSnow(create_database_on_connect=cd, create_schema_on_connect=cs)
        try:
            if pre != 'none':
                s0 = fs.connect(); s0.cursor().execute("create database db1")
                if pre == 'db+schema': s0.cursor().execute("create schema db1.s1")
            before = cat(fs)
            def f():
                c = fs.connect(database=db, schema=sch)
                out = [c.database, c.schema, c.database_set, c.schema_set]
                try: out.append(c.cursor().execute("select current_database(), current_schema()").fetchall())
                except Exception as e: out.append(('EXC', type(e).__name__, getattr(e,'errno',None)))
                try: out.append(c.cursor().execute("create table zz (a int)").fetchall())
                except Exception as e: out.append(('EXC', type(e).__name__, getattr(e,'errno',None), str(e)[:80]))
                return out
            t(f'cd={cd} cs={cs} db={db} sch={sch} pre={pre} before={before}', f)
            print('      after', cat(fs))
        except Exception as e:
            print('SETUP EXC', e)
