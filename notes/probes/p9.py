import fakesnow, snowflake.connector
def t(label, f):
    try:
        r = f(); print(label, '=>', repr(r)[:400])
    except Exception as e:
        print(label, 'EXC', type(e).__module__+'.'+type(e).__name__, getattr(e,'errno',None), getattr(e,'sqlstate',None), str(e)[:200].replace('\n',' | '))
with fakesnow.patch():
    conn = snowflake.connector.connect(database='db1', schema='s1')
    cur = conn.cursor()
    q = lambda s: cur.execute(s).fetchall()
    q("""create table j (id int, v variant)"""); q("""insert into j select 1, parse_json('{"a":{"b":[10,"x",null,true,{"c":"d\\\\"q"}]},"s":"Str","n":1.5,"z":null,"e":{},"ea":[], "k k":1}')""")
    t('raw', lambda: q("select v from j"))
    for e in ["v:a", "v:a.b", "v:a.b[0]", "v:a.b[1]", "v:a.b[1]::varchar", "v:a.b[2]", "v:a.b[2]::varchar", "v:a.b[3]", "v:a.b[3]::boolean", "v:a.b[4].c", "v:a.b[4].c::varchar", "v:a.b[9]", "v:nope", "v:nope.x", "v:s.x", "v:s[0]",
              "v:s", "v:s::varchar", "v:s::string", "v:n::float", "v:n::number(10,1)", "v:n::int", "v:z", "v:z::varchar", "v:z is null", "v:e", "v:ea", "v['a']", "v['a']['b'][0]", "v['k k']", 'v:"k k"', "get_path(v,'a.b[1]')", "get_path(v,'a.b[1]')::varchar",
              "upper(v:s)", "lower(v:s)", "trim(v:s)", "upper(v:s::varchar)", "v:s = 'Str'", "v:s::varchar = 'Str'", "v:n > 1", "v:n::float > 1 and v:s::varchar = 'Str'", "v:a.b[0] + 1", "v:a.b[0]::int + 1", "not v:a.b[3]::boolean", "v:n::float * 2 + 1",
              "v:s::varchar || 'x'", "v:s || 'x'", "array_size(v:a.b)", "array_size(v:ea)", "array_size(v:s)", "array_size(v:nope)", "v:a.b[0] = 10", "v:a.b[0]::int = 10 or false", "v:s::varchar in ('Str')", "v:s::varchar like 'S%'", "v:S", "v:a.B",
              "v:a.b[0]::varchar", "v:n::varchar", "v:a.b[3]::varchar", "v:e::varchar", "v:a::varchar", "typeof(v:s)", "is_null_value(v:z)", "v:a.b[1] is null", "v:z::int", "coalesce(v:nope::varchar,'dflt')",
              ]:
        t(e, lambda: q(f"select {e} from j"))
    for s in ["select parse_json('[1,2]')", "select parse_json('nope')", "select try_parse_json('nope')", "select try_parse_json('{\"a\":1}')", "select parse_json(null)", "select parse_json('null')", "select parse_json('1')", "select parse_json('\"s\"')",
              "select object_construct('a',1,'b','x')", "select object_construct('a',null,'b',2)", "select object_construct_keep_null('a',null,'b',2)", "select object_construct()", "select object_construct('a',object_construct('b',null))", "select object_construct('a',[1,null])",
              "select object_construct(*) from (select 1 as a, 'x' as b)", "select object_construct('a',1):a", "select object_construct('a','s'):a::varchar",
              "select [1,2,3]", "select []", "select array_construct(1,2)", "select array_construct()", "select array_construct(1,'a',null)", "select [1,'a']", "select [1,2][0]", "select ['a','b'][1]::varchar", "select array_size([1,2,3])", "select array_size([])", "select array_size(array_construct())",
              "select f.value from j, lateral flatten(input => v:a.b) f", "select f.value::varchar from j, lateral flatten(input => v:a.b) f", "select f.index, f.value from j, lateral flatten(input => v:a.b) f", "select value from j, lateral flatten(input => v:ea)", "select value from j, lateral flatten(v:a.b)",
              "select value from table(flatten(input => parse_json('[1,2]')))", "select f.value:c from j, lateral flatten(input => v:a.b) f", "select id, f.value from j, lateral flatten(input => v:nope) f", "select f.key, f.value from j, lateral flatten(input => v:a) f",
              "select value from lateral flatten(input => [3,1,2])", "select value::int from lateral flatten(input => [3,1,2]) order by 1", "select split('a b',' ')", "select value::varchar from lateral flatten(input => split('a b',' '))",
              "select to_variant(1)", "select to_json(parse_json('{\"a\":1}'))", "select parse_json('{\"a\":1}'):a::int + 1 = 2",
              ]:
        t(s, lambda: q(s))
