import fakesnow, snowflake.connector
from snowflake.connector.cursor import DictCursor
def t(label, f):
    try:
        print(label, '=>', repr(f())[:900])
    except Exception as e:
        print(label, 'EXC', type(e).__module__+'.'+type(e).__name__, getattr(e,'errno',None), getattr(e,'sqlstate',None), str(e)[:250].replace('\n',' | '))
with fakesnow.patch():
    conn = snowflake.connector.connect(database='db1', schema='s1')
    cur = conn.cursor()
    cur.execute("create table t (a int, b varchar)"); cur.execute("insert into t values (1,'x')")
    cur.execute("create view v as select * from t")
    for sql in ["select * from nope", "select * from s1.nope", "select * from db1.s1.nope", "select * from nosch.t", "select * from nodb.s1.t",
                "select nocol from t", "select nofunc(a) from t", "select * from t join nope on true", "select * from (select * from nope)",
                "insert into nope values (1)", "update nope set a=1", "delete from nope", "truncate table nope", "drop table nope", "drop view nope", "drop schema nope", "drop database nope",
                "create table t (a int)", "create view v as select 1", "create schema s1", "create database db1",
                "insert into t values (1)", "insert into t values (1,'a',3)", "insert into t (a) values (1,2)", "insert into t (nocol) values (1)",
                "update t set nocol=1", "delete from t where nocol=1", "alter table nope add column c int", "alter table t drop column nocol", "alter table t add column a int",
                "describe table nope", "describe view nope", "show tables in schema nope", "select $undefined", "use schema nope", "use database nope",
                "create table nosch.x (a int)", "create table nodb.s1.x (a int)", "create view vv as select * from nope", "create table ct as select * from nope",
                "merge into nope using t on nope.a=t.a when matched then delete", "comment on table nope is 'x'", "alter table nope set comment='x'",
                "select 1/0", "select 'a'::int", "select * from t where a = 'x'", "selec 1", "select", "insert into t values ('notint','b')",
                "create table c clone nope", "alter table nope rename to n2", "alter table t rename to v", "select * from table(nope())",
                ]:
        t(sql, lambda: cur.execute(sql).fetchall())
    t('rows after', lambda: cur.execute("select * from t").fetchall())
    t('ext tables', lambda: cur.execute("select * from db1.information_schema._fs_tables_ext").fetchall())
    conn.close()
    t('closed exec', lambda: cur.execute("select 1").fetchall())
    t('closed cursor()', lambda: conn.cursor().execute("select 1"))
    t('closed commit', lambda: conn.commit())
    t('closed exec_string', lambda: conn.execute_string("select 1"))
    t('closed desc', lambda: cur.description)
    t('closed fetch', lambda: cur.fetchall())
