import fakesnow, snowflake.connector
def t(label, f):
    try:
        r = f(); print(label, '=>', repr(r)[:400])
    except Exception as e:
        print(label, 'EXC', type(e).__module__+'.'+type(e).__name__, getattr(e,'errno',None), getattr(e,'sqlstate',None), str(e)[:200].replace('\n',' | '))
with fakesnow.patch():
    conn = snowflake.connector.connect(database='db1', schema='s1')
    cur = conn.cursor()
    q = lambda s: cur.execute(s).fetchall()
    for s in [
      "select regexp_replace('abcabc','b','X')", "select regexp_replace('abcabc','b')", "select regexp_replace('a.b.c','\\\\.','-')", "select regexp_replace('abcabc','b','X',1,2)",
      "select regexp_replace('abc','(a)(b)','\\\\2\\\\1')", "select regexp_replace(null,'b','X')",
      "select regexp_substr('abc abd abe','ab.')", "select regexp_substr('abc abd abe','ab.',1,2)", "select regexp_substr('abc abd abe','ab.',5)", "select regexp_substr('abc abd abe','ab.',1,4)",
      "select regexp_substr('abc abd','a(b)(.)',1,1,'e')", "select regexp_substr('abc abd','a(b)(.)',1,1,'e',2)", "select regexp_substr('ABC','abc',1,1,'i')","select regexp_substr('abc','x')",
      "select regexp_substr('abc','b',0)", "select regexp_substr(null,'b')", "select regexp_substr('abc abd', 'ab.', 1, 1, 'ie')",
      "select split('a,b,c',',')", "select split('abc','')", "select split(null,',')", "select split('a,b',',')[0]", "select split('a,b',',')[0]::varchar",
      "select trim('  a  ')", "select trim('xxaxx','x')", "select trim(123)", "select ltrim('  a'), rtrim('a  ')",
      "select to_date('2024-02-29')", "select to_date('2024-02-29 12:13:14')", "select to_date(to_timestamp(86399))", "select to_date('29/02/2024','DD/MM/YYYY')", "select to_date('31-Dec-2020')",
      "select to_timestamp(0)", "select to_timestamp(-1)", "select to_timestamp('2020-01-01 00:00:00')", "select to_timestamp(1700000000000)", "select to_timestamp(1700000000, 0)", "select to_timestamp(1700000000123, 3)",
      "select to_timestamp_ntz('2020-01-01 01:02:03')", "select to_timestamp_ntz('2020-01-01 01:02:03.456')","select to_timestamp_ntz('2020-01-01')", "select to_timestamp_ntz(0)",
      "select to_decimal('1.5')", "select to_decimal('2.5')", "select to_decimal('-2.5')", "select to_number('12.345', 10, 2)", "select to_numeric('12.345', 5, 1)", "select to_decimal('abc')", "select try_to_decimal('abc')",
      "select try_to_number('1.5', 10, 1)", "select to_decimal('1e3', 10, 0)", "select to_number('12.345','99.999')", "select to_decimal(12.345, 10, 2)", "select to_decimal('123456', 5, 0)","select try_to_decimal('123456', 5, 0)",
      "select dateadd(day, 1, '2024-02-28'::date)", "select dateadd(month, 1, '2024-01-31'::date)", "select dateadd(hour, 1, '2024-01-31'::date)", "select dateadd('day', 1, '2024-02-28')", "select dateadd(year, 1, '2024-02-29'::date)",
      "select dateadd(day, 1, '2024-02-28'::timestamp)", "select dateadd(week, 1, '2024-02-28'::date)", "select dateadd(quarter, 1, '2024-02-28'::date)", "select dateadd(month, -1, '2024-03-31'::date)",
      "select datediff(day, '2024-01-01', '2024-03-01')", "select datediff(month, '2024-01-31', '2024-02-01')", "select datediff(year, '2023-12-31', '2024-01-01')", "select datediff(hour, '2024-01-01 00:59:00', '2024-01-01 01:00:00')",
      "select datediff(week, '2024-01-06', '2024-01-08')", "select datediff(day, '2024-01-01'::date, '2024-03-01'::date)", "select datediff('day', '2024-01-01', '2024-03-01')", "select datediff(quarter, '2023-12-31', '2024-01-01')",
      "select sha2('abc')", "select sha2('abc',256)", "select sha2('abc',512)", "select sha2_hex('abc')", "select sha2_binary('abc')", "select sha2(null)",
      "select equal_null(1,1), equal_null(null,null), equal_null(1,null)", "select random(1), random(1)", "select random(1)", "select random(2)", "select random()",
      "select column1, column2 from values (1,'a'),(2,'b')", "select * from (values (1,'a'))", "select column1 from (values (1),(2)) where column1>1",
      "select array_agg(column1) from values (1),(2)", "select array_agg(column1) within group (order by column1 desc) from values (1),(2),(3)", "select array_agg(distinct column1) from values (1),(1)",
      "select 1::number(10,2), 1.5::int, '1.5'::float, 1::float, '2020-01-01'::timestamp_ntz, 1.45::number(2,1), 2.5::int, 3.5::int, -2.5::int",
    ]:
        t(s, lambda: (q(s), [(d.type_code, d.precision, d.scale) for d in cur.description]))
