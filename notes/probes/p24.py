# Is splitting an autocommit engine call into BEGIN / stmt / COMMIT faithful enough to expose DuckDB's optimistic conflicts deterministically?
import duckdb
root = duckdb.connect(':memory:')
def t(label, f):
    try: print(label, '=>', f())
    except Exception as e: print(label, 'EXC', type(e).__name__, str(e).split('\n')[0][:120])
a = root.cursor(); b = root.cursor()
# overlapping ATTACH of same name
t('A begin', lambda: a.execute("BEGIN")); t('B begin', lambda: b.execute("BEGIN"))
t('A attach', lambda: a.execute("ATTACH DATABASE ':memory:' AS DB1"))
t('B attach', lambda: b.execute("ATTACH DATABASE ':memory:' AS DB1"))
t('A commit', lambda: a.execute("COMMIT")); t('B rollback', lambda: b.execute("ROLLBACK"))
# overlapping create schema
t('A begin', lambda: a.execute("BEGIN")); t('B begin', lambda: b.execute("BEGIN"))
t('A create schema', lambda: a.execute("CREATE SCHEMA DB1.S1"))
t('B create schema', lambda: b.execute("CREATE SCHEMA DB1.S1"))
t('A commit', lambda: a.execute("COMMIT")); t('B rollback', lambda: b.execute("ROLLBACK"))
# B begins before A's create commits, then B creates after A committed
t('B begin', lambda: b.execute("BEGIN")); t('B touches snapshot', lambda: b.execute("select 1").fetchall())
t('A create schema S2 autocommit', lambda: a.execute("CREATE SCHEMA DB1.S2"))
t('B create schema S2', lambda: b.execute("CREATE SCHEMA DB1.S2"))
t('B commit', lambda: b.execute("COMMIT"))
t('B state', lambda: b.execute("select schema_name from information_schema.schemata where catalog_name='DB1' order by 1").fetchall())
# create table if not exists overlapping
t('A begin', lambda: a.execute("BEGIN")); t('B begin', lambda: b.execute("BEGIN"))
t('A ctine', lambda: a.execute("create table if not exists DB1.S1.x (i int)"))
t('B ctine', lambda: b.execute("create table if not exists DB1.S1.x (i int)"))
t('A commit', lambda: a.execute("COMMIT")); t('B commit', lambda: b.execute("COMMIT"))
# SET schema / SET GLOBAL inside tx
t('A begin', lambda: a.execute("BEGIN")); t('A set schema', lambda: a.execute("SET schema='DB1.S1'")); t('A set global', lambda: a.execute("SET GLOBAL TimeZone='UTC'")); t('A commit', lambda: a.execute("COMMIT"))
# two overlapping inserts to same table: no conflict expected
t('A begin', lambda: a.execute("BEGIN")); t('B begin', lambda: b.execute("BEGIN"))
t('A ins', lambda: a.execute("insert into DB1.S1.x values (1)")); t('B ins', lambda: b.execute("insert into DB1.S1.x values (2)"))
t('A commit', lambda: a.execute("COMMIT")); t('B commit', lambda: b.execute("COMMIT")); t('rows', lambda: a.execute("select * from DB1.S1.x order by 1").fetchall())
# upsert into ext-like table with PK overlapping
a.execute("create table DB1.S1.ext (k varchar primary key, c varchar)")
t('A begin', lambda: a.execute("BEGIN")); t('B begin', lambda: b.execute("BEGIN"))
t('A upsert', lambda: a.execute("insert into DB1.S1.ext values ('t','a') on conflict (k) do update set c = excluded.c"))
t('B upsert', lambda: b.execute("insert into DB1.S1.ext values ('t','b') on conflict (k) do update set c = excluded.c"))
t('A commit', lambda: a.execute("COMMIT")); t('B commit', lambda: b.execute("COMMIT")); t('rows', lambda: a.execute("select * from DB1.S1.ext").fetchall())
